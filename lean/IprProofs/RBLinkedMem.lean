import IprModel.RBLinked
/-! Memory-level facts about the pointer-level red-black model: the read-after-write law of the heap and the exact
    effect of one rotation on the cells it touches (everything else is untouched). -/
set_option linter.unusedSimpArgs false
namespace Ipr.RB.Linked
variable {α : Type} [Inhabited α]

theorem rd_wr (m : Mem α) (a b : Nat) (c : Cell α) :
    rd (wr m a c) b = if b = a then c else rd m b := by
  unfold rd wr
  split
  · rename_i h
    simp [Array.getD_eq_getD_getElem?, Array.getElem?_setIfInBounds]
    split <;> simp_all
    intro h; exact absurd h.symm ‹_›
  · rename_i h
    simp [Array.getD_eq_getD_getElem?, Array.getElem?_push, Array.getElem?_append, Array.getElem?_replicate]
    grind

namespace Store

@[simp] theorem setLeft_root (s : Store α) a v : (s.setLeft a v).root = s.root := rfl
@[simp] theorem setRight_root (s : Store α) a v : (s.setRight a v).root = s.root := rfl
@[simp] theorem setParent_root (s : Store α) a v : (s.setParent a v).root = s.root := rfl
@[simp] theorem setColor_root (s : Store α) a v : (s.setColor a v).root = s.root := rfl
@[simp] theorem setLeft_count (s : Store α) a v : (s.setLeft a v).count = s.count := rfl
@[simp] theorem setRight_count (s : Store α) a v : (s.setRight a v).count = s.count := rfl
@[simp] theorem setParent_count (s : Store α) a v : (s.setParent a v).count = s.count := rfl
@[simp] theorem setColor_count (s : Store α) a v : (s.setColor a v).count = s.count := rfl
@[simp] theorem setLeft_next (s : Store α) a v : (s.setLeft a v).next = s.next := rfl
@[simp] theorem setRight_next (s : Store α) a v : (s.setRight a v).next = s.next := rfl
@[simp] theorem setParent_next (s : Store α) a v : (s.setParent a v).next = s.next := rfl
@[simp] theorem setColor_next (s : Store α) a v : (s.setColor a v).next = s.next := rfl
@[simp] theorem rd_setLeft (s : Store α) a v b : rd (s.setLeft a v).mem b = if b = a then { rd s.mem a with left := v } else rd s.mem b := by
  simp [setLeft, rd_wr]
@[simp] theorem rd_setRight (s : Store α) a v b : rd (s.setRight a v).mem b = if b = a then { rd s.mem a with right := v } else rd s.mem b := by
  simp [setRight, rd_wr]
@[simp] theorem rd_setParent (s : Store α) a v b : rd (s.setParent a v).mem b = if b = a then { rd s.mem a with parent := v } else rd s.mem b := by
  simp [setParent, rd_wr]
@[simp] theorem rd_setColor (s : Store α) a v b : rd (s.setColor a v).mem b = if b = a then { rd s.mem a with color := v } else rd s.mem b := by
  simp [setColor, rd_wr]

theorem rotateLeft_eff (s : Store α) (x y : Nat) (hxr : s.right x = some y) (hxy : x ≠ y)
    (hyl : ∀ yl, s.left y = some yl → yl ≠ x ∧ yl ≠ y)
    (hxp : ∀ xp, s.parent x = some xp → xp ≠ x ∧ xp ≠ y ∧ s.left y ≠ some xp) :
    ∃ s', s.rotateLeft x = some s' ∧ s'.count = s.count ∧ s'.next = s.next ∧
      s'.root = (if s.parent x = none then some y else s.root) ∧
      rd s'.mem x = { rd s.mem x with right := s.left y, parent := some y } ∧
      rd s'.mem y = { rd s.mem y with left := some x, parent := s.parent x } ∧
      (∀ yl, s.left y = some yl → rd s'.mem yl = { rd s.mem yl with parent := some x }) ∧
      (∀ xp, s.parent x = some xp → rd s'.mem xp =
          if s.left xp = some x then { rd s.mem xp with left := some y } else { rd s.mem xp with right := some y }) ∧
      (∀ b, b ≠ x → b ≠ y → s.left y ≠ some b → s.parent x ≠ some b → rd s'.mem b = rd s.mem b) := by
  have hyx : y ≠ x := fun h => hxy h.symm
  unfold rotateLeft
  simp only [hxr, Option.bind_eq_bind, Option.bind_some, Option.pure_def]
  simp only [left, right, parent] at *
  obtain ⟨ol, hl⟩ : ∃ o, (rd s.mem y).left = o := ⟨_, rfl⟩
  obtain ⟨op, hp⟩ : ∃ o, (rd s.mem x).parent = o := ⟨_, rfl⟩
  cases ol with
  | none =>
    cases op with
    | none =>
      simp [hxy, hyx, hl, hp]
      intro b h1 h2; simp [h1, h2]
    | some xp =>
      obtain ⟨h1, h2, h3⟩ := hxp xp hp
      by_cases hc : (rd s.mem xp).left = some x
      · simp [hxy, hyx, hl, hp, h1, h2, Ne.symm h1, Ne.symm h2, hc]
        intro b b1 b2 b3; simp [b1, b2, Ne.symm b3]
      · simp [hxy, hyx, hl, hp, h1, h2, Ne.symm h1, Ne.symm h2, hc]
        intro b b1 b2 b3; simp [b1, b2, Ne.symm b3]
  | some yl =>
    obtain ⟨g1, g2⟩ := hyl yl hl
    cases op with
    | none =>
      simp [hxy, hyx, hl, hp, g1, g2, Ne.symm g1, Ne.symm g2]
      intro b b1 b2 b3; simp [b1, b2, Ne.symm b3]
    | some xp =>
      obtain ⟨h1, h2, h3⟩ := hxp xp hp
      have h3 : yl ≠ xp := by simpa [hl] using h3
      by_cases hc : (rd s.mem xp).left = some x
      · simp [hxy, hyx, hl, hp, h1, h2, Ne.symm h1, Ne.symm h2, hc, g1, g2, Ne.symm g1, Ne.symm g2, h3, Ne.symm h3]
        intro b b1 b2 b3 b4; simp [b1, b2, Ne.symm b3, Ne.symm b4]
      · simp [hxy, hyx, hl, hp, h1, h2, Ne.symm h1, Ne.symm h2, hc, g1, g2, Ne.symm g1, Ne.symm g2, h3, Ne.symm h3]
        intro b b1 b2 b3 b4; simp [b1, b2, Ne.symm b3, Ne.symm b4]

theorem rotateRight_eff (s : Store α) (x y : Nat) (hxl : s.left x = some y) (hxy : x ≠ y)
    (hyr : ∀ yr, s.right y = some yr → yr ≠ x ∧ yr ≠ y)
    (hxp : ∀ xp, s.parent x = some xp → xp ≠ x ∧ xp ≠ y ∧ s.right y ≠ some xp) :
    ∃ s', s.rotateRight x = some s' ∧ s'.count = s.count ∧ s'.next = s.next ∧
      s'.root = (if s.parent x = none then some y else s.root) ∧
      rd s'.mem x = { rd s.mem x with left := s.right y, parent := some y } ∧
      rd s'.mem y = { rd s.mem y with right := some x, parent := s.parent x } ∧
      (∀ yr, s.right y = some yr → rd s'.mem yr = { rd s.mem yr with parent := some x }) ∧
      (∀ xp, s.parent x = some xp → rd s'.mem xp =
          if s.right xp = some x then { rd s.mem xp with right := some y } else { rd s.mem xp with left := some y }) ∧
      (∀ b, b ≠ x → b ≠ y → s.right y ≠ some b → s.parent x ≠ some b → rd s'.mem b = rd s.mem b) := by
  have hyx : y ≠ x := fun h => hxy h.symm
  unfold rotateRight
  simp only [hxl, Option.bind_eq_bind, Option.bind_some, Option.pure_def]
  simp only [right, left, parent] at *
  obtain ⟨ol, hr⟩ : ∃ o, (rd s.mem y).right = o := ⟨_, rfl⟩
  obtain ⟨op, hp⟩ : ∃ o, (rd s.mem x).parent = o := ⟨_, rfl⟩
  cases ol with
  | none =>
    cases op with
    | none =>
      simp [hxy, hyx, hr, hp]
      intro b h1 h2; simp [h1, h2]
    | some xp =>
      obtain ⟨h1, h2, h3⟩ := hxp xp hp
      by_cases hc : (rd s.mem xp).right = some x
      · simp [hxy, hyx, hr, hp, h1, h2, Ne.symm h1, Ne.symm h2, hc]
        intro b b1 b2 b3; simp [b1, b2, Ne.symm b3]
      · simp [hxy, hyx, hr, hp, h1, h2, Ne.symm h1, Ne.symm h2, hc]
        intro b b1 b2 b3; simp [b1, b2, Ne.symm b3]
  | some yr =>
    obtain ⟨g1, g2⟩ := hyr yr hr
    cases op with
    | none =>
      simp [hxy, hyx, hr, hp, g1, g2, Ne.symm g1, Ne.symm g2]
      intro b b1 b2 b3; simp [b1, b2, Ne.symm b3]
    | some xp =>
      obtain ⟨h1, h2, h3⟩ := hxp xp hp
      have h3 : yr ≠ xp := by simpa [hr] using h3
      by_cases hc : (rd s.mem xp).right = some x
      · simp [hxy, hyx, hr, hp, h1, h2, Ne.symm h1, Ne.symm h2, hc, g1, g2, Ne.symm g1, Ne.symm g2, h3, Ne.symm h3]
        intro b b1 b2 b3 b4; simp [b1, b2, Ne.symm b3, Ne.symm b4]
      · simp [hxy, hyx, hr, hp, h1, h2, Ne.symm h1, Ne.symm h2, hc, g1, g2, Ne.symm g1, Ne.symm g2, h3, Ne.symm h3]
        intro b b1 b2 b3 b4; simp [b1, b2, Ne.symm b3, Ne.symm b4]

end Store
end Ipr.RB.Linked
