import IprProofs.Stable
/-!
# IprProofs/StableStep.lean — every operation of the line protocol is a chain of guarded primitives (C05)

`memTargets s op` / `linkTargets op` name the records whose member list / links the operation may change;
`step_outcome` shows, by case analysis of `step`, that `step s op` is a `Chain` over exactly those targets, that a node
answer exists in the resulting state, and that a generative constructor answers the id `s.size` (never allocated before).
-/
namespace Ipr.Stable

/-- the constructors that must yield a node distinct from every other one -/
def Op.generative : Op → Bool
  | .mk f _ => isGenerative f
  | .unit => true
  | .decl .. => true
  | .param .. => true
  | .mparam .. => true
  | .enumerator .. => true
  | .base .. => true
  | .handler .. => true
  | _ => false

/-- the records an operation may append members to -/
def memTargets (s : State) : Op → List Id
  | .decl c _ n t =>
    match scopeOf s c with
    | some sc => sc :: (masterOf s sc n t).toList
    | none => []
  | .param pl _ _ =>
    match (s.get pl).views.lookup "elements" with
    | some (.sameAs sc) => [sc]
    | _ => []
  | .mparam m _ _ =>
    match (s.get m).parts.lookup "parameters" with
    | some pl =>
      match (s.get pl).views.lookup "elements" with
      | some (.sameAs sc) => [sc]
      | _ => []
    | none => []
  | .enumerator e _ => ((s.get e).parts.lookup "scope").toList
  | .base c _ =>
    match (s.get c).views.lookup "bases" with
    | some (.sameAs sc) => [sc]
    | _ => []
  | .handler b _ _ => [b]
  | .push x _ => [x]
  | .stmt b _ => ((s.get b).parts.lookup "region").toList
  | _ => []

/-- the records an operation may set a link of -/
def linkTargets : Op → List Id
  | .set x _ _ => [x]
  | _ => []

/-- What one operation does: a chain of primitives; a node answer exists afterwards; a generative answer is `s.size`. -/
def Outcome (M L : List Id) (gen : Bool) (s s' : State) (r : Res) : Prop :=
  Chain M L s s' ∧ (∀ i, r = .node i → WF s → i < s'.size) ∧
  (gen = true → ∀ i, r = .node i → i = s.size ∧ s.size < s'.size ∧ (s'.get i).origin = .generative)

theorem Outcome.nonnode {M L : List Id} {gen : Bool} {s s' : State} {r : Res} (c : Chain M L s s') (h : ∀ i, r ≠ .node i) :
    Outcome M L gen s s' r :=
  ⟨c, fun i hi => absurd hi (h i), fun _ i hi => absurd hi (h i)⟩

theorem Outcome.bad {M L : List Id} {gen : Bool} {s : State} : Outcome M L gen s s .bad :=
  Outcome.nonnode (Chain.refl s) (by intro i h; cases h)

theorem Outcome.fresh {M L : List Id} {gen : Bool} {s s' : State} (c : Chain M L s s') (h : s.size < s'.size)
    (ho : gen = true → (s'.get s.size).origin = .generative) : Outcome M L gen s s' (.node s.size) :=
  ⟨c, fun i hi _ => by cases hi; exact h, fun hg i hi => by cases hi; exact ⟨rfl, h, ho hg⟩⟩

theorem Chain.origin {M L : List Id} {s s' : State} (c : Chain M L s s') {i : Id} (hi : i < s.size) :
    (s'.get i).origin = (s.get i).origin :=
  (c.ext.recs i hi).origin.symm

theorem Outcome.found {M L : List Id} {s s' : State} {i : Id} (c : Chain M L s s') (h : WF s → i < s'.size) :
    Outcome M L false s s' (.node i) :=
  ⟨c, fun j hj w => by cases hj; exact h w, fun hg => by cases hg⟩

theorem Outcome.comp {M L : List Id} {s s1 s' : State} {r : Res} (c : Chain M L s s1) (o : Outcome M L false s1 s' r) :
    Outcome M L false s s' r :=
  ⟨c.trans o.1, fun i hi w => o.2.1 i hi (c.wf w), fun hg => by cases hg⟩

/-! ## The helpers of `step` -/

theorem allocate_spec {s s1 : State} {rs : List Rec} {r : Res} (h : allocate s rs = (s1, r)) (M L : List Id) :
    Chain M L s s1 ∧
    ((r = .bad ∧ s1 = s) ∨ (r = .node s.size ∧ s.size < s1.size ∧ ∀ r0 rest, rs = r0 :: rest → s1.get s.size = r0)) := by
  unfold allocate at h
  dsimp only at h
  split at h
  · rename_i hg
    obtain ⟨rfl, rfl⟩ := Prod.mk.inj h
    have hpos : 0 < rs.length := List.length_pos_iff.mpr hg.2
    have hlt : s.size < (s.allocMany rs).size := by omega
    refine ⟨(Chain.refl s).alloc rs, Or.inr ⟨rfl, hlt, ?_⟩⟩
    intro r0 rest hrs
    obtain ⟨_, _, r, _, hidx, hget⟩ := State.get_allocMany_ge s rs (Nat.le_refl _) hlt
    rw [hget]
    subst hrs
    simpa using hidx.symm
  · obtain ⟨rfl, rfl⟩ := Prod.mk.inj h
    exact ⟨Chain.refl _, Or.inl ⟨rfl, rfl⟩⟩

/-- the first record allocated by a generative constructor is marked `generative` -/
def HeadGen (rs : List Rec) : Prop := ∀ r0 rest, rs = r0 :: rest → r0.origin = .generative

theorem allocate_outcome {s s1 : State} {rs : List Rec} {r : Res} (h : allocate s rs = (s1, r)) (M L : List Id) (gen : Bool)
    (ho : gen = true → HeadGen rs) : Outcome M L gen s s1 r := by
  obtain ⟨c, ⟨rfl, rfl⟩ | ⟨rfl, hlt, hget⟩⟩ := allocate_spec h M L
  · exact Outcome.bad
  · refine Outcome.fresh c hlt fun hg => ?_
    cases rs with
    | nil => simp [allocate] at h
    | cons r0 rest => rw [hget r0 rest rfl]; exact ho hg r0 rest rfl

theorem allocate_outcome' (s : State) (rs : List Rec) (M L : List Id) (gen : Bool) (ho : gen = true → HeadGen rs) :
    Outcome M L gen s (allocate s rs).1 (allocate s rs).2 :=
  allocate_outcome rfl M L gen ho

theorem addMember_outcome (s : State) (c : Id) (rs : List Rec) (M L : List Id) (gen : Bool) (hc : c ∈ M) (ho : HeadGen rs) :
    Outcome M L gen s (addMember s c rs).1 (addMember s c rs).2 := by
  unfold addMember
  split
  · split
    · rename_i s1 d heq
      obtain ⟨ch, ⟨hb, _⟩ | ⟨hr, hlt, hget⟩⟩ := allocate_spec heq M L
      · cases hb
      · cases hr
        refine Outcome.fresh (ch.mem c s.size hc) (by simpa using hlt) fun _ => ?_
        rw [((Chain.refl s1).mem c s.size hc (L := L)).origin hlt]
        cases rs with
        | nil => simp [allocate] at heq
        | cons r0 rest => rw [hget r0 rest rfl]; exact ho r0 rest rfl
    · exact Outcome.bad
  · exact Outcome.bad

theorem headGen_cons (r0 : Rec) (rest : List Rec) (h : r0.origin = .generative) : HeadGen (r0 :: rest) := by
  intro a b e; cases e; exact h

theorem compose_headGen {f : String} {args : List Arg} {b : Id} {rs : List Rec} (h : compose f args b = some rs) :
    HeadGen rs := by
  unfold compose at h
  dsimp only at h
  repeat' split at h
  all_goals first
    | (cases h; exact headGen_cons _ _ rfl)
    | cases h

/-- the key is stored once `addKey` is applied to a fresh record built from it -/
theorem State.keys_addKey_pos (s : State) (k : Key) (id : Id) (h1 : id < s.size) (h2 : (s.get id).tag = k.1)
    (h3 : (s.get id).args = k.2) (h4 : (s.get id).origin = .unified) (h5 : s.keys.lookup k = none) :
    (s.addKey k id).keys = (k, id) :: s.keys := by
  unfold State.addKey
  rw [if_pos ⟨h1, h2, h3, h4, h5⟩]

/-- `findOrAdd`: the answer is the node stored under `k` afterwards; it is new exactly when `k` was not stored. -/
theorem findOrAdd_spec {s s1 : State} {k : Key} {typ : Option Id} {mems : List Id} {views : List (String × View)} {r : Res}
    (h : findOrAdd s k typ mems views = (s1, r)) (M L : List Id) :
    Chain M L s s1 ∧
    ((r = .bad ∧ s1 = s) ∨
     (∃ i, r = .node i ∧ s1.keys.lookup k = some i ∧
        ((s.keys.lookup k = some i ∧ s1 = s) ∨ (s.keys.lookup k = none ∧ i = s.size ∧ s.size < s1.size)))) := by
  unfold findOrAdd at h
  split at h
  · rename_i id hk
    obtain ⟨rfl, rfl⟩ := Prod.mk.inj h
    exact ⟨Chain.refl _, Or.inr ⟨id, rfl, hk, Or.inl ⟨hk, rfl⟩⟩⟩
  · rename_i hk
    dsimp only at h
    split at h
    · rename_i hsz
      obtain ⟨rfl, rfl⟩ := Prod.mk.inj h
      refine ⟨((Chain.refl s).alloc _).key k s.size, Or.inr ⟨s.size, rfl, ?_, Or.inr ⟨hk, rfl, ?_⟩⟩⟩
      · generalize hr0 : ({ tag := k.1, args := k.2, origin := .unified, typ := typ, mems := mems, views := views } : Rec) = r0 at *
        have hlt : s.size < (s.allocMany [r0]).size := by omega
        obtain ⟨_, _, r, hr, hidx, hget⟩ := State.get_allocMany_ge s [r0] (Nat.le_refl _) hlt
        have : r = r0 := by simpa using hr
        subst this
        rw [State.keys_addKey_pos _ k s.size hlt (by rw [hget, ← hr0]) (by rw [hget, ← hr0]) (by rw [hget, ← hr0])
          (by rw [State.keys_allocMany]; exact hk)]
        simp
      · simp only [State.size_addKey]; omega
    · obtain ⟨rfl, rfl⟩ := Prod.mk.inj h
      exact ⟨Chain.refl _, Or.inl ⟨rfl, rfl⟩⟩

theorem findOrAdd_outcome {s s1 : State} {k : Key} {typ : Option Id} {mems : List Id} {views : List (String × View)} {r : Res}
    (h : findOrAdd s k typ mems views = (s1, r)) (M L : List Id) : Outcome M L false s s1 r := by
  obtain ⟨c, ⟨rfl, rfl⟩ | ⟨i, rfl, hl, ⟨h1, rfl⟩ | ⟨_, rfl, hlt⟩⟩⟩ := findOrAdd_spec h M L
  · exact Outcome.bad
  · exact Outcome.found c fun w => (w.keys k i h1).1
  · exact Outcome.fresh c hlt (fun hg => by cases hg)

theorem intern_chain {s s1 : State} {k : Key} {o : Option Id} (h : intern s k = (s1, o)) (M L : List Id) : Chain M L s s1 := by
  unfold intern at h
  split at h
  · rename_i s2 i heq
    obtain ⟨rfl, rfl⟩ := Prod.mk.inj h
    exact (findOrAdd_spec heq M L).1
  · obtain ⟨rfl, rfl⟩ := Prod.mk.inj h
    exact Chain.refl _

theorem intern_lookup {s s1 : State} {k : Key} {i : Id} (h : intern s k = (s1, some i)) : s1.keys.lookup k = some i := by
  unfold intern at h
  split at h
  · rename_i s2 j heq
    obtain ⟨rfl, hj⟩ := Prod.mk.inj h
    cases hj
    obtain ⟨_, ⟨hb, _⟩ | ⟨i', hr, hl, _⟩⟩ := findOrAdd_spec heq [] []
    · cases hb
    · cases hr; exact hl
  · obtain ⟨_, hj⟩ := Prod.mk.inj h
    cases hj

theorem resolve_chain {s s1 : State} {f : String} {args : List Arg} {ok : Option Key} (h : resolve s f args = (s1, ok))
    (M L : List Id) : Chain M L s s1 := by
  unfold resolve at h
  repeat' (first | split at h | dsimp only at h)
  all_goals
    obtain ⟨rfl, rfl⟩ := Prod.mk.inj h
    first
      | exact Chain.refl _
      | exact intern_chain (by assumption) M L
      | exact (intern_chain (by assumption) M L).trans (intern_chain (by assumption) M L)

theorem unify_outcome (s : State) (f : String) (args : List Arg) (M L : List Id) :
    Outcome M L false s (unify s f args).1 (unify s f args).2 := by
  unfold unify
  split
  · rename_i s1 k heq
    exact Outcome.comp (resolve_chain heq M L) (findOrAdd_outcome rfl M L)
  · exact Outcome.nonnode (Chain.refl _) (by intro i h; cases h)

theorem mkNode_outcome (s : State) (f : String) (args : List Arg) (M L : List Id) :
    Outcome M L (isGenerative f) s (mkNode s f args).1 (mkNode s f args).2 := by
  unfold mkNode
  split
  · rename_i hu
    have hg : isGenerative f = false := by simp [isGenerative, hu]
    rw [hg]
    split
    · exact unify_outcome s f args M L
    · exact Outcome.bad
  · split
    · split
      · rename_i rs hrs
        exact allocate_outcome' _ _ _ _ _ fun _ => compose_headGen hrs
      · exact allocate_outcome' _ _ _ _ _ fun _ => headGen_cons _ _ rfl
    · exact Outcome.bad

/-! ## Warehouse-only changes -/

theorem whGuard_new (s : State) : WhGuard s (s.whs ++ [some []]) := by
  intro ids hids x hx
  rcases List.mem_append.mp hids with h | h
  · exact Or.inr ⟨ids, h, hx⟩
  · have : ids = [] := by simpa using h
    subst this; cases hx

theorem whGuard_push (s : State) (w : Nat) (ids : List Id) (t : Id) (hw : s.whs[w]? = some (some ids)) (ht : t < s.size) :
    WhGuard s (s.whs.set w (some (ids ++ [t]))) := by
  intro ids' hids x hx
  rcases List.mem_or_eq_of_mem_set hids with h | h
  · exact Or.inr ⟨ids', h, hx⟩
  · cases h
    rcases List.mem_append.mp hx with h | h
    · exact Or.inr ⟨ids, List.mem_iff_getElem?.mpr ⟨w, hw⟩, h⟩
    · have : x = t := by simpa using h
      exact Or.inl (this ▸ ht)

theorem whGuard_drop (s : State) (w : Nat) : WhGuard s (s.whs.set w none) := by
  intro ids hids x hx
  rcases List.mem_or_eq_of_mem_set hids with h | h
  · exact Or.inr ⟨ids, h, hx⟩
  · cases h

/-! ## Every operation -/

theorem step_outcome (s : State) (op : Op) :
    Outcome (memTargets s op) (linkTargets op) op.generative s (step s op).1 (step s op).2 := by
  cases op with
  | mk f args => exact mkNode_outcome s f args _ _
  | const name => exact findOrAdd_outcome rfl _ _
  | root =>
    simp only [step]
    split
    · rename_i id hk
      exact Outcome.found (Chain.refl _) fun w => (w.keys _ id hk).1
    · split
      · rename_i s1 id heq
        obtain ⟨ch, ⟨hb, _⟩ | ⟨hr, hlt, _⟩⟩ := allocate_spec heq [] []
        · cases hb
        · cases hr
          exact Outcome.fresh (ch.key _ _) (by simpa using hlt) (fun hg => by cases hg)
      · exact Outcome.bad
  | unit => exact allocate_outcome' _ _ _ _ _ fun _ => headGen_cons _ _ rfl
  | part x acc =>
    simp only [step]
    split
    · split
      · split
        · rename_i hp
          exact Outcome.found (Chain.refl _) fun _ => hp
        · exact Outcome.bad
      · exact Outcome.bad
    · exact Outcome.bad
  | decl c kind n t =>
    generalize hM : memTargets s (.decl c kind n t) = M
    simp only [step]
    split
    · split
      · rename_i sc hsc
        split
        · split
          · rename_i m hm
            have h1 : sc ∈ M := by subst hM; simp [memTargets, hsc]
            have h2 : m ∈ M := by subst hM; simp [memTargets, hsc, hm]
            split
            · split
              · rename_i s1 d heq
                obtain ⟨ch, ⟨hb, _⟩ | ⟨_, hlt, hget⟩⟩ := allocate_spec heq M []
                · cases hb
                · refine Outcome.fresh ((ch.mem m s.size h2).mem sc s.size h1) (by simpa using hlt) fun _ => ?_
                  rw [(((Chain.refl s1).mem m s.size h2 (L := [])).mem sc s.size h1).origin hlt, hget _ _ rfl]
              · exact Outcome.bad
            · exact Outcome.bad
          · have h1 : sc ∈ M := by subst hM; simp [memTargets, hsc]
            split
            · rename_i s1 d heq
              obtain ⟨ch, ⟨hb, _⟩ | ⟨_, hlt, hget⟩⟩ := allocate_spec heq M []
              · cases hb
              · refine Outcome.fresh (ch.mem sc s.size h1) (by simpa using hlt) fun _ => ?_
                rw [((Chain.refl s1).mem sc s.size h1 (L := [])).origin hlt, hget _ _ rfl]
            · exact Outcome.bad
        · exact Outcome.bad
      · exact Outcome.bad
    · exact Outcome.bad
  | param pl n t =>
    generalize hM : memTargets s (.param pl n t) = M
    simp only [step]
    split
    · split
      · rename_i sc hsc
        exact addMember_outcome _ _ _ _ _ _ (by subst hM; simp [memTargets, hsc]) (headGen_cons _ _ rfl)
      · exact Outcome.bad
    · exact Outcome.bad
  | mparam m n t =>
    generalize hM : memTargets s (.mparam m n t) = M
    simp only [step]
    split
    · split
      · rename_i pl hpl
        split
        · rename_i sc hsc
          exact addMember_outcome _ _ _ _ _ _ (by subst hM; simp [memTargets, hpl, hsc]) (headGen_cons _ _ rfl)
        · exact Outcome.bad
      · exact Outcome.bad
    · exact Outcome.bad
  | enumerator e n =>
    generalize hM : memTargets s (.enumerator e n) = M
    simp only [step]
    split
    · split
      · rename_i sc hsc
        exact addMember_outcome _ _ _ _ _ _ (by subst hM; simp [memTargets, hsc]) (headGen_cons _ _ rfl)
      · exact Outcome.bad
    · exact Outcome.bad
  | base c t =>
    generalize hM : memTargets s (.base c t) = M
    simp only [step]
    split
    · split
      · rename_i sc br hsc hbr
        exact addMember_outcome _ _ _ _ _ _ (by subst hM; simp [memTargets, hsc]) (headGen_cons _ _ rfl)
      · exact Outcome.bad
    · exact Outcome.bad
  | handler b n t =>
    simp only [step, memTargets]
    split
    · exact addMember_outcome _ _ _ _ _ _ (by simp) (headGen_cons _ _ rfl)
    · exact Outcome.bad
  | push x e =>
    simp only [step, memTargets]
    split
    · exact Outcome.nonnode ((Chain.refl s).mem x e (by simp)) (by intro i h; cases h)
    · exact Outcome.bad
  | stmt b e =>
    generalize hM : memTargets s (.stmt b e) = M
    simp only [step]
    split
    · split
      · rename_i rg hrg
        split
        · exact Outcome.nonnode ((Chain.refl s).mem rg e (by subst hM; simp [memTargets, hrg])) (by intro i h; cases h)
        · exact Outcome.bad
      · exact Outcome.bad
    · exact Outcome.bad
  | set x slot v =>
    simp only [step, linkTargets]
    split
    · exact Outcome.nonnode ((Chain.refl s).link x slot v (by simp)) (by intro i h; cases h)
    · exact Outcome.bad
  | whNew =>
    exact Outcome.nonnode ((Chain.refl s).wh _ (whGuard_new s)) (by intro i h; cases h)
  | whPush w t =>
    simp only [step]
    split
    · rename_i ids hw
      split
      · rename_i ht
        exact Outcome.nonnode ((Chain.refl s).wh _ (whGuard_push s w ids t hw ht)) (by intro i h; cases h)
      · exact Outcome.bad
    · exact Outcome.bad
  | whDrop w =>
    simp only [step]
    split
    · exact Outcome.nonnode ((Chain.refl s).wh _ (whGuard_drop s w)) (by intro i h; cases h)
    · exact Outcome.bad
  | burst => exact Outcome.nonnode (Chain.refl s) (by intro i h; cases h)
  | lookup sc n t =>
    simp only [step]
    split
    · split
      · split
        · rename_i hd
          exact Outcome.found (Chain.refl _) fun _ => hd
        · exact Outcome.bad
      · exact Outcome.nonnode (Chain.refl s) (by intro i h; cases h)
      · exact Outcome.bad
    · exact Outcome.bad
  | bad => exact Outcome.bad

end Ipr.Stable
