import IprProofs.UnifyL1
import IprProofs.UnifyExtra
/-! Vocabulary shared by the property files C01 / C04 / C11: answers and normal forms of a history, reachable heaps. -/
set_option linter.unusedSimpArgs false
namespace Ipr.Unify
open Ipr.RB

/-- The answers of a history at L1 (what the driver prints) and the normal forms of its requests on arrival. -/
def answers1 (addr : Ref → Int) (cfg : Config) (reqs : List Req) : List (Option Ref) := (run1 addr cfg {} reqs).2
def answers0 (cfg : Config) (reqs : List Req) : List (Option Ref) := (run0 cfg #[] reqs).2
def keysOf (cfg : Config) (reqs : List Req) : List (Option NKey) := (trace0 cfg #[] reqs).map Prod.fst

theorem answers0_eq (cfg : Config) (reqs : List Req) : answers0 cfg reqs = (trace0 cfg #[] reqs).map Prod.snd :=
  (trace0_answers cfg reqs #[]).symm

theorem answers1_eq {addr : Ref → Int} (hinj : Injective addr) (cfg : Config) (reqs : List Req) :
    answers1 addr cfg reqs = answers0 cfg reqs := (run1_refines hinj cfg reqs {} (Rel.init addr)).2.1

theorem keysOf_length (cfg : Config) (reqs : List Req) : (keysOf cfg reqs).length = reqs.length := by
  simp [keysOf, trace0_length]
theorem answers0_length (cfg : Config) (reqs : List Req) : (answers0 cfg reqs).length = reqs.length := by
  rw [answers0_eq]; simp [trace0_length]

theorem unified_index (cfg : Config) (reqs : List Req) (i j : Nat) (hi : i < reqs.length) (hj : j < reqs.length) :
    (answers0 cfg reqs)[i]? = (answers0 cfg reqs)[j]? ↔ (keysOf cfg reqs)[i]? = (keysOf cfg reqs)[j]? := by
  have hl := trace0_length cfg reqs #[]
  have hi' : i < (trace0 cfg #[] reqs).length := by omega
  have hj' : j < (trace0 cfg #[] reqs).length := by omega
  have := unified0 cfg reqs _ _ (List.getElem_mem hi') (List.getElem_mem hj')
  rw [answers0_eq]
  simp only [keysOf, List.getElem?_map, List.getElem?_eq_getElem hi', List.getElem?_eq_getElem hj', Option.map_some,
    Option.some.injEq]
  exact this


/-- The heap reached by any history, at L1 with any injective address assignment, satisfies the invariants. -/
theorem reach1_inv {addr : Ref → Int} (hinj : Injective addr) (cfg : Config) (reqs : List Req) :
    Inv cfg (run1 addr cfg {} reqs).1.heap := by
  rw [(run1_refines hinj cfg reqs {} (Rel.init addr)).1]
  exact (trace0_spec cfg reqs #[] (Inv.empty cfg)).1

/-- One more request after a history: L1 answers what L0 answers. -/
theorem exec1_after {addr : Ref → Int} (hinj : Injective addr) (cfg : Config) (reqs : List Req) (req : Req) :
    (exec1 addr cfg (run1 addr cfg {} reqs).1 req).2 = (exec0 cfg (run1 addr cfg {} reqs).1.heap req).2 :=
  (exec1_refines hinj cfg _ (run1_refines hinj cfg reqs {} (Rel.init addr)).2.2 req).2.1

theorem map_node_injective : ∀ (ts ts' : List Ref), ts.map Atom.node = ts'.map Atom.node → ts = ts' := by
  intro ts
  induction ts with
  | nil => intro ts' h; cases ts' <;> simp_all
  | cons a as ih =>
    intro ts' h
    cases ts' with
    | nil => simp at h
    | cons b bs => simp at h; rw [h.1, ih bs h.2]


/-- `Type::name()` of a built-in / `Symbol::name()`: the Identifier naming a constant or a symbol. -/
def nameOf (cfg : Config) (h : Heap) : Ref → Option Ref
  | .stat (.builtin k) => some (.stat (.ident k))
  | .stat .falseC => (wordIdx cfg wFalse).map fun k => .stat (.ident k)
  | .stat .trueC => (wordIdx cfg wTrue).map fun k => .stat (.ident k)
  | .stat .defaultC => (wordIdx cfg wDefault).map fun k => .stat (.ident k)
  | .stat .deleteC => (wordIdx cfg wDelete).map fun k => .stat (.ident k)
  | .stat .nullptrC => (wordIdx cfg wNullptr).map fun k => .stat (.ident k)
  | .dyn i =>
    match h[i]? with
    | some ⟨.symbols, _, [n, _]⟩ => some n
    | _ => none
  | _ => none


end Ipr.Unify
