import IprProofs.RBLinkedMap
import IprProofs.RBLinkedMem
set_option linter.unusedSimpArgs false
set_option linter.unusedSectionVars false
set_option linter.unusedVariables false
/-! The representation relation between a store of linked cells and an address-annotated persistent tree. -/
namespace Ipr.RB.Linked
open Tree
variable {α : Type} [Inhabited α]

/-- A persistent tree whose every node also carries the address of the cell that realises it. -/
abbrev ATree (α : Type) := Tree (Nat × α)
abbrev AFrame (α : Type) := Frame (Nat × α)
abbrev APath (α : Type) := Path (Nat × α)

/-- Forget the addresses. -/
def erase (t : ATree α) : Tree α := t.map Prod.snd
def erasePath (p : APath α) : Path α := p.map (Frame.map Prod.snd)

/-- The pointer to a subtree: the address of its root cell, null for the empty tree. -/
def ptrOf : ATree α → Option Nat
  | .nil => none
  | .node _ _ k _ => some k.1

@[simp] theorem ptrOf_nil : ptrOf (.nil : ATree α) = none := rfl
@[simp] theorem ptrOf_node (c l k r) : ptrOf (.node c l k r : ATree α) = some k.1 := rfl

/-- In-order list of the addresses of a subtree. -/
def addrs (t : ATree α) : List Nat := (inorder t).map Prod.fst

@[simp] theorem addrs_nil : addrs (.nil : ATree α) = [] := rfl
@[simp] theorem addrs_node (c l k r) : addrs (.node c l k r : ATree α) = addrs l ++ k.1 :: addrs r := by
  simp [addrs, inorder]

/-- `Own m p t`: the cells named in `t` hold exactly `t` (keys, colours, child pointers), the root cell's `parent`
    field is `p`, and every child's `parent` field names its parent. -/
def Own (m : Mem α) : Option Nat → ATree α → Prop
  | _, .nil => True
  | p, .node c l k r => rd m k.1 = ⟨k.2, c, ptrOf l, ptrOf r, p⟩ ∧ Own m (some k.1) l ∧ Own m (some k.1) r

/-- The cell of an ancestor: the hole arm holds `h`, the other arm points to the sibling subtree. -/
def cellOf (f : AFrame α) (h up : Option Nat) : Cell α :=
  match f.dir with
  | .L => ⟨f.k.2, f.c, h, ptrOf f.sib, up⟩
  | .R => ⟨f.k.2, f.c, ptrOf f.sib, h, up⟩

/-- The `parent` field expected at the hole of a context. -/
def parentOf : APath α → Option Nat
  | [] => none
  | f :: _ => some f.k.1

/-- The `root` field expected for a context whose hole holds `h`. -/
def rootOf (h : Option Nat) : APath α → Option Nat
  | [] => h
  | f :: fs => rootOf (some f.k.1) fs

/-- `OwnCtx m h path`: the ancestors' cells hold the context `path` with pointer `h` in the hole. -/
def OwnCtx (m : Mem α) : Option Nat → APath α → Prop
  | _, [] => True
  | h, f :: fs => rd m f.k.1 = cellOf f h (parentOf fs) ∧ Own m (some f.k.1) f.sib ∧ OwnCtx m (some f.k.1) fs

/-- Addresses of a context. -/
def caddrs : APath α → List Nat
  | [] => []
  | f :: fs => f.k.1 :: (addrs f.sib ++ caddrs fs)

theorem ptrOf_mem {t : ATree α} {a : Nat} (h : ptrOf t = some a) : a ∈ addrs t := by
  cases t with
  | nil => simp [ptrOf] at h
  | node c l k r => simp [ptrOf] at h; simp [h]

theorem parentOf_mem {p : APath α} {a : Nat} (h : parentOf p = some a) : a ∈ caddrs p := by
  cases p with
  | nil => simp [parentOf] at h
  | cons f fs => simp [parentOf] at h; simp [caddrs, h]

theorem rootOf_mem (p : APath α) : ∀ (h : Option Nat) (a : Nat), rootOf h p = some a → h = some a ∨ a ∈ caddrs p := by
  induction p with
  | nil => intro h a e; exact Or.inl e
  | cons f fs ih =>
    intro h a e
    rcases ih _ _ e with h1 | h1
    · simp at h1; simp [caddrs, h1]
    · simp [caddrs, h1]

theorem rootOf_cons_irrel (f : AFrame α) (fs : APath α) (h h' : Option Nat) : rootOf h (f :: fs) = rootOf h' (f :: fs) := rfl

/-- Frame rule for subtrees. -/
theorem Own.frame {m m' : Mem α} : ∀ {t : ATree α} {p : Option Nat}, Own m p t → (∀ a ∈ addrs t, rd m' a = rd m a) → Own m' p t := by
  intro t
  induction t with
  | nil => intro p _ _; trivial
  | node c l k r ihl ihr =>
    intro p h hf
    obtain ⟨h1, h2, h3⟩ := h
    refine ⟨?_, ihl h2 ?_, ihr h3 ?_⟩
    · rw [hf _ (by simp)]; exact h1
    · intro a ha; exact hf a (by simp [ha])
    · intro a ha; exact hf a (by simp [ha])

/-- Frame rule for contexts. -/
theorem OwnCtx.frame {m m' : Mem α} : ∀ {path : APath α} {h : Option Nat}, OwnCtx m h path → (∀ a ∈ caddrs path, rd m' a = rd m a) → OwnCtx m' h path := by
  intro path
  induction path with
  | nil => intro h _ _; trivial
  | cons f fs ih =>
    intro h hc hf
    obtain ⟨h1, h2, h3⟩ := hc
    refine ⟨?_, h2.frame ?_, ih h3 ?_⟩
    · rw [hf _ (by simp [caddrs])]; exact h1
    · intro a ha; exact hf a (by simp [caddrs, ha])
    · intro a ha; exact hf a (by simp [caddrs, ha])

/-- Only the root cell's `parent` field changes: the subtree hangs under a new parent. -/
theorem Own.reparent {m m' : Mem α} {t : ATree α} {p p' : Option Nat} (h : Own m p t) (hnd : (addrs t).Nodup)
    (hroot : ∀ a, ptrOf t = some a → rd m' a = { rd m a with parent := p' })
    (hf : ∀ a ∈ addrs t, ptrOf t ≠ some a → rd m' a = rd m a) : Own m' p' t := by
  cases t with
  | nil => trivial
  | node c l k r =>
    obtain ⟨h1, h2, h3⟩ := h
    simp [List.nodup_append] at hnd
    refine ⟨?_, h2.frame ?_, h3.frame ?_⟩
    · rw [hroot _ rfl, h1]
    · intro a ha; exact hf a (by simp [ha]) (by simp [ptrOf]; intro e; subst e; exact (hnd.2.2 _ ha).1 rfl)
    · intro a ha; exact hf a (by simp [ha]) (by simp [ptrOf]; intro e; subst e; exact hnd.2.1.1 ha)

/-- Only the root cell's colour changes. -/
theorem Own.recolor {m m' : Mem α} {c c' : Color} {l r : ATree α} {k : Nat × α} {p : Option Nat}
    (h : Own m p (.node c l k r)) (hnd : (addrs (.node c l k r)).Nodup)
    (hroot : rd m' k.1 = { rd m k.1 with color := c' })
    (hf : ∀ a ∈ addrs l ++ addrs r, rd m' a = rd m a) : Own m' p (.node c' l k r) := by
  obtain ⟨h1, h2, h3⟩ := h
  refine ⟨?_, h2.frame ?_, h3.frame ?_⟩
  · rw [hroot, h1]
  · intro a ha; exact hf a (by simp [ha])
  · intro a ha; exact hf a (by simp [ha])

/-! ### Moving the focus -/

theorem perm_plug (t : ATree α) (f : AFrame α) : (addrs (t.plug f)).Perm (addrs t ++ f.k.1 :: addrs f.sib) := by
  cases f with | mk d c k sib =>
  cases d
  · simp [plug]
  · simp only [plug, addrs_node]
    exact List.perm_append_comm.trans (by simpa using (List.perm_middle (a := k.1) (l₁ := addrs t) (l₂ := addrs sib)).symm)

theorem perm_zip (path : APath α) : ∀ t : ATree α, (addrs (zip t path)).Perm (addrs t ++ caddrs path) := by
  induction path with
  | nil => intro t; simp [zip, caddrs]
  | cons f fs ih =>
    intro t
    refine (ih (t.plug f)).trans ?_
    refine ((perm_plug t f).append_right _).trans ?_
    simp [caddrs]

/-- The state of the store while the tree is `zip t path`, seen from the subtree `t`. -/
structure Focus (s : Store α) (t : ATree α) (path : APath α) : Prop where
  own : Own s.mem (parentOf path) t
  ctx : OwnCtx s.mem (ptrOf t) path
  root : s.root = rootOf (ptrOf t) path
  nodup : (addrs (zip t path)).Nodup

theorem Focus.nd {s : Store α} {t path} (h : Focus s t path) : (addrs t ++ caddrs path).Nodup :=
  (perm_zip path t).nodup_iff.mp h.nodup

theorem ptrOf_plug (t : ATree α) (f : AFrame α) : ptrOf (t.plug f) = some f.k.1 := by
  cases f with | mk d c k sib => cases d <;> rfl

/-- One step up: the focus on `t` below the frame `f` is the focus on `plug t f`. -/
theorem Focus.up_iff {s : Store α} {t : ATree α} {f : AFrame α} {fs : APath α} :
    Focus s t (f :: fs) ↔ Focus s (t.plug f) fs := by
  cases f with | mk d c k sib =>
  cases d
  · constructor
    · rintro ⟨h1, ⟨h2, h3, h4⟩, h5, h6⟩
      exact ⟨⟨h2, h1, h3⟩, h4, h5, h6⟩
    · rintro ⟨⟨h2, h1, h3⟩, h4, h5, h6⟩
      exact ⟨h1, ⟨h2, h3, h4⟩, h5, h6⟩
  · constructor
    · rintro ⟨h1, ⟨h2, h3, h4⟩, h5, h6⟩
      exact ⟨⟨h2, h3, h1⟩, h4, h5, h6⟩
    · rintro ⟨⟨h2, h3, h1⟩, h4, h5, h6⟩
      exact ⟨h1, ⟨h2, h3, h4⟩, h5, h6⟩

theorem Focus.zip_iff {s : Store α} : ∀ {path : APath α} {t : ATree α}, Focus s t path ↔ Focus s (zip t path) [] := by
  intro path
  induction path with
  | nil => intro t; rfl
  | cons f fs ih => intro t; rw [Focus.up_iff, ih]; rfl

end Ipr.RB.Linked
