import IprModel.PrinterIO
import IprDriver.Util
/-! Driver of the printer model for C17 (text equality): reads the heap dumped by `harness/printprobe.cxx`, prints through
    `Ipr.Printer.print` — the definition the theorems of `IprProps/C17.lean` are about. -/

def main : IO Unit := Ipr.Driver.loop Ipr.Printer.IO.step {}
