import IprModel.Scope
import IprDriver.Util
/-! Driver for the scope model: same op lines as `harness/c07probe.cxx`, same observation lines.
    Names and types are the tokens of the probe's universe (`N0..N<n-1>` -- `lexicon <k> [<n>]`, 8 by default --, `P0..P7`,
    `F0..F3`, `A0..A3`); the address of a
    token is a parameter (`addr TOKEN a` lines, produced by vlib/c07.py from the probe's `#addr` lines) and defaults
    to an arbitrary injective assignment.  Addresses are never printed. -/
namespace Ipr.Driver.C07
open Ipr.RB Ipr.Scope

def nameTokensOf (n : Nat) : List String := (List.range n).map (fun i => s!"N{i}")
def typeTokens : List String :=
  (List.range 8).map (fun i => s!"P{i}") ++ (List.range 4).map (fun i => s!"F{i}") ++ (List.range 4).map (fun i => s!"A{i}")

structure St where
  addrs : List (String × Int) := []
  nn : Nat := 8
  nameTokens : List String := nameTokensOf 8
  gen : State := {}
  hkind : String := ""
  hs : List HScope := []

def defaultAddr (tok : String) : Option Int :=
  let num := (tok.drop 1).toString.toNat?
  match tok.front, num with
  | 'N', some i => some (Int.ofNat i)
  | 'P', some i => some (Int.ofNat i)
  | 'F', some i => some (Int.ofNat (100 + i))
  | 'A', some i => some (Int.ofNat (200 + i))
  | _, _ => none

def St.addr (st : St) (tok : String) : Option Int :=
  if tok == "ENUM" then some (-1)
  else match st.addrs.lookup tok with
    | some a => some a
    | none => if st.nameTokens.contains tok || typeTokens.contains tok then defaultAddr tok else none

/-- The name of a base subobject is the name of its type: an address disjoint from those of the `N` tokens. -/
def nmAddr (typeAddr : Int) : Int := -typeAddr - 2

def St.nameAddr (st : St) (tok : String) : Option Int :=
  if tok.startsWith "nm(" then (st.addr ((tok.drop 3).dropEnd 1).toString).map nmAddr else st.addr tok

def St.typeTok (st : St) (a : Int) (enum : Bool := false) : String :=
  if enum && a == -1 then "ENUM"
  else match typeTokens.find? (fun t => st.addr t == some a) with
    | some t => t
    | none => "?"

def St.nameTok (st : St) (a : Int) : String :=
  match st.nameTokens.find? (fun t => st.addr t == some a) with
  | some t => t
  | none =>
    match typeTokens.find? (fun t => (st.addr t).map nmAddr == some a) with
    | some t => s!"nm({t})"
    | none => "?"

def kindName : Kind → String
  | .alias => "alias" | .var => "var" | .field => "field" | .bitfield => "bitfield" | .typedecl => "typedecl"
  | .fundecl => "fundecl" | .primary => "template" | .secondary => "template"

def parseKind : String → Option Kind
  | "alias" => some .alias | "var" => some .var | "field" => some .field | "bitfield" => some .bitfield
  | "typedecl" => some .typedecl | "fundecl" => some .fundecl | "primary" => some .primary
  | "secondary" => some .secondary | _ => none

def join (sep : String) (l : List String) : String := sep.intercalate l

def dTok (p : String) (i : Nat) : String := s!"{p}{i}"

/-! General scope -/

def elemsStr (st : St) : String :=
  let s := st.gen
  let e := s.elements.map (dTok "d")
  let t := s.typeElems.map (fun o => match o with | some a => st.typeTok a | none => "!L")
  s!"E={join "," e} ; S={s.elements.length} ; T={join "," t}"

def setStr (p : String) (l : List Nat) : String := join "+" (l.map (dTok p))

def lookupsStr (st : St) (withSets : Bool) : String :=
  let s := st.gen
  join "," (st.nameTokens.map fun ntk =>
    match (st.addr ntk).bind s.lookup with
    | none => ntk ++ "!"
    | some oid =>
      ntk ++ String.join (typeTokens.map fun ttk =>
        match (st.addr ttk).bind (s.select oid) with
        | none => ""
        | some d => s!"/{ttk}>d{d}" ++ (if withSets then "=" ++ setStr "d" (s.declSet d) else "")))

def declStr (st : St) (d : Nat) : String :=
  let s := st.gen
  let n := match s.declName d with | some a => st.nameTok a | none => "!L"
  let t := match s.declType d with | some a => st.typeTok a | none => "!L"
  let k := match s.declKind d with | some k => kindName k | none => "other"
  let m := match s.master d with | some m => dTok "d" m | none => "!L"
  s!"d{d}:{n}:{t}:{k}:m={m}:s={setStr "d" (s.declSet d)}"

def dumpTree (show_ : KV → String) : Tree KV → String
  | .nil => "."
  | .node c l k r => "(" ++ (if c == .red then "R" else "B") ++ show_ k ++ " " ++ dumpTree show_ l ++ " " ++ dumpTree show_ r ++ ")"

def shapeStr (st : St) : String :=
  let s := st.gen
  let o := "O=" ++ dumpTree (fun kv => st.nameTok kv.1) s.overloads.tree
  o ++ String.join (st.nameTokens.map fun ntk =>
    match (st.addr ntk).bind s.lookup with
    | none => ""
    | some oid =>
      match s.ovls[oid]? with
      | none => ""
      | some oc =>
        let ms := (s.mastersOf oid).map (fun m => match m with | some d => dTok "d" d | none => "-")
        s!" ; {ntk}:E={dumpTree (fun kv => st.typeTok kv.1) oc.entries.tree}:M={join "+" ms}")

/-- Which branch `Scope::make_*` takes (statistics only). -/
def classify (s : State) (r : Req) : String :=
  match s.lookup r.name with
  | none => "new-name"
  | some oid => match (s.ovls[oid]?).bind (fun o => o.lookup r.type) with
    | none => "new-type"
    | some _ => "redeclare"

/-! Homogeneous scopes -/

def hKindName : String → String
  | "param" => "parameter" | "enum" => "enumerator" | "base" => "base" | _ => "ehparam"

def hscopeStr (st : St) (h : HScope) (off : Nat) : String :=
  let enum := st.hkind == "enum"
  let base := st.hkind == "base"
  let e := h.elements.map (fun i => dTok "h" (i + off))
  let t := h.typeElems.map (fun a => st.typeTok a enum)
  let names := if base then typeTokens.map (fun t => s!"nm({t})") else st.nameTokens
  let types := if enum then typeTokens ++ ["ENUM"] else typeTokens
  let l := names.map fun ntk =>
    match (st.nameAddr ntk).bind h.lookup with
    | none => ntk ++ "!"
    | some i =>
      ntk ++ String.join (types.map fun ttk =>
        match (st.addr ttk).bind (h.select i) with
        | none => ""
        | some j => s!"/{ttk}>h{j + off}")
  let d := h.elements.map fun i =>
    match h.members[i]? with
    | none => "?"
    | some m =>
      let pos := if st.hkind == "eh" then "-" else match h.position i with | some p => toString p | none => "!L"
      let ms := match h.master i with | some j => dTok "h" (j + off) | none => "!L"
      s!"h{i + off}:{st.nameTok m.name}:{st.typeTok m.type enum}:{hKindName st.hkind}:pos={pos}:m={ms}:s={setStr "h" ((h.declSet i).map (· + off))}"
  "{" ++ s!"E={join "," e} ; S={h.elements.length} ; T={join "," t} ; L={join "," l} ; D={join "," d}" ++ "}"

def hfullStr (st : St) : String :=
  if st.hkind == "eh" then
    if st.hs.isEmpty then "-"
    else join " " ((st.hs.zip (List.range st.hs.length)).map (fun p => hscopeStr st p.1 p.2))
  else match st.hs with
    | [h] => hscopeStr st h 0
    | _ => "bad-op"

def step (st : St) : List String → St × List String
  | "addr" :: tok :: a :: _ =>
    match a.toInt? with
    | some v => ({ st with addrs := (tok, v) :: st.addrs }, [])
    | none => (st, [])
  | ["lexicon", _, n] =>
    match n.toNat? with
    | some nn => if nn < 8 || nn > 64 then (st, ["bad-op"]) else ({ addrs := [], nn := nn, nameTokens := nameTokensOf nn }, ["ok"])
    | none => (st, ["bad-op"])
  | "lexicon" :: _ => ({ addrs := [] }, ["ok"])
  | ["new"] => ({ st with gen := {}, hkind := "", hs := [] }, ["ok"])
  | ["decl", kind, ntk, ttk] =>
    match parseKind kind, st.addr ntk, st.addr ttk with
    | some k, some n, some t =>
      let okSort := match k with
        | .fundecl => ttk.startsWith "F"
        | .primary | .secondary => ttk.startsWith "A"
        | _ => true
      if !okSort || !(st.nameTokens.contains ntk) || !(typeTokens.contains ttk) then (st, ["bad-op"])
      else
        let r : Req := { kind := k, name := n, type := t }
        let cls := classify st.gen r
        let s' := st.gen.make r
        ({ st with gen := s' }, [s!"d{st.gen.decls.length} size={s'.elements.length}", s!"# case={cls}"])
    | _, _, _ => (st, ["bad-op"])
  | ["full"] => (st, [s!"{elemsStr st} ; L={lookupsStr st false} ; D={join "," (st.gen.elements.map (declStr st))}"])
  | ["sets"] => (st, [s!"L={lookupsStr st true}"])
  | ["elems"] => (st, [elemsStr st])
  | ["probe", ntk, ttk] =>
    match st.addr ntk, st.addr ttk with
    | some n, some t =>
      if !(st.nameTokens.contains ntk) || !(typeTokens.contains ttk) then (st, ["bad-op"]) else
      match st.gen.lookup n with
      | none => (st, [ntk ++ "!"])
      | some oid => (st, [s!"{ntk}/{ttk}>" ++ (match st.gen.select oid t with | some d => dTok "d" d | none => "-")])
    | _, _ => (st, ["bad-op"])
  | ["obs", dtk] =>
    match (dtk.drop 1).toString.toNat? with
    | some d => if d < st.gen.decls.length then (st, [declStr st d]) else (st, ["bad-op"])
    | none => (st, ["bad-op"])
  | ["shape"] => (st, [shapeStr st])
  | ["hnew", kind] =>
    if ["param", "enum", "base"].contains kind then ({ st with gen := {}, hkind := kind, hs := [{}] }, ["ok"])
    else if kind == "eh" then ({ st with gen := {}, hkind := kind, hs := [] }, ["ok"])
    else ({ st with hkind := "", hs := [] }, ["bad-op"])
  | ["hadd", ntk, ttk] =>
    match st.addr ntk, st.addr ttk with
    | some n, some t =>
      if st.hkind == "" || !(st.nameTokens.contains ntk) || !(typeTokens.contains ttk) then (st, ["bad-op"])
      else if st.hkind == "eh" then
        let hs := st.hs ++ [({} : HScope).push n t]
        ({ st with hs := hs }, [s!"h{st.hs.length} size={hs.length}"])
      else match st.hs with
        | [h] =>
          let h' := if st.hkind == "enum" then h.push n (-1) else if st.hkind == "base" then h.push (nmAddr t) t else h.push n t
          ({ st with hs := [h'] }, [s!"h{h.members.length} size={h'.members.length}"])
        | _ => (st, ["bad-op"])
    | _, _ => (st, ["bad-op"])
  | ["hfull"] => if st.hkind == "" then (st, ["bad-op"]) else (st, [hfullStr st])
  | _ => (st, ["bad-op"])

end Ipr.Driver.C07

def main : IO Unit := Ipr.Driver.loop Ipr.Driver.C07.step {}
