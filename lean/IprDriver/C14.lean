import IprModel.Outcome
import IprModel.Seq
import IprDriver.Util
/-!
Driver for C14.  Ops (one per line):
  kinds                       -> `K <kind> <link:arity,..|-> <accessor,..|->` for every kind of the table
  state <kind> <digits>       -> `<kind> <digits> : acc=<outcome> ...`   outcome: `!L`, `-`, `$link[.part]`, a literal, `*`
  hist <kind> <l:c,l:c,..>    -> the same line for the state reached from the factory's (`State.initial`) by `State.run` of the assignments
                                 `link l := code c` in order, the i-th installing a fresh target (number i + 1)
  seq <impl> <pattern> [view] -> `size=.. empty=.. get=[..|..] fwd=[..] bwd=[..] end=.. rend=..`
  lookup <scope> <pattern>    -> `byname=[<token per member>|<token for a name nobody has>]`  (see `lookupLine`)
  optional <0|1>              -> `!L` or `e0`  (Optional<T>::get / util::ref<T>::get)
Every outcome token is `Sem.render`, i.e. a rendering of `Sem.eval` on that state (the definition IprProps/C14.lean is about).
Sequence patterns: one letter per slot/element — `s` an element, `p` an element whose type() raises, `u` a slot made by the
sizing constructor / resize, `n` push_back(nullptr).  Elements are numbered in order of creation: `e<k>`, its type `t<k>`.
-/
namespace Ipr.Driver.C14
open Ipr.Outcome Ipr.Seq

def digits (s : String) : Option (List Nat) :=
  if s == "-" then some [] else s.toList.mapM (fun c => if c.isDigit then some (c.toNat - '0'.toNat) else none)

def joinWith (sep : String) (xs : List String) : String := sep.intercalate xs

def kindLine (k : KindSpec) : String :=
  let ls := if k.links.isEmpty then "-" else joinWith "," (k.links.map (fun l => s!"{l.name}:{l.arity}"))
  let as := if k.rows.isEmpty then "-" else joinWith "," (k.rows.map (·.1))
  s!"K {k.name} {ls} {as}"

def stateLine (k : KindSpec) (ds : String) (σ : State) : String :=
  let fs := (k.expected σ).map (fun p => s!"{p.1}={p.2}")
  s!"{k.name} {ds} :" ++ String.join (fs.map (" " ++ ·))

def parseHist (s : String) : Option (List (Nat × Nat)) :=
  if s == "-" then some [] else
  (s.splitOn ",").mapM (fun a => match a.splitOn ":" with
    | [l, c] => match l.toNat?, c.toNat? with
      | some l, some c => some (l, c)
      | _, _ => none
    | _ => none)

/-- A history as the probe applies it: the i-th assignment `link l := code c` installs a fresh target (number `i + 1`). -/
def numbered (assigns : List (Nat × Nat)) : List (Nat × LinkVal) :=
  assigns.zipIdx.map (fun p => (p.1.1, { code := p.1.2, target := p.2 + 1 }))

/-! sequences -/
def showRes (pfx : String) : Res Nat → String
  | .ok k => s!"{pfx}{k}"
  | .error _ => "!L"

def showList (pfx : String) (xs : List (Res Nat)) : String := "[" ++ joinWith "," (xs.map (showRes pfx)) ++ "]"

def viewLine (pfx : String) (v : View Nat) : String :=
  let idx := List.range (v.size + 3)
  let gets := joinWith "," (idx.map (fun i => showRes pfx (v.deref (v.position i))))
  s!"size=#{v.size} empty=#{if v.empty then 1 else 0} get=[{gets}|{showRes pfx (v.deref (v.position sizeMax))}] " ++
  s!"fwd={showList pfx v.forward} bwd={showList pfx v.backward} end={showRes pfx (v.deref v.end_)} " ++
  s!"rend={showRes pfx (v.deref (View.pred v.begin_))}"

/-- Build a ref_sequence the way the probe does: leading `u`s by the sizing constructor, later `u` by `resize(size+1)`,
    `n` by `push_back(nullptr)`, `s`/`p` by `push_back(&e_k)`.  Returns the sequence and which elements have no type. -/
def buildRef (pat : List Char) : RefSeq Nat × List Nat :=
  let lead := (pat.takeWhile (· == 'u')).length
  let rest := pat.drop lead
  let step (acc : RefSeq Nat × Nat × List Nat) (c : Char) : RefSeq Nat × Nat × List Nat :=
    let (s, k, bad) := acc
    match c with
    | 'u' => (s.resize (s.size + 1), k, bad)
    | 'n' => (s.pushNull, k, bad)
    | 'p' => (s.pushBack k, k + 1, k :: bad)
    | _ => (s.pushBack k, k + 1, bad)
  let (s, _, bad) := rest.foldl step (RefSeq.presized lead, 0, [])
  (s, bad)

def typeOfWith (bad : List Nat) (k : Nat) : Res Nat := if bad.contains k then .error .logic else .ok k

def objItems (pat : List Char) : List Nat := List.range pat.length

def seqLine (impl : String) (pat : List Char) (view : String) : String :=
  match impl with
  | "ref" | "decl" => viewLine "e" (buildRef pat).1.view
  | "warehouse" | "warehouse-product" | "warehouse-sum" =>
    let lead := (pat.takeWhile (· == 'u')).length
    viewLine "e" (Warehouse.build lead (List.range (pat.length - lead))).view
  | "objseq" => viewLine "e" ((objItems pat).foldl ObjSeq.pushBack ({} : ObjSeq Nat)).view
  | "objlist" => viewLine "e" ((objItems pat).foldl ObjList.pushBack ({} : ObjList Nat)).view
  | "empty" => viewLine "e" (emptySeq Nat)
  | "sobj" => viewLine "e" (SingletonObj.mk 0).view
  | "sref" => viewLine "e" (SingletonRef.mk 0).view
  | "typedref" | "typeddecl" =>
    let (s, bad) := buildRef pat
    viewLine "t" (TypedSeq.mk s.view (typeOfWith bad)).view
  | "typedlist" =>
    viewLine "t" (TypedSeq.mk ((objItems pat).foldl ObjList.pushBack ({} : ObjList Nat)).view (typeOfWith [])).view
  | "homlist" | "homseq" | "homsingle" =>
    let members : View Nat :=
      if impl == "homlist" then ((objItems pat).foldl ObjList.pushBack ({} : ObjList Nat)).view
      else if impl == "homseq" then ((objItems pat).foldl ObjSeq.pushBack ({} : ObjSeq Nat)).view
      else (SingletonObj.mk 0).view
    -- every enumerator has the one enumeration as its type
    let h : HomScope Nat Nat := ⟨⟨members, if impl == "homseq" then (fun _ => .ok 0) else typeOfWith []⟩⟩
    if view == "type" then viewLine "t" h.type else viewLine "e" h.view
  | _ => "bad-op"

/-! look-ups by name: `lookup <scope> <pattern>`, letters `s` (own name), `r` (repeats the first name), `a` (name cannot be read) -/

/-- Names (`none`: `name()` raises) and types of the members the probe builds for a pattern.  Name `k` is the name made for
    member `k`; a member of letter `r` takes the name of the first named member (in `bases` it is that very class again,
    hence also its type); every enumerator has the one enumeration (type 0) as its type. -/
def lookupMembers (scope : String) (pat : List Char) : List (Option Nat × Nat) :=
  let step (acc : List (Option Nat × Nat) × Option Nat) (ci : Char × Nat) : List (Option Nat × Nat) × Option Nat :=
    let (ms, first) := acc
    let (c, i) := ci
    let ty (j : Nat) : Nat := if scope == "enums" then 0 else j
    match c, first with
    | 'a', _ => (ms ++ [(none, ty i)], first)
    | 'r', some f => (ms ++ [(some f, if scope == "bases" then ty f else ty i)], first)
    | _, none => (ms ++ [(some i, ty i)], some i)
    | _, some _ => (ms ++ [(some i, ty i)], first)
  (pat.zipIdx.foldl step ([], none)).1

def lookupToken (scope : String) (ms : List (Option Nat × Nat)) (q : Nat) (own : Option Nat) : String :=
  if scope == "general" then
    match ms.findIdx? (fun m => m.1 == some q) with
    | none => "-"
    | some _ =>
      let b := match own with
        | none => "-"
        | some t => match generalSelect ms (some q) t with
          | some m => s!"e{m}"
          | none => "-"
      s!"o(!L;{b};-)"
  else
    let names : List (Res Nat) := ms.map (fun m => match m.1 with | some n => .ok n | none => .error .logic)
    match HomScope.lookup names q with
    | .error _ => "!L"
    | .ok none => "-"
    | .ok (some j) =>
      let tj := (ms.getD j (none, 0)).2
      let b := match own with
        | none => "-"
        | some t => match singletonSelect (.ok tj : Res Nat) t with
          | .ok true => s!"e{j}"
          | _ => "-"
      s!"o(t{tj};{b};-)"

def lookupLine (scope : String) (pat : List Char) : String :=
  let ok := match scope with
    | "bases" => pat.all (fun c => c == 's' || c == 'r' || c == 'a')
    | "params" | "enums" | "general" => pat.all (fun c => c == 's' || c == 'r')
    | "eh" => pat == ['s']
    | _ => false
  if !ok then "bad-op" else
  let ms := lookupMembers scope pat
  let toks := ms.map (fun m => match m.1 with
    | none => "~"
    | some q => lookupToken scope ms q (some m.2))
  -- the name nobody has: one more than any member index
  "byname=[" ++ joinWith "," toks ++ "|" ++ lookupToken scope ms (pat.length + 1) none ++ "]"

def step (_ : Unit) : List String → Unit × List String
  | ["kinds"] => ((), sweptKinds.map kindLine)
  | ["state", kind, ds] =>
    match findSwept kind, digits ds with
    | some k, some codes =>
      if codes.length == k.links.length then ((), [stateLine k ds (State.ofCodes codes)]) else ((), [s!"{kind} {ds} : bad-state"])
    | none, _ => ((), [s!"{kind} {ds} : unmodelled-kind"])
    | _, _ => ((), [s!"{kind} {ds} : bad-state"])
  | ["hist", kind, h] =>
    match findSwept kind, parseHist h with
    | some k, some assigns =>
      -- the i-th assignment of the history sets its link to a fresh target, numbered i + 1
      let σ := (State.initial k.links.length).run (numbered assigns)
      if assigns.all (fun a => a.1 < k.links.length) then ((), [stateLine k h σ]) else ((), [s!"{kind} {h} : bad-state"])
    | none, _ => ((), [s!"{kind} {h} : unmodelled-kind"])
    | _, _ => ((), [s!"{kind} {h} : bad-state"])
  | ["seq", impl, pat] => ((), [s!"seq {impl} {pat} : " ++ seqLine impl (if pat == "-" then [] else pat.toList) "decl"])
  | ["seq", impl, pat, view] =>
    ((), [s!"seq {impl} {pat} {view} : " ++ seqLine impl (if pat == "-" then [] else pat.toList) view])
  | ["lookup", scope, pat] => ((), [s!"lookup {scope} {pat} : " ++ lookupLine scope (if pat == "-" then [] else pat.toList)])
  | ["optional", b] => ((), [s!"optional {b} : " ++ showRes "e" (optionalGet (if b == "1" then some 0 else none))])
  | _ => ((), ["bad-op"])

end Ipr.Driver.C14

def main : IO Unit := Ipr.Driver.loop Ipr.Driver.C14.step ()
