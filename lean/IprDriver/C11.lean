import IprModel.UnifyDriver
import IprDriver.Util
/-! Model driver of C11: the shared interpreter of `IprModel/UnifyDriver.lean` over `exec1 defaultAddr`. -/

def main : IO Unit := Ipr.Driver.loop Ipr.Unify.Driver.step {}
