import IprModel.Isolation
import IprModel.Own
import IprDriver.Util
/-! Driver of the isolation model instantiated with the Lexicon sessions of `IprModel/Own.lean`: each input line is one
    event `<lexicon> <op line>` of an interleaving, executed by `Ipr.Iso.exec`; the output line is tagged `T<lexicon>`.
    (`check.py C20` feeds a random merge of the thread programs and compares each thread's lines with what the real
    threads printed.) -/
namespace Ipr.Driver.C20
open Ipr.Iso

def sys : Sys Unit Ipr.Own.Sess (List String) (List String) [] where
  step := fun _ sh s ws => let r := Ipr.Own.Sess.step s ws; (sh, r.1, r.2)

def noShared : Shared [] := fun x => absurd x.2 (by simp)

def init : Global Ipr.Own.Sess [] := { shared := noShared, lex := fun _ => {} }

def step (g : Global Ipr.Own.Sess []) : List String → Global Ipr.Own.Sess [] × List String
  | t :: rest =>
    match t.toNat? with
    | some ℓ =>
      let r := exec sys () g [⟨ℓ, rest⟩]
      (r.1, r.2.flatMap (fun p => p.2.map (fun line => s!"T{p.1} {line}")))
    | none => (g, ["bad-op"])
  | [] => (g, [])

end Ipr.Driver.C20

def main : IO Unit := Ipr.Driver.loop Ipr.Driver.C20.step Ipr.Driver.C20.init
