import IprModel.RBTree
import IprDriver.Util
/-! Driver for the red-black tree model: same op lines as `harness/rbprobe.cxx`, same observation lines. -/
namespace Ipr.Driver.C08
open Ipr.RB

def dumpWith {α} (show_ : α → String) : Tree α → String
  | .nil => "."
  | .node c l k r => "(" ++ (if c == .red then "R" else "B") ++ show_ k ++ " " ++ dumpWith show_ l ++ " " ++ dumpWith show_ r ++ ")"

def showKey (k : List Int) : String :=
  if k.isEmpty then "-" else ",".intercalate (k.map toString)

/-- Which branch of `fixup_insert` the loop takes first, and how many recolouring climbs precede the stop
    (statistics for the evidence file only; not part of the proved model). -/
def classify {α} : Tree α → Path α → Nat → String
  | _, [], n => s!"root/{n}"
  | _, [_], n => s!"parent-root/{n}"
  | z, p :: g :: rest, n =>
    if p.c == .black then s!"parent-black/{n}"
    else if g.sib.isRed then classify ((z.plug { p with c := .black }).plug { g with c := .red, sib := g.sib.blacken }) rest (n+1)
    else match g.dir, p.dir with
      | .L, .L => s!"LL/{n}" | .L, .R => s!"LR/{n}" | .R, .R => s!"RR/{n}" | .R, .L => s!"RL/{n}"

/-- Keys are integer lists throughout; `int` and `addr` trees use singleton lists, so `lexCmp` coincides with `icmp`. -/
structure St where
  own : Bool := true
  tree : Tree (List Int) := .nil
  count : Nat := 0

/-- Parse a dumped real shape: tokens of the dump format. -/
partial def parseTree : List Char → Option (Tree (List Int) × List Char)
  | '.' :: rest => some (.nil, rest)
  | '(' :: c :: rest =>
    let col := if c == 'R' then Color.red else Color.black
    let keyChars := rest.takeWhile (· ≠ ' ')
    let rest := (rest.dropWhile (· ≠ ' ')).drop 1
    match parseIntList (String.ofList keyChars), parseTree rest with
    | some k, some (l, rest) =>
      match parseTree (rest.drop 1) with
      | some (r, rest) => some (.node col l k r, rest.drop 1)
      | none => none
    | _, _ => none
  | _ => none

def step (s : St) : List String → St × List String
  | ["new", flavour, _cmp] => ({ own := flavour == "own" }, ["ok"])
  | ["ins", key] =>
    match parseIntList key with
    | none => (s, ["bad-op"])
    | some k =>
      let cls := match Tree.descend lexCmp k s.tree [] with
        | none => "dup"
        | some path => classify (Tree.node .red .nil k .nil) path 0
      if s.own then
        let (c, fresh) := Container.insert lexCmp { tree := s.tree, count := s.count } k
        ({ s with tree := c.tree, count := c.count }, [s!"size={c.count} fresh={if fresh then 1 else 0}", s!"# case={cls}"])
      else
        let c := Chain.insert lexCmp { tree := s.tree, count := s.count } k
        ({ s with tree := c.tree, count := c.count }, [s!"size={c.count}", s!"# case={cls}"])
  | ["find", key] =>
    match parseIntList key with
    | none => (s, ["bad-op"])
    | some k => (s, [match Tree.find lexCmp k s.tree with | some x => "found=" ++ showKey x | none => "found=none"])
  | ["dump"] => (s, [dumpWith showKey s.tree])
  | ["stat"] => (s, [s!"nodes={s.tree.size} height={s.tree.height}"])
  | "chk" :: ds =>
    match parseTree (" ".intercalate ds).toList with
    | some (t, _) => (s, [s!"rb={t.checkRB} bst={t.checkBST lexCmp} height_ok={decide (t.height ≤ 2 * Nat.log2 (t.size + 1))}"])
    | none => (s, ["bad-dump"])
  | _ => (s, ["bad-op"])

end Ipr.Driver.C08

def main : IO Unit := Ipr.Driver.loop Ipr.Driver.C08.step {}
