import IprModel.RBTree
import IprModel.RBLinked
import IprDriver.Util
/-! Driver for the red-black tree models: same op lines as `harness/rbprobe.cxx`, same observation lines.
    Two models run side by side on every insertion: the persistent zipper model (`IprModel/RBTree.lean`, answers
    `ins`, `find`, `dump`, `stat`) and the pointer-level model (`IprModel/RBLinked.lean`, answers `pdump`: shape,
    colours, `count` and the key each node's `parent` field names).  Should the two ever disagree on an answer, an
    extra `linked-mismatch` line is printed, which the differential check reports. -/
namespace Ipr.Driver.C08
open Ipr.RB

def dumpWith {α} (show_ : α → String) : Tree α → String
  | .nil => "."
  | .node c l k r => "(" ++ (if c == .red then "R" else "B") ++ show_ k ++ " " ++ dumpWith show_ l ++ " " ++ dumpWith show_ r ++ ")"

def showKey (k : List Int) : String :=
  if k.isEmpty then "-" else ",".intercalate (k.map toString)

/-- Which branch of `fixup_insert` the loop takes first, and how many recolouring climbs precede the stop
    (statistics for the evidence file only; not part of the proved model). -/
def classify {α} : Tree α → Path α → Nat → String
  | _, [], n => s!"root/{n}"
  | _, [_], n => s!"parent-root/{n}"
  | z, p :: g :: rest, n =>
    if p.c == .black then s!"parent-black/{n}"
    else if g.sib.isRed then classify ((z.plug { p with c := .black }).plug { g with c := .red, sib := g.sib.blacken }) rest (n+1)
    else match g.dir, p.dir with
      | .L, .L => s!"LL/{n}" | .L, .R => s!"LR/{n}" | .R, .R => s!"RR/{n}" | .R, .L => s!"RL/{n}"

/-- Keys are integer lists throughout; `int` and `addr` trees use singleton lists, so `lexCmp` coincides with `icmp`. -/
structure St where
  own : Bool := true
  tree : Tree (List Int) := .nil
  count : Nat := 0
  /-- the pointer-level store; `none` once an operation on it was undefined (null dereference / out of fuel) -/
  lk : Option (Linked.Store (List Int)) := some {}

/-- The pointer-level insertion next to the persistent one; the second component lists disagreements. -/
def linkedInsert (s : St) (k : List Int) (size : Nat) (fresh : Option Bool) : Option (Linked.Store (List Int)) × List String :=
  match s.lk with
  | none => (none, [])
  | some lk =>
    if s.own then
      match Linked.Store.insertOwn lexCmp lk k with
      | none => (none, ["linked-mismatch undefined-behaviour-in-insert"])
      | some (lk', a, fr) =>
        (some lk', if lk'.count == size && some fr == fresh && lk'.key a == k then []
                   else [s!"linked-mismatch size={lk'.count} fresh={fr} key={lk'.key a}"])
    else
      match Linked.Store.insertChain lexCmp lk k with
      | none => (none, ["linked-mismatch undefined-behaviour-in-insert"])
      | some (lk', a) =>
        (some lk', if lk'.count == size && lk'.key a == k then [] else [s!"linked-mismatch size={lk'.count} key={lk'.key a}"])

/-- Parse a dumped real shape: tokens of the dump format. -/
partial def parseTree : List Char → Option (Tree (List Int) × List Char)
  | '.' :: rest => some (.nil, rest)
  | '(' :: c :: rest =>
    let col := if c == 'R' then Color.red else Color.black
    let keyChars := rest.takeWhile (· ≠ ' ')
    let rest := (rest.dropWhile (· ≠ ' ')).drop 1
    match parseIntList (String.ofList keyChars), parseTree rest with
    | some k, some (l, rest) =>
      match parseTree (rest.drop 1) with
      | some (r, rest) => some (.node col l k r, rest.drop 1)
      | none => none
    | _, _ => none
  | _ => none

def step (s : St) : List String → St × List String
  | ["new", flavour, _cmp] => ({ own := flavour == "own" }, ["ok"])   -- every field back to its default, `lk` included
  | ["ins", key] =>
    match parseIntList key with
    | none => (s, ["bad-op"])
    | some k =>
      let cls := match Tree.descend lexCmp k s.tree [] with
        | none => "dup"
        | some path => classify (Tree.node .red .nil k .nil) path 0
      if s.own then
        let (c, fresh) := Container.insert lexCmp { tree := s.tree, count := s.count } k
        let (lk, bad) := linkedInsert s k c.count (some fresh)
        ({ s with tree := c.tree, count := c.count, lk := lk },
         [s!"size={c.count} fresh={if fresh then 1 else 0}", s!"# case={cls}"] ++ bad)
      else
        let c := Chain.insert lexCmp { tree := s.tree, count := s.count } k
        let (lk, bad) := linkedInsert s k c.count none
        ({ s with tree := c.tree, count := c.count, lk := lk }, [s!"size={c.count}", s!"# case={cls}"] ++ bad)
  | ["reins", key] =>
    -- intrusive flavour only: the node OBJECT that is already linked under this key is handed to `chain::insert` again.
    -- Persistent model: an equal element is present, so `Chain.insert` leaves the tree alone and bumps `count`;
    -- pointer-level model: the statements of `chain::insert` run on the cell that is already linked (`insertChainAt`).
    match parseIntList key with
    | none => (s, ["bad-op"])
    | some k =>
      if s.own then (s, ["bad-op"]) else
      match Tree.find lexCmp k s.tree with
      | none => (s, ["bad-op"])
      | some _ =>
        let c := Chain.insert lexCmp { tree := s.tree, count := s.count } k
        let (lk, bad) : Option (Linked.Store (List Int)) × List String := match s.lk with
          | none => (none, [])
          | some lk =>
            match Linked.Store.find lexCmp lk k with
            | some (some z) =>
              match Linked.Store.insertChainAt lexCmp lk z with
              | none => (none, ["linked-mismatch undefined-behaviour-in-insert"])
              | some (lk', a) =>
                (some lk', if lk'.count == c.count && a == z then [] else [s!"linked-mismatch size={lk'.count} node={a}"])
            | _ => (some lk, ["linked-mismatch find"])
        ({ s with tree := c.tree, count := c.count, lk := lk }, [s!"size={c.count}", "# case=reoffered"] ++ bad)
  | ["find", key] =>
    match parseIntList key with
    | none => (s, ["bad-op"])
    | some k =>
      let ans := Tree.find lexCmp k s.tree
      let bad := match s.lk with
        | none => []
        | some lk =>
          match Linked.Store.find lexCmp lk k with
          | none => ["linked-mismatch undefined-behaviour-in-find"]
          | some r => if r.map lk.key == ans then [] else ["linked-mismatch find"]
      (s, [match ans with | some x => "found=" ++ showKey x | none => "found=none"] ++ bad)
  | ["dump"] => (s, [dumpWith showKey s.tree])
  | ["pdump"] =>
    match s.lk with
    | none => (s, ["linked-undefined"])
    | some lk => (s, [s!"n={lk.count} " ++ Linked.Store.dumpWith showKey (lk.count + 1) lk lk.root])
  | ["stat"] => (s, [s!"nodes={s.tree.size} height={s.tree.height}"])
  | "chk" :: ds =>
    match parseTree (" ".intercalate ds).toList with
    | some (t, _) => (s, [s!"rb={t.checkRB} bst={t.checkBST lexCmp} height_ok={decide (t.height ≤ 2 * Nat.log2 (t.size + 1))}"])
    | none => (s, ["bad-dump"])
  | _ => (s, ["bad-op"])

end Ipr.Driver.C08

def main : IO Unit := Ipr.Driver.loop Ipr.Driver.C08.step {}
