import IprModel.Region
import IprDriver.Util
/-! Driver for the region model: same op lines as `harness/c12probe.cxx`, same observation lines.
    Regions are `r<k>`, nodes `n<k>`, units `u<k>`, modules `m<k>`, numbered in creation order. -/
namespace Ipr.Driver.C12
open Ipr.Region

/-- `r12` with prefix `r` ↦ 12. -/
def ref? (pfx : Char) (s : String) : Option Nat :=
  match s.toList with
  | c :: rest => if c == pfx && !rest.isEmpty then (String.ofList rest).toNat? else none
  | [] => none

def showOpt (pfx : String) : Option Nat → String
  | some k => s!"{pfx}{k}"
  | none => "-"

def showList (pfx : String) (l : List Nat) : String :=
  if l.isEmpty then "-" else ",".intercalate (l.map (fun k => s!"{pfx}{k}"))

def UKind.cat : UKind → String
  | .cls => "Class" | .uni => "Union" | .enm => "Enum" | .ns => "Namespace" | .closure => "Closure"

def CKind.cat : CKind → String
  | .mapping => "Mapping" | .lambda => "Lambda" | .requires => "Requires" | .morphism => "Morphism"

def MKind.cat : MKind → String
  | .param => "Parameter" | .enumerator => "Enumerator" | .base => "Base_type"

/-- Category of a node as the owner line prints it. -/
def catOf (s : State) (n : Nat) : String :=
  match s.nodes[n]? with
  | some (.udt k _ _ _) => UKind.cat k
  | some (.block _ _) => "Block"
  | some (.hblock _ _) => "Block"
  | some (.handler ..) => "Handler"
  | some (.ehparam _) => "EH_parameter"
  | some (.callable k _ _) => CKind.cat k
  | some (.plist ..) => "Parameter_list"
  | some (.whereN _ _) => "Where"
  | some (.member mk _ _ _) => MKind.cat mk
  | none => "?"

def obsRegion (s : State) (r : Nat) : String :=
  match s.tree[r]? with
  | none => "bad-ref"
  | some _ =>
    let enc := match s.enclosing r with | some p => s!"r{p}" | none => "!L"
    let own := match s.owner r with | some o => s!"{catOf s o}:n{o}" | none => "-"
    s!"r{r} enc={enc} global={if s.isGlobal r then 1 else 0} owner={own} bind={showList "n" (s.bindings r)}"

def obsNode (s : State) (n : Nat) : String :=
  match s.nodes[n]? with
  | none => "bad-ref"
  | some (.udt k _ body _) =>
    let nm := if k == .ns then (match s.nsName n with | some x => s!" name=[{x}]" | none => " name=!L") else ""
    s!"n{n} {UKind.cat k} region=r{body} type={k.typeName}{nm}"
  | some (.block _ rg) => s!"n{n} Block region=r{rg}"
  | some (.hblock _ rg) => s!"n{n} Block region=r{rg}"
  | some (.handler _ _ _ exc hb) => s!"n{n} Handler exc=n{exc} body=n{hb}"
  | some (.ehparam _) => s!"n{n} EH_parameter home={showOpt "r" (s.homeOf n)}"
  | some (.callable k _ pl) => s!"n{n} {CKind.cat k} plist=n{pl}"
  | some (.plist _ _ _ parms _) =>
    s!"n{n} Parameter_list region=r{parms} level={showOpt "" (s.levelOf n)} size={(s.bindings parms).length}"
  | some (.whereN _ rg) => s!"n{n} Where region=r{rg}"
  | some (.member mk _ _ _) =>
    let lvl := if mk == .param then s!" level={showOpt "" (s.levelOf n)}" else ""
    s!"n{n} {MKind.cat mk} pos={showOpt "" (s.posOf n)} home={showOpt "r" (s.homeOf n)}{lvl}"

def obsUnit (s : State) (j : Nat) : String :=
  match s.units[j]? with
  | none => "bad-ref"
  | some u =>
    let k := match u.kind with | .tu => "tu" | .iface => "iface" | .impl => "impl"
    s!"u{j} kind={k} ns=n{u.ns} region=r{u.global} module={showOpt "m" u.module}"

/-- Answer of a creating operation, read from the records the operation wrote (`nr nn nu nm`: sizes before). -/
def created (nr nn nu nm : Nat) (s' : State) : String :=
  if s'.mods.size > nm then s!"m{nm} iface={obsUnit s' nu}"
  else if s'.units.size > nu then obsUnit s' nu
  else if s'.nodes.size == nn then
    (if s'.tree.size > nr then s!"r{nr}" else "bad-ref")
  else
    let n := s'.nodes.size - 1
    match s'.nodes[n]? with
    | some (.udt _ _ body bases) =>
      s!"n{n} body=r{body}" ++ (match bases with | some b => s!" bases=r{b}" | none => "")
    | some (.block _ rg) => s!"n{n} region=r{rg}"
    | some (.handler _ _ eh exc hb) =>
      let rg := match s'.nodes[hb]? with | some (.hblock _ rg) => s!"r{rg}" | _ => "?"
      s!"n{n} exc=n{exc} body=n{hb} eh=r{eh} region={rg}"
    | some (.callable _ _ pl) =>
      let pr := match s'.nodes[pl]? with | some (.plist _ _ _ parms _) => s!"r{parms}" | _ => "?"
      s!"n{n} plist=n{pl} parms={pr}"
    | some (.whereN _ rg) => s!"n{n} region=r{rg}"
    | some (.member mk _ _ _) =>
      let lvl := if mk == .param then s!" level={showOpt "" (s'.levelOf n)}" else ""
      s!"n{n} pos={showOpt "" (s'.posOf n)} home={showOpt "r" (s'.homeOf n)}{lvl}"
    | _ => "bad-ref"

def parseOp : List String → Option Op
  | ["unit"] => some .unit
  | ["module"] => some .module
  | ["munit", m] => (ref? 'm' m).map .munit
  | ["sub", r] => (ref? 'r' r).map .sub
  | ["class", r] => (ref? 'r' r).map (.udt .cls)
  | ["union", r] => (ref? 'r' r).map (.udt .uni)
  | ["enum", r] => (ref? 'r' r).map (.udt .enm)
  | ["ns", r] => (ref? 'r' r).map (.udt .ns)
  | ["closure", r] => (ref? 'r' r).map (.udt .closure)
  | ["block", r] => (ref? 'r' r).map .block
  | ["handler", b] => (ref? 'n' b).map .handler
  | ["mapping", r, l] => do some (.callable .mapping 0 (← ref? 'r' r) (← l.toNat?))
  | ["lambda", r, l] => do some (.callable .lambda 0 (← ref? 'r' r) (← l.toNat?))
  | ["requires", r, l] => do some (.callable .requires 0 (← ref? 'r' r) (← l.toNat?))
  | ["morphism", f, r, l] => do some (.callable .morphism (← ref? 'r' f) (← ref? 'r' r) (← l.toNat?))
  | ["where", r] => (ref? 'r' r).map .whereE
  | ["param", c] => (ref? 'n' c).map (.member .param)
  | ["enumerator", c] => (ref? 'n' c).map (.member .enumerator)
  | ["base", c] => (ref? 'n' c).map (.member .base)
  | _ => none

def step (s : State) (ws : List String) : State × List String :=
  match ws with
  | ["obs", r] => (s, [match ref? 'r' r with | some k => obsRegion s k | none => "bad-op"])
  | ["obsn", n] => (s, [match ref? 'n' n with | some k => obsNode s k | none => "bad-op"])
  | ["obsu", u] => (s, [match ref? 'u' u with | some k => obsUnit s k | none => "bad-op"])
  | ["obsm", m] =>
    (s, [match (ref? 'm' m).bind (fun k => s.mods[k]?.map (fun u => s!"m{k} iface=u{u}")) with
         | some x => x | none => "bad-ref"])
  | ["walk", r] =>
    (s, [match ref? 'r' r with
         | some k => if k < s.tree.size then let w := s.walk k; s!"r{k} steps={w.1} root=r{w.2}" else "bad-ref"
         | none => "bad-op"])
  | _ =>
    match parseOp ws with
    | some op =>
      -- only the old sizes are kept, so that the arrays stay uniquely referenced and are pushed in place
      let nr := s.tree.size; let nn := s.nodes.size; let nu := s.units.size; let nm := s.mods.size
      let s' := Region.step s op
      (s', [created nr nn nu nm s'])
    | none => (s, ["bad-op"])

end Ipr.Driver.C12

def main : IO Unit := Ipr.Driver.loop Ipr.Driver.C12.step {}
