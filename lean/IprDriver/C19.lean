import IprModel.Own
import IprDriver.Util
/-! Driver of the ownership model: same op lines as `harness/allocprobe.cxx`, same observation lines
    (`Ipr.Own.Sess.step`; every state it reaches is `run (construct …) ops` for some storage history, by construction). -/

def main : IO Unit := Ipr.Driver.loop Ipr.Own.Sess.step {}
