import IprModel.Bits
import Generated.Bits
import IprDriver.Util
/-! Driver for the specifier/qualifier algebra: same op lines as harness/c10probe.cxx. -/
namespace Ipr.Driver.C10
open Ipr.Bits Ipr.Generated

def tbl (kind : String) : List String := if kind == "s" then stdSpecifiers else stdQualifiers

def showNames (l : List String) : String := if l.isEmpty then "-" else ",".intercalate l

def step (s : Unit) : List String → Unit × List String
  | ["spec", kind, name] => (s, [match project (tbl kind) name with | some v => toString v | none => "!refused"])
  | ["dec", kind, v] => (s, [match v.toNat? with | some x => showNames (decompose (tbl kind) x) | none => "bad-op"])
  | [op, _kind, a, b] =>
    match a.toNat?, b.toNat? with
    | some x, some y =>
      (s, [if op == "or" then toString (x ||| y) else if op == "and" then toString (x &&& y)
           else if op == "xor" then toString (x ^^^ y) else if op == "imp" then (if implies x y then "1" else "0") else "bad-op"])
    | _, _ => (s, ["bad-op"])
  | _ => (s, ["bad-op"])

end Ipr.Driver.C10

def main : IO Unit := Ipr.Driver.loop Ipr.Driver.C10.step ()
