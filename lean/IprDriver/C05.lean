import IprModel.Stable
import IprDriver.Util
import Std.Data.HashMap
/-!
Driver of the stability model (C05).  Reads the same history lines as `harness/c05probe.cxx` and prints the lines that are
compared with it:

  R t<j> | R - | R !L | R bad     answer of the op (returned nodes are named by order of first return)
  C t<j> <tokens>                 (`obs`) how the observation of a node that was already returned at the previous round
                                  differs from that round: `Ipr.Stable.changeTokens (obs snapshot id) (obs now id)`
  S <returned> <rounds>
  .<op number>

Operands: `r<i>` result of line i, `#n`, `"hex`, `-`, `W<i>`.
-/
namespace Ipr.Driver.C05
open Ipr.Stable

structure St where
  m : State := {}
  results : Array (Option Id) := #[]
  tnames : Std.HashMap Id Nat := {}
  tracked : Array Id := #[]
  snap : State := {}
  trackedAtSnap : Nat := 0
  rounds : Nat := 0

def parseNat (s : String) : Option Nat := s.toNat?

def St.ref? (st : St) (tok : String) : Option Id :=
  if tok.startsWith "r" then
    match parseNat (tok.drop 1).toString with
    | some i => (st.results[i]?).join
    | none => none
  else none

def St.arg? (st : St) (tok : String) : Option Arg :=
  if tok == "-" then some .none
  else if tok.startsWith "#" then (parseNat (tok.drop 1).toString).map .num
  else if tok.startsWith "\"" then some (.str (tok.drop 1).toString)
  else if tok.startsWith "W" then (parseNat (tok.drop 1).toString).map .wh
  else (st.ref? tok).map .node

def wh? (tok : String) : Option Nat :=
  if tok.startsWith "W" then parseNat (tok.drop 1).toString else none

def St.parse (st : St) : List String → Op
  | "mk" :: f :: args =>
    match args.mapM st.arg? with
    | some as => .mk f as
    | none => .bad
  | ["k", name] => .const name
  | ["root"] => .root
  | ["unit"] => .unit
  | ["part", x, acc] => match st.ref? x with | some x => .part x acc | none => .bad
  | ["decl", c, kind, n, t] =>
    match st.ref? c, st.ref? n, st.ref? t with
    | some c, some n, some t => .decl c kind n t
    | _, _, _ => .bad
  | ["param", p, n, t] =>
    match st.ref? p, st.ref? n, st.ref? t with
    | some p, some n, some t => .param p n t
    | _, _, _ => .bad
  | ["mparam", p, n, t] =>
    match st.ref? p, st.ref? n, st.ref? t with
    | some p, some n, some t => .mparam p n t
    | _, _, _ => .bad
  | ["enumerator", e, n] =>
    match st.ref? e, st.ref? n with
    | some e, some n => .enumerator e n
    | _, _ => .bad
  | ["base", c, t] =>
    match st.ref? c, st.ref? t with
    | some c, some t => .base c t
    | _, _ => .bad
  | ["handler", b, n, t] =>
    match st.ref? b, st.ref? n, st.ref? t with
    | some b, some n, some t => .handler b n t
    | _, _, _ => .bad
  | ["push", x, e] =>
    match st.ref? x, st.ref? e with
    | some x, some e => .push x e
    | _, _ => .bad
  | ["stmt", b, e] =>
    match st.ref? b, st.ref? e with
    | some b, some e => .stmt b e
    | _, _ => .bad
  | ["set", x, slot, v] =>
    match st.ref? x, st.ref? v with
    | some x, some v => .set x slot v
    | _, _ => .bad
  | ["wh_new"] => .whNew
  | ["wh_push", w, t] =>
    match wh? w, st.ref? t with
    | some w, some t => .whPush w t
    | _, _ => .bad
  | ["wh_drop", w] => match wh? w with | some w => .whDrop w | none => .bad
  | "burst" :: _ => .burst
  | ["lookup", sc, n, t] =>
    match st.ref? sc, st.ref? n, st.ref? t with
    | some sc, some n, some t => .lookup sc n t
    | _, _, _ => .bad
  | _ => .bad

def St.name (st : St) (id : Id) : String :=
  match st.tnames[id]? with
  | some j => s!"t{j}"
  | none => "?"

def insertSorted (x : String) : List String → List String
  | [] => [x]
  | y :: ys => if x == y then y :: ys else if x < y then x :: y :: ys else y :: insertSorted x ys

def St.observe (st : St) : St × List String :=
  let lines := (List.range st.trackedAtSnap).filterMap fun j =>
    match st.tracked[j]? with
    | none => none
    | some id =>
      let toks := (changeTokens st.name (obs st.snap id) (obs st.m id)).foldl (fun acc t => insertSorted t acc) []
      if toks.isEmpty then none else some (s!"C t{j} " ++ " ".intercalate toks)
  let st' := { st with snap := st.m, trackedAtSnap := st.tracked.size, rounds := st.rounds + 1 }
  (st', lines ++ [s!"S {st.tracked.size} {st'.rounds}"])

def step (st : St) (ws : List String) : St × List String :=
  let opno := st.results.size
  let fin := s!".{opno}"
  match ws with
  | ["obs"] | ["obs_all"] =>
    let (st, lines) := { st with results := st.results.push none }.observe
    (st, lines ++ [fin])
  | _ =>
    let op := st.parse ws
    let (m, res) := Ipr.Stable.step st.m op
    match res with
    | .node id =>
      let (tn, tr) := match st.tnames[id]? with
        | some _ => (st.tnames, st.tracked)
        | none => (st.tnames.insert id st.tracked.size, st.tracked.push id)
      let st := { st with m := m, results := st.results.push (some id), tnames := tn, tracked := tr }
      (st, [s!"R {st.name id}", fin])
    | .unit => ({ st with m := m, results := st.results.push none }, ["R -", fin])
    | .error => ({ st with m := m, results := st.results.push none }, ["R !L", fin])
    | .bad => ({ st with results := st.results.push none }, ["R bad", fin])

end Ipr.Driver.C05

def main : IO Unit := Ipr.Driver.loop Ipr.Driver.C05.step {}
