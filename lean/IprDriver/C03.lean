import IprModel.Intern
import Generated.KnownWords
import IprDriver.Util
import Std.Data.HashMap
/-! Driver for the string-arena / interning model: same op lines as `harness/c03probe.cxx`, same observation lines.

The hash function handed to the model is deliberately weak (`arena <B> <M>`: polynomial hash modulo `M`; `M = 1` puts every
word into one bucket): by `C03_intern_iff` / `C03_characters` the observable answers do not depend on it. -/
namespace Ipr.Driver.C03
open Ipr.Arena Ipr.Intern

def nib (c : UInt8) : UInt8 := if c ≥ 97 then c - 87 else if c ≥ 65 then c - 55 else c - 48

def parseHex (s : String) : Word :=
  if s == "-" then [] else
  let b := s.toUTF8
  let rec go : Nat → Word → Word
    | 0, acc => acc
    | i + 1, acc => go i (((nib (b.get! (2 * i))) <<< 4 ||| nib (b.get! (2 * i + 1))) :: acc)
  go (b.size / 2) []

def hexDigit (n : UInt8) : Char := Char.ofNat (if n < 10 then 48 + n.toNat else 87 + n.toNat)

def toHex (w : Word) : String :=
  if w.isEmpty then "-" else w.foldl (fun (s : String) (b : UInt8) => (s.push (hexDigit (b >>> 4))).push (hexDigit (b &&& 15))) ""

def weakHash (M : Nat) (w : Word) : Nat := (w.foldl (fun (a : Nat) (b : UInt8) => (a * 31 + b.toNat + 1) % M) 7) % M

structure St where
  B : Nat := 65536
  M : Nat := 1021
  l0 : StringPool := StringPool.init 0
  l1 : StringPool := StringPool.init 0
  names : Std.HashMap (Nat × Ref) Nat := {}
  refs : Array (Nat × Ref) := #[]        -- name index -> (lexicon, reference)

def tbl : List Word := Ipr.Generated.knownWords

def indexOfPool (ps : List Arena.Pool) (id : Nat) : Nat := (ps.takeWhile (fun p => p.id != id)).length

def showAt (S : StringPool) : Ref → String
  | .dyn x => s!"{indexOfPool S.arena.pools x.loc.pool}:{x.loc.hdr}"
  | _ => "static"

def poolBytes (S : StringPool) : Ref → Nat
  | .dyn x => match getPool S.arena.pools x.loc.pool with | some p => p.cap | none => 0
  | _ => 0

def showRead (s : St) (k : Nat) : String :=
  match s.refs[k]? with
  | none => "bad-name"
  | some (lex, r) =>
    let S := if lex == 1 then s.l1 else s.l0
    s!"n{k} chars={toHex (characters tbl S r)} at={showAt S r}"

/-- `unit` repeated `count` times followed by `tail` (how long words are written in op lines). -/
def repWord (unit : Word) (count : Nat) (tail : Word) : Word :=
  let rec go : Nat → Word → Word
    | 0, acc => acc
    | n + 1, acc => go n (unit ++ acc)
  go count tail

def doIntern (s : St) (lex : Nat) (w : Word) : St × List String :=
  let S := if lex == 1 then s.l1 else s.l0
  let scan := (Buckets.get S.buckets (weakHash s.M w)).length
  let s := if lex == 1 then { s with l1 := StringPool.init 0 } else { s with l0 := StringPool.init 0 }
  let (S, r) := intern tbl (weakHash s.M) S w
  let key : Nat × Ref := (match r with | .dyn _ => lex + 1 | _ => 0, r)
  let (idx, s) := match s.names[key]? with
    | some i => (i, s)
    | none => (s.refs.size, { s with names := s.names.insert key s.refs.size, refs := s.refs.push (lex, r) })
  let out := s!"n{idx} chars={toHex (characters tbl S r)} at={showAt S r} poolbytes={poolBytes S r} pools={S.arena.pools.length} next={S.arena.next}"
  (if lex == 1 then { s with l1 := S } else { s with l0 := S }, [out, s!"# scan={scan}"])

def lexOf (l : String) : Nat := if l == "L1" then 1 else 0

def step (s : St) : List String → St × List String
  | ["arena", b, m] =>
    let B := b.toNat!
    let M := max 1 m.toNat!
    ({ B := B, M := M, l0 := StringPool.init B, l1 := StringPool.init B },
     [s!"arena headersz={headerSz} padding={padding} bufsz={B} poolsz={8 + 16 * B}"])
  | ["get", l, hex] => doIntern s (lexOf l) (parseHex hex)
  | ["getrep", l, unit, count, tail] => doIntern s (lexOf l) (repWord (parseHex unit) count.toNat! (parseHex tail))
  | ["inject", l, hexA, _hexB] => doIntern s (lexOf l) (parseHex hexA)
  | ["reread", name] => (s, [showRead s (name.drop 1).toString.toNat!])
  | ["rereadall"] => (s, (List.range s.refs.size).map (showRead s))
  | _ => (s, ["bad-op"])

end Ipr.Driver.C03

def main : IO Unit := Ipr.Driver.loop Ipr.Driver.C03.step {}
