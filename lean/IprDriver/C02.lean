import IprModel.GraphDriver
import IprProps.C02Table
import Generated.Wiring
import IprDriver.Util
/-! Driver of the graph model for C02: the regenerated table is the model's factory table, the documented one is printed on request. -/
def main : IO Unit :=
  Ipr.Driver.loop (Ipr.Graph.Driver.step Ipr.Generated.wiring Ipr.Graph.Spec.expectedWiring) {}
