import IprModel.PrinterIO
import IprDriver.Util
/-! Driver of the printer model for C18 (sweep over node kinds, literals, nestings): same protocol as `model_c17`, same
    definitions (`Ipr.Printer.print`, `printThenNumber`) as the theorems of `IprProps/C18.lean`. -/

def main : IO Unit := Ipr.Driver.loop Ipr.Printer.IO.step {}
