import IprModel.Derived
import IprDriver.Util
/-!
Driver for C15: reads the op lines of harness/c15probe.cxx, keeps the abstract store of IprModel/Derived.lean and prints,
for every observation, the derived operations (code-shaped definitions of the model) next to the primitives, in the
probe's format.  Every mutation goes through `St.apply` on a list of `Act`s (the definitions the theorems are about).
-/
namespace Ipr.Driver.C15
open Ipr.Derived

/-- natural C++ transfer: the driver's first op (`init`) interns "C++" as g0 and "" as g1. -/
def natural : Value := .transfer 0 1

def tok? (p : Char) (t : String) : Option Nat :=
  if t.length ≥ 2 && t.front == p then (t.drop 1).toString.toNat? else none

def unhexWord (h : String) : String := if h == "-" then "" else h

/-- An operand as written in an op line. -/
def argFld (st : St) (t : String) : Option Fld :=
  if t == "-" then some .none
  else match tok? 'n' t with
    | some k => if k < st.nodes.size then some (.ref (.node k)) else none
    | none => match tok? 's' t with
      | some k => if k < st.strs.length then some (.ref (.str k)) else none
      | none => match tok? '#' t with
        | some k => some (.num k)
        | none => match tok? 'v' t with
          | some k => st.vals[k]?.map .val
          | none => match tok? 'g' t with
            | some k => if k < st.logos.length then some (.ref (.logo k)) else none
            | none => none

def node? (st : St) (t : String) : Option Nat :=
  match tok? 'n' t with
  | some k => if k < st.nodes.size then some k else none
  | none => none

/-! ### printing -/

def spell (st : St) (g : Nat) : String := (st.lex.spelling g).getD "?"

def showValue (st : St) : Value → String
  | .linkage g => s!"L({spell st g})"
  | .cc g => s!"C({spell st g})"
  | .transfer l c => s!"X({spell st l},{spell st c})"
  | .bspec g => s!"B({spell st g})"
  | .bqual g => s!"Q({spell st g})"

def showRefs (rs : List Ref) : String := "[" ++ ",".intercalate (rs.map toString) ++ "]"

def showVal (st : St) : Val → String
  | .ref r => toString r
  | .none => "-"
  | .num k => s!"#{k}"
  | .seq nm es => nm ++ showRefs es
  | .val v => showValue st v
  | .err => "!L"

def showOpt : Option Ref → String
  | some r => toString r
  | none => "!L"

def showOpts (l : List (Option Ref)) : String := "[" ++ ",".intercalate (l.map showOpt) ++ "]"

def showIter (i : Iter) : String := s!"{i.seq}@{i.index}"
def showIterO : Option Iter → String
  | some i => showIter i
  | none => "!L"

def flag (b : Bool) : String := if b then "#1" else "#0"

def fields (st : St) (l : List (String × Val)) : List String := l.map fun (k, v) => s!"{k}={showVal st v}"

def typeKinds : List String := ["Array", "As_type", "As_type_x", "Decltype", "Tor", "Function", "Function_x", "Pointer",
  "Ptr_to_member", "Qualified", "Reference", "Rvalue_reference", "Forall"]
def asTypeKinds : List String := ["Builtin", "As_type", "As_type_x"]

/-- Type::linkage() etc.: printed for every type. -/
def typeFields (st : St) (n : Nat) (kind : String) : List (String × Val) :=
  let t := st.prim n "transfer"
  [("transfer", t), ("linkage", Type.linkage st n), ("transfer.linkage", Transfer.linkage t), ("transfer.first", Transfer.first t),
   ("transfer.convention", Transfer.convention t), ("transfer.second", Transfer.second t)] ++
  (if asTypeKinds.contains kind then
    [("denote_builtin", AsType.denoteBuiltin st n),
     ("expr_is_self", match st.prim n "operand" with | .ref r => boolVal (r == .node n) | _ => .err)]
   else [])

def containerFields (st : St) (n : Nat) : List String :=
  fields st [("elements", st.prim n "elements"), ("size", Container.size st n "elements"), ("elements.size", (st.prim n "elements").size)] ++
  [s!"begin={showIterO (Container.begin st n)}", s!"elements.begin={showIterO ((st.prim n "elements").toSeq.map SeqV.begin)}",
   s!"end={showIterO (Container.end_ st n)}", s!"elements.end={showIterO ((st.prim n "elements").toSeq.map SeqV.end_)}",
   s!"iter={match Container.iterate st n with | some l => showOpts l | none => "!L"}"]

def arityOf (kind : String) : Nat :=
  if ["Identifier", "Suffix", "Operator", "Conversion", "Ctor_name", "Dtor_name", "Guide_name", "Type_id", "Comment", "As_type",
      "As_type_x", "Decltype", "Pointer", "Reference", "Rvalue_reference", "Symbol", "Array_delete", "Delete", "Throw", "Asm",
      "Enclosure", "Id_expr", "Label", "Construction", "Pragma", "Expr_stmt", "Goto", "Return", "BasicAttribute",
      "ElaboratedAttribute"].contains kind then 1
  else if ["Function", "Function_x", "Conditional", "If"].contains kind then 3
  else if ["Instantiation", "Phased_evaluation"].contains kind then 0
  else 2

def primNames : Nat → List String
  | 1 => ["operand"]
  | 2 => ["first", "second"]
  | 3 => ["first", "second", "third"]
  | _ => []

def productFields (st : St) (n : Nat) (kind : String) : List String :=
  let len := match st.prim n "operand" with | .seq _ es => es.length | _ => 0
  let idx := (List.range (len + 1)).map fun i => showVal st (Product.index st n i)
  let got := (List.range (len + 1)).map fun i =>
    match (st.prim n "operand").toSeq with | some s => showOpt (s.get i) | none => "!L"
  fields st [("operand", st.prim n "operand"), ("elements", st.prim n "operand"), ("size", Container.size st n "operand"),
             ("operand.size", (st.prim n "operand").size)] ++
  [s!"index=[{",".intercalate idx}]", s!"operand.get=[{",".intercalate got}]"] ++ fields st (typeFields st n kind)

/-- The observation line of node `n`: what `obs n<k>` prints after the name and the kind. -/
def obsFields (st : St) (n : Nat) (kind : String) : List String :=
  if ["Namespace", "Class", "Union"].contains kind then
    fields st ([("region", st.prim n "region"), ("scope", Udt.scope st n), ("region.bindings", st.path n ["region", "bindings"]),
                ("members", Udt.members st n), ("scope.elements", st.at (Udt.scope st n) "elements"),
                ("region.bindings.elements", st.path n ["region", "bindings", "elements"])] ++ typeFields st n kind)
  else if ["Enum", "Closure"].contains kind then
    fields st ([("region", st.prim n "region"), ("scope", Udt.scope st n), ("region.bindings", st.path n ["region", "bindings"])]
               ++ typeFields st n kind)
  else if kind == "Scope" || kind == "Parameter_list" then containerFields st n
  else if kind == "Block" then
    fields st [("region", st.prim n "region"), ("body", Block.body st n), ("region.body", st.path n ["region", "body"]),
               ("handlers", st.prim n "handlers"), ("handlers.size", (st.prim n "handlers").size), ("try_block", Block.tryBlock st n)]
  else if ["Var", "Typedecl"].contains kind then
    fields st [("home_region", st.prim n "home_region"), ("lexical_region", st.prim n "lexical_region"), ("initializer", st.prim n "initializer")]
  else if ["Field", "Bitfield", "Alias"].contains kind then
    fields st [("home_region", st.prim n "home_region"), ("lexical_region", Decl.lexicalRegion st n), ("initializer", st.prim n "initializer")]
  else if kind == "Template" then
    fields st [("home_region", st.prim n "home_region"), ("lexical_region", st.prim n "lexical_region"), ("initializer", Template.initializer st n),
               ("mapping", st.prim n "mapping"), ("parameters", Template.parameters st n), ("mapping.parameters", st.path n ["mapping", "parameters"]),
               ("result", Template.result st n), ("mapping.result", st.path n ["mapping", "result"])]
  else if kind == "Fundecl" then
    fields st [("home_region", st.prim n "home_region"), ("lexical_region", st.prim n "lexical_region"), ("initializer", Fundecl.initializer st n),
               ("mapping", st.prim n "mapping"), ("parameters", Fundecl.parameters st n),
               ("mapping.parameters", st.at (st.prim n "mapping").get "parameters")]
  else if kind == "Base_type" then
    fields st [("type", st.prim n "type"), ("name", BaseType.name st n), ("type.name", st.path n ["type", "name"])]
  else if kind == "EH_parameter" then fields st [("initializer", EHParameter.initializer st n)]
  else if kind == "Parameter" then
    fields st [("initializer", st.prim n "initializer"), ("default_value", Parameter.defaultValue st n),
               ("home_region", st.prim n "home_region"), ("lexical_region", Decl.lexicalRegion st n)]
  else if kind == "Builtin" then fields st (typeFields st n kind)
  else if kind == "Product" || kind == "Sum" then productFields st n kind
  else if kind == "Literal" then
    fields st [("first", st.prim n "first"), ("second", st.prim n "second"), ("string", aliasVal st n kind "string"), ("type", st.prim n "type")]
  else if kind == "Expr_list" then
    fields st [("operand", st.prim n "operand"), ("elements", st.prim n "operand"), ("size", Container.size st n "operand"),
               ("operand.size", (st.prim n "operand").size)]
  else if kind == "Instantiation" then
    fields st [("pattern", st.prim n "pattern"), ("instance", st.prim n "instance"), ("type", typeForward st n "instance"),
               ("instance.type", st.at (st.prim n "instance").get "type")]
  else if kind == "Phased_evaluation" then
    fields st [("expression", st.prim n "expression"), ("type", typeForward st n "expression"), ("expression.type", st.path n ["expression", "type"])]
  else if (aliasTable.lookup kind).isSome then
    let prims := (primNames (arityOf kind)).map fun p => (p, st.prim n p)
    let als := (aliasesOf kind).map fun (a, _) => (a, aliasVal st n kind a)
    let ty := if typeKinds.contains kind then typeFields st n kind else []
    let fwd := match typeForwardTable.lookup kind with
      | some via => [("type", typeForward st n via), (via ++ ".type", st.at (st.prim n via).get "type")]
      | none => []
    fields st (prims ++ als ++ ty ++ fwd)
  else []

def seqLine (s : SeqV) : String :=
  let n := s.size
  let foreign : Iter := ⟨"<other>", 0⟩
  let dflt : Iter := ⟨"null", 0⟩
  let eqs := [s.begin.eq (s.position 0), s.end_.eq (s.position n), s.begin.eq s.end_, (s.position 0).eq (s.position 1),
              s.begin.eq foreign, dflt.eq dflt]
  let nes := [s.begin.ne (s.position 0), s.end_.ne (s.position n), s.begin.ne s.end_, (s.position 0).ne (s.position 1),
              s.begin.ne foreign, dflt.ne dflt]
  " ".intercalate [s.name, s!"size=#{n}", s!"empty={flag s.empty}", s!"get={showOpts ((List.range n).map s.get)}",
    s!"begin={showIter s.begin}", s!"end={showIter s.end_}",
    s!"position=[{",".intercalate ((List.range (n + 2)).map fun i => showIter (s.position i))}]",
    s!"at={showOpts ((List.range n).map fun i => s.deref (s.position i))}",
    s!"iter={showOpts s.iterate}", s!"arrow={showOpts s.iterate}", s!"postinc={showOpts s.iterate}",
    s!"riter={showOpts s.riterate}", s!"postdec={showOpts s.riterate}",
    s!"eq={String.join (eqs.map flag)}", s!"ne={String.join (nes.map flag)}"]

/-! ### constructors (records allocated by one factory call, in the order the probe names them) -/

def regionRecs (base : Nat) : List Rec :=
  [⟨"Region", [("body", .seq []), ("bindings", .ref (.node (base + 1)))]⟩, ⟨"Scope", [("elements", .seq [])]⟩]

/-- impl:2104-2214, src/impl.cxx:903-978: a user-defined type owns its region; the region's bindings are its scope. -/
def udtRecs (kind : String) (base : Nat) : List Rec :=
  let extra := if kind == "Class" then [("bases", Fld.seq [])] else if kind == "Enum" || kind == "Closure" then [("members", Fld.seq [])] else []
  ⟨kind, [("region", .ref (.node (base + 1))), ("transfer", .val natural)] ++ extra⟩ :: regionRecs (base + 1)

def declRec (kind : String) (name type : Fld) : Rec :=
  let common := [("name", name), ("type", type)]
  if kind == "Alias" then ⟨kind, common⟩                           -- aliasee set by the caller
  else if kind == "Fundecl" then ⟨kind, common ++ [("mapping", .none)]⟩
  else if kind == "Template" then ⟨kind, common⟩
  else ⟨kind, common ++ [("initializer", .none)]⟩

def allocs (rs : List Rec) : List Act := rs.map .alloc

def names (base count : Nat) : String := " ".intercalate ((List.range count).map fun i => s!"n{base + i}")

/-- Scope node of a region node (its `bindings()`). -/
def scopeOf (st : St) (r : Nat) : Option Nat :=
  match st.prim r "bindings" with | .ref (.node s) => some s | _ => none

def valueOf (st : St) (t : String) : Option Value := (tok? 'v' t).bind (st.vals[·]?)

def eqRow (st : St) (ws : List String) : Option String :=
  match ws with
  | a :: rest =>
    let lx := st.lex
    let cmp : Option (List (Bool × Bool × Bool × Bool)) := rest.mapM fun b =>
      match tok? 's' a, tok? 's' b with
      | some x, some y =>
        if x < st.strs.length && y < st.strs.length then some (x == y, !(x == y), x == y, st.strs[x]? == st.strs[y]?) else none
      | _, _ => match tok? 'g' a, tok? 'g' b with
        | some x, some y =>
          if x < st.logos.length && y < st.logos.length then
            some (lx.logoEq x y, lx.logoNe x y, lx.what x == lx.what y, lx.spelling x == lx.spelling y) else none
        | _, _ => match valueOf st a, valueOf st b with
          | some x, some y =>
            if x.sameSort y then
              let prim := match x, y with
                | .bspec p, .bspec q => p == q
                | .bqual p, .bqual q => p == q
                | _, _ => x.logos.map lx.what == y.logos.map lx.what
              some (lx.valEq x y, lx.valNe x y, prim, lx.valSpelling x == lx.valSpelling y)
            else none
          | _, _ => none
    cmp.map fun l =>
      let bits (f : Bool × Bool × Bool × Bool → Bool) := String.join (l.map fun q => if f q then "1" else "0")
      s!"eq={bits (·.1)} ne={bits (·.2.1)} prim={bits (·.2.2.1)} spell={bits (·.2.2.2)}"
  | [] => none

def bad (st : St) : St × List String := (st, ["bad-op"])

/-- intern a word, then its logogram; returns the acts and the logogram id it will have -/
def logoActs (st : St) (w : String) : List Act × Nat × Nat :=
  let (ss, s) := internStr st.strs w
  let _ := ss
  let (_, g) := internLogo st.logos s
  ([.str w, .logo s], s, g)

def mkOp (st : St) (kind : String) (args : List String) : St × List String :=
  let base := st.nodes.size
  match args.mapM (argFld st) with
  | none => bad st
  | some fs =>
    if kind == "Pragma" then (st.run [.alloc ⟨kind, [("operand", .seq [])]⟩], [names base 1])
    else if kind == "Where_decl" then
      match fs with
      | [e, _r] => (st.run (allocs [⟨kind, [("first", e), ("second", .ref (.node (base + 1)))]⟩, ⟨"Scope", [("elements", .seq [])]⟩]), [names base 2])
      | _ => bad st
    else if kind == "Instantiation" then
      match fs with
      | [e] => (st.run [.alloc ⟨kind, [("pattern", e), ("instance", .none)]⟩], [names base 1])
      | _ => bad st
    else if kind == "Phased_evaluation" then
      match fs with
      | e :: _ => (st.run [.alloc ⟨kind, [("expression", e)]⟩], [names base 1])
      | _ => bad st
    else if kind == "CalledAttribute" || kind == "FactoredAttribute" then
      match fs with
      | f :: rest =>
        let members := rest.filterMap fun x => match x with | .ref r => some r | _ => none
        (st.run [.alloc ⟨kind, [("first", f), ("second", .seq members)]⟩], [names base 1])
      | _ => bad st
    else if (aliasTable.lookup kind).isNone then bad st
    else
      let ar := arityOf kind
      if fs.length < ar then bad st
      else
        let prims := (primNames ar).zip (fs.take ar)
        let xfer : List (String × Fld) :=
          if kind == "Function_x" || kind == "As_type_x" then
            match fs.drop ar with
            | .val v :: _ => [("transfer", .val v)]
            | _ => []
          else if typeKinds.contains kind then [("transfer", .val natural)] else []
        (st.run [.alloc ⟨kind, prims ++ xfer⟩], [names base 1])

def declKind (op : String) : Option String :=
  [("var", "Var"), ("field", "Field"), ("bitfield", "Bitfield"), ("typedecl", "Typedecl"), ("alias", "Alias"),
   ("fundecl", "Fundecl"), ("template", "Template"), ("template2", "Template")].lookup op

def udtKind (op : String) : Option String :=
  [("class", "Class"), ("union", "Union"), ("namespace", "Namespace"), ("closure", "Closure"), ("enum", "Enum")].lookup op

def step (st : St) (ws : List String) : St × List String :=
  let base := st.nodes.size
  match ws with
  | [] => bad st
  | op :: args =>
  if op == "reset" then ({}, ["ok"])
  else if op == "init" then
    match args with
    | [cxx, nat, c] =>
      let st1 := st.run (logoActs st (unhexWord cxx)).1
      let st2 := st1.run (logoActs st1 (unhexWord nat)).1
      let st3 := st2.run (logoActs st2 (unhexWord c)).1
      (st3, ["ok"])
    | _ => bad st
  else if op == "global" then
    (st.run (allocs (⟨"Namespace", [("region", .ref (.node (base + 1))), ("transfer", .val natural)]⟩ :: regionRecs (base + 1))), [names base 3])
  else if op == "subregion" then
    match args.mapM (node? st) with
    | some [_] => (st.run (allocs (regionRecs base)), [names base 2])
    | _ => bad st
  else if (udtKind op).isSome then
    match args.head?.bind (node? st), udtKind op with
    | some _, some kind => (st.run (allocs (udtRecs kind base)), [names base 3])
    | _, _ => bad st
  else if op == "block" then
    match args.mapM (node? st) with
    | some [_] => (st.run (allocs (⟨"Block", [("region", .ref (.node (base + 1))), ("handlers", .seq [])]⟩ :: regionRecs (base + 1))), [names base 3])
    | _ => bad st
  else if (declKind op).isSome then
    match args.mapM (node? st), declKind op with
    | some [rn, xn, tn], some kind =>
      match scopeOf st rn with
      | some sn =>
        let rec0 := declRec kind (.ref (.node xn)) (.ref (.node tn))
        let rec1 := if kind == "Alias" then { rec0 with fields := rec0.fields ++ [("initializer", .ref (.node tn))] } else rec0
        (st.run [.alloc rec1, .push sn "elements" (.node base)], [names base 1])
      | none => bad st
    | _, _ => bad st
  else if op == "sethome" then
    match args with
    | [a, b] =>
      match node? st a with
      | some d => if b == "-" then (st.run [.set d "home_region" .unset], ["ok"]) else
        match node? st b with
        | some r => (st.run [.set d "home_region" (.ref (.node r))], ["ok"])
        | none => bad st
      | none => bad st
    | _ => bad st
  else if op == "setinit" || op == "setinstance" then
    match args with
    | [a, b] =>
      match node? st a, argFld st b with
      | some d, some v => (st.run [.set d (if op == "setinit" then "initializer" else "instance") v], ["ok"])
      | _, _ => bad st
    | _ => bad st
  else if op == "setdef" then
    match args.mapM (node? st) with
    | some [d, m] => (st.run [.set d "definition" (.ref (.node m))], ["ok"])
    | _ => bad st
  else if op == "settmap" || op == "setfmap" || op == "setresult" then
    match args.mapM (node? st) with
    | some [d, m] => (st.run [.set d (if op == "setresult" then "result" else "mapping") (.ref (.node m))], ["ok"])
    | _ => bad st
  else if op == "enumerator" then
    match args.mapM (node? st) with
    | some [e, x] =>
      match st.prim e "region" with
      | .ref (.node er) =>
        match scopeOf st er with
        | some es =>
          (st.run [.alloc ⟨"Enumerator", [("name", .ref (.node x)), ("type", .ref (.node e)), ("initializer", .none)]⟩,
                   .push e "members" (.node base), .push es "elements" (.node base), .push er "body" (.node base)], [names base 1])
        | none => bad st
      | _ => bad st
    | _ => bad st
  else if op == "base" then
    match args.mapM (node? st) with
    | some [c, t] => (st.run [.alloc ⟨"Base_type", [("type", .ref (.node t))]⟩, .push c "bases" (.node base)], [names base 1])
    | _ => bad st
  else if op == "capture" then
    match args with
    | [k, d, _mode] =>
      match node? st k, node? st d with
      | some kn, some _ => (st.run [.capture, .push kn "members" (.cap st.caps)], [s!"c{st.caps}"])
      | _, _ => bad st
    | _ => bad st
  else if op == "stmt" then
    match args.mapM (node? st) with
    | some [bl, e] =>
      match st.prim bl "region" with
      | .ref (.node r) => (st.run [.push r "body" (.node e)], ["ok"])
      | _ => bad st
    | _ => bad st
  else if op == "handler" then
    match args.mapM (node? st) with
    | some [b, xn, tn] =>
      (st.run (allocs ([⟨"Handler", [("exception", .ref (.node (base + 1))), ("body", .ref (.node (base + 2)))]⟩,
                        ⟨"EH_parameter", [("name", .ref (.node xn)), ("type", .ref (.node tn))]⟩,
                        ⟨"Block", [("region", .ref (.node (base + 3))), ("handlers", .seq [])]⟩] ++ regionRecs (base + 3))
               ++ [.push b "handlers" (.node base)]), [names base 5])
    | _ => bad st
  else if op == "mapping" || op == "lambda" then
    match args with
    | [r, lvl] =>
      match node? st r, tok? '#' lvl with
      | some _, some l =>
        (st.run (allocs ([⟨if op == "mapping" then "Mapping" else "Lambda", [("parameters", .ref (.node (base + 1)))]⟩,
                          ⟨"Parameter_list", [("region", .ref (.node (base + 2))), ("elements", .seq []), ("level", .num l)]⟩]
                         ++ regionRecs (base + 2))), [names base 4])
      | _, _ => bad st
    | _ => bad st
  else if op == "param" then
    match args.mapM (node? st) with
    | some [m, xn, tn] =>
      match st.prim m "parameters" with
      | .ref (.node pl) =>
        match st.prim pl "region" with
        | .ref (.node pr) =>
          match scopeOf st pr with
          | some ps =>
            (st.run [.alloc ⟨"Parameter", [("name", .ref (.node xn)), ("type", .ref (.node tn)), ("initializer", .none),
                                           ("home_region", .ref (.node pr)), ("decl_set", .seq [.node base])]⟩,
                     .push pl "elements" (.node base), .push ps "elements" (.node base), .push pr "body" (.node base)], [names base 1])
          | none => bad st
        | _ => bad st
      | _ => bad st
    | _ => bad st
  else if op == "btype" then
    (st.run (allocs [⟨"Builtin", [("name", .ref (.node (base + 1))), ("transfer", .val natural), ("operand", .ref (.node base))]⟩,
                     ⟨"Builtin_name", []⟩]), [names base 2])
  else if op == "ptr" then
    match args.mapM (node? st) with
    | some [t] => (st.run (allocs [⟨"Pointer", [("operand", .ref (.node t)), ("name", .ref (.node (base + 1))), ("transfer", .val natural)]⟩,
                                   ⟨"Type_id", [("operand", .ref (.node base))]⟩]), [names base 2])
    | _ => bad st
  else if op == "product" || op == "sum" then
    match args.mapM (node? st) with
    | some ts => (st.run [.alloc ⟨if op == "product" then "Product" else "Sum", [("operand", .seq (ts.map .node)), ("transfer", .val natural)]⟩], [names base 1])
    | none => bad st
  else if op == "plist_type" then
    match args.mapM (node? st) with
    | some [pl] =>
      match st.prim pl "elements" with
      | .seq _ es =>
        let tys := es.filterMap fun e => match e with
          | .node p => (match st.prim p "type" with | .ref t => some t | _ => none)
          | _ => none
        (st.run [.alloc ⟨"Product", [("operand", .seq tys), ("transfer", .val natural)]⟩], [names base 1])
      | _ => bad st
    | _ => bad st
  else if op == "lit" then
    match args with
    | [a, b] =>
      match node? st a with
      | some t =>
        let w := unhexWord b
        let s := (internStr st.strs w).2
        (st.run [.str w, .alloc ⟨"Literal", [("first", .ref (.node t)), ("second", .ref (.str s)), ("type", .ref (.node t))]⟩], [s!"n{base} s{s}"])
      | none => bad st
    | _ => bad st
  else if op == "ident" then
    match args with
    | [r] =>
      let w := unhexWord r
      let s := (internStr st.strs w).2
      (st.run [.str w, .alloc ⟨"Identifier", [("operand", .ref (.str s))]⟩], [s!"n{base} s{s}"])
    | _ => bad st
  else if op == "phantom" then (st.run [.alloc ⟨"Phantom", []⟩], [names base 1])
  else if op == "token" then (st.run [.alloc ⟨"Token", []⟩], [names base 1])
  else if op == "desig" then
    match args with
    | [sr, md] =>
      match node? st sr, tok? '#' md with
      | some n, some m => (st, [s!"sr=n{n} path=n{n} md=#{m} mode=#{m}"])
      | _, _ => bad st
    | _ => bad st
  else if op == "xlist" then (st.run [.alloc ⟨"Expr_list", [("operand", .seq [])]⟩], [names base 1])
  else if op == "xpush" then
    match args.mapM (node? st) with
    | some [xl, e] => (st.run [.push xl "operand" (.node e)], ["ok"])
    | _ => bad st
  else if op == "mk" then
    match args with
    | kind :: rest => mkOp st kind rest
    | [] => bad st
  else if op == "obs" then
    match args with
    | [r] =>
      match node? st r with
      | some n => match st.nodes[n]? with
        | some rec => (st, [" ".intercalate ([r, rec.kind] ++ obsFields st n rec.kind)])
        | none => bad st
      | none => bad st
    | _ => bad st
  else if op == "seq" then
    match args with
    | [a, b] =>
      match node? st a with
      | some n => match (st.prim n b).toSeq with
        | some s => (st, [seqLine s])
        | none => bad st
      | none => bad st
    | _ => bad st
  else if op == "same" then
    match args.mapM (node? st) with
    | some [x, y] => (st, [s!"physically_same={flag (x == y)} address_equal={flag (x == y)}"])
    | _ => bad st
  else if op == "opt" then
    match args.mapM (argFld st) with
    | some [.ref x] =>
      let o : Opt := ⟨some x⟩
      (st, [" ".intercalate [s!"ptr={x}", s!"is_valid={flag o.isValid}", s!"bool={flag o.toBool}", s!"get={showVal st o.get}",
        s!"conv.ptr={x}", s!"conv.is_valid={flag o.conv.isValid}", s!"conv.get={showVal st o.conv.get}",
        s!"byref.ptr={showVal st (Opt.ofRef x).get}", "default.ptr=-"]])
    | some [.none] =>
      let o : Opt := Opt.default
      (st, [" ".intercalate ["ptr=-", s!"is_valid={flag o.isValid}", s!"bool={flag o.toBool}", s!"get={showVal st o.get}",
        "conv.ptr=-", s!"conv.is_valid={flag o.conv.isValid}", s!"conv.get={showVal st o.conv.get}", "byref.ptr=-", "default.ptr=-"]])
    | _ => bad st
  else if op == "str" then
    match args with
    | [r] =>
      let w := unhexWord r
      (st.run [.str w], [s!"s{(internStr st.strs w).2}"])
    | _ => bad st
  else if op == "sobs" then
    match args with
    | [r] =>
      match (tok? 's' r).bind (st.strs[·]?) with
      | some h => (st, [s!"{r} characters=\"{h} size=#{h.length / 2} characters.size=#{h.length / 2} range=\"{h} begin=#1 end=#1"])
      | none => bad st
    | _ => bad st
  else if op == "logo" || op == "links" then
    match args with
    | [r] =>
      match tok? 's' r with
      | some k =>
        if k < st.strs.length then
          let g := (internLogo st.logos k).2
          if op == "logo" then (st.run [.logo k], [s!"g{g}"])
          else (st.run [.logo k, .value (.linkage g)], [s!"v{st.vals.size} g{g}"])
        else bad st
      | none => bad st
    | _ => bad st
  else if op == "gobs" then
    match args with
    | [r] =>
      match (tok? 'g' r).bind st.lex.what with
      | some s => (st, [s!"{r} operand=s{s} what=s{s}"])
      | none => bad st
    | _ => bad st
  else if op == "link" || op == "cc" then
    match args with
    | [r] =>
      let (acts, _, g) := logoActs st (unhexWord r)
      (st.run (acts ++ [.value (if op == "link" then .linkage g else .cc g)]), [s!"v{st.vals.size} g{g}"])
    | _ => bad st
  else if op == "linkv" || op == "ccv" || op == "bspec" || op == "bqual" then
    match args with
    | [r] =>
      match tok? 'g' r with
      | some g =>
        if g < st.logos.length then
          let v : Value := if op == "linkv" then .linkage g else if op == "ccv" then .cc g else if op == "bspec" then .bspec g else .bqual g
          (st.run [.value v], [if op == "linkv" || op == "ccv" then s!"v{st.vals.size} g{g}" else s!"v{st.vals.size}"])
        else bad st
      | none => bad st
    | _ => bad st
  else if op == "xfer" then
    match args.mapM (valueOf st) with
    | some [.linkage l, .cc c] => (st.run [.value (.transfer l c)], [s!"v{st.vals.size}"])
    | _ => bad st
  else if op == "stdspec" || op == "stdqual" then
    match args with
    | [_i, h] =>
      let (acts, _, g) := logoActs st (unhexWord h)
      (st.run (acts ++ [.value (if op == "stdspec" then .bspec g else .bqual g)]), [s!"v{st.vals.size} g{g}"])
    | _ => bad st
  else if op == "const" then
    match args with
    | ["cxx_transfer", l, c] =>
      let (a1, _, gl) := logoActs st (unhexWord l)
      let st1 := st.run a1
      let (a2, _, gc) := logoActs st1 (unhexWord c)
      (st1.run (a2 ++ [.value (.transfer gl gc)]), [s!"v{st.vals.size}"])
    | [which, h] =>
      let (acts, _, g) := logoActs st (unhexWord h)
      if which == "natural_cc" then (st.run (acts ++ [.value (.cc g)]), [s!"v{st.vals.size}"])
      else if ["cxx_linkage", "c_linkage", "impl_cxx_linkage", "impl_c_linkage"].contains which then
        (st.run (acts ++ [.value (.linkage g)]), [s!"v{st.vals.size}"])
      else bad st
    | _ => bad st
  else if op == "vobs" then
    match args with
    | [r] =>
      match valueOf st r with
      | some (.linkage g) => (st, [s!"{r} kind=Linkage lang=g{g} language=g{g}"])
      | some (.cc g) => (st, [s!"{r} kind=Calling_convention conv=g{g} name=g{g}"])
      | some (.transfer l c) =>
        let t : Val := .val (.transfer l c)
        (st, [s!"{r} kind=Transfer first={showVal st (Transfer.first t)} linkage={showVal st (Transfer.linkage t)} second={showVal st (Transfer.second t)} convention={showVal st (Transfer.convention t)}"])
      | some (.bspec g) => (st, [s!"{r} kind=Basic_specifier spec=g{g} logogram=g{g}"])
      | some (.bqual g) => (st, [s!"{r} kind=Basic_qualifier qual=g{g} logogram=g{g}"])
      | none => bad st
    | _ => bad st
  else if op == "eqrow" then
    match eqRow st args with
    | some l => (st, [l])
    | none => bad st
  else bad st

end Ipr.Driver.C15

def main : IO Unit := Ipr.Driver.loop Ipr.Driver.C15.step {}
