import IprModel.Subst
import IprDriver.Util
/-! Driver for substitutions.  Tokens: `p<i>` parameter i (node id 2i), `v<j>` value j (node id 2j+1). -/
namespace Ipr.Driver.C16
open Ipr.Subst

def node? (t : String) : Option Nat :=
  if t.startsWith "p" then (t.drop 1).toString.toNat?.map (2 * ·)
  else if t.startsWith "v" then (t.drop 1).toString.toNat?.map (2 * · + 1)
  else none

def token (n : Nat) : String := if n % 2 == 0 then s!"p{n / 2}" else s!"v{n / 2}"

inductive Sub | elem (e : Elementary) | gen (g : General)

structure St where
  subs : Array Sub := #[]

def idx? (t : String) : Option Nat := if t.startsWith "S" then (t.drop 1).toString.toNat? else none

def step (s : St) : List String → St × List String
  | ["params", _] => (s, ["ok"])
  | ["vals", _] => (s, ["ok"])
  | ["wide", _] => (s, ["ok"])
  | ["elem", p, v] =>
    match node? p, node? v with
    | some p, some v => ({ subs := s.subs.push (.elem ⟨p, v⟩) }, [s!"S{s.subs.size}"])
    | _, _ => (s, ["bad-op"])
  | ["gen"] => ({ subs := s.subs.push (.gen {}) }, [s!"S{s.subs.size}"])
  | ["bind", k, p, v] =>
    match idx? k, node? p, node? v with
    | some k, some p, some v =>
      match s.subs[k]? with
      | some (.gen g) => ({ subs := s.subs.set! k (.gen (g.subst p v)) }, ["ok"])
      | _ => (s, ["bad-op"])
    | _, _, _ => (s, ["bad-op"])
  -- the substitution becomes the operand of an instantiation node: a reader of it, nothing more
  | ["inst", k] =>
    match idx? k with
    | some k => (s, [if k < s.subs.size then "ok" else "bad-op"])
    | none => (s, ["bad-op"])
  | ["app", k, q] =>
    match idx? k, node? q with
    | some k, some q =>
      match s.subs[k]? with
      | some (.elem e) => (s, [token (e.apply q)])
      | some (.gen g) => (s, [token (g.apply q)])
      | none => (s, ["bad-op"])
    | _, _ => (s, ["bad-op"])
  | _ => (s, ["bad-op"])

end Ipr.Driver.C16

def main : IO Unit := Ipr.Driver.loop Ipr.Driver.C16.step {}
