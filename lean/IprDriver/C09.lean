import IprModel.GraphDriver
import IprProps.C02Table
import Generated.Wiring
import IprDriver.Util
/-! Driver of the graph model for C09 (growth histories of typed sequences; same step function as C02). -/
def main : IO Unit :=
  Ipr.Driver.loop (Ipr.Graph.Driver.step Ipr.Generated.wiring Ipr.Graph.Spec.expectedWiring) {}
