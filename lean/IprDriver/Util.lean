/-! Line-protocol helpers shared by the model drivers. -/
namespace Ipr.Driver

def words (line : String) : List String :=
  (line.trimAscii.toString.splitOn " ").filter (· ≠ "")

/-- Read every line of stdin, feed it to `step`, print what it answers. -/
partial def loop {σ : Type} (step : σ → List String → σ × List String) (s : σ) : IO Unit := do
  let stdin ← IO.getStdin
  let stdout ← IO.getStdout
  let rec go (s : σ) : IO Unit := do
    let line ← stdin.getLine
    if line.isEmpty then return ()
    let ws := words line
    if ws.isEmpty then go s
    else
      let (s', outs) := step s ws
      for o in outs do stdout.putStrLn o
      go s'
  go s
  stdout.flush

def parseIntList (s : String) : Option (List Int) :=
  if s == "-" then some [] else (s.splitOn ",").mapM String.toInt?

end Ipr.Driver
