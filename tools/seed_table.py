#!/usr/bin/env python3
"""Prints the markdown table of DESIGN.md §10.6 from seeded/*/meta.json and patch.diff."""
import json, glob, os, re
rows = []
for d in sorted(glob.glob(os.path.join(os.path.dirname(os.path.dirname(os.path.abspath(__file__))), 'seeded', 'C*'))):
    m = json.load(open(os.path.join(d, 'meta.json')))
    patch = open(os.path.join(d, 'patch.diff')).read()
    files = sorted(set(re.findall(r'^\+\+\+ b/(\S+)', patch, re.M)))
    first = m.get('first_run_before_strengthening')
    det = m.get('detected_by') or '-'
    if m.get('detected_by_other_check'):
        det += ' (caught by ' + ', '.join('%s %s' % kv for kv in m['detected_by_other_check'].items()) + ')'
    if first and not first.get('detected_by'):
        det += ' (missed before the check was strengthened)'
    what = (m.get('summary') or m.get('needs_to_manifest', '')).strip().split('\n')
    what = next((l.strip('# *-') for l in what if len(l.strip('# *-')) > 20), '')[:150]
    key = ''
    for r in m.get('ran', []):
        if r.get('violation_lines'):
            key = r['violation_lines'][0].split('replay=')[-1].split('/')[-1][:60]
    rows.append('| %s | %s | %s | %s | %s |' % (m['seed_id'], m['property'], ', '.join(files), what.replace('|', '/'), det))
print('| seed | property | files changed | what it is | caught by |')
print('|---|---|---|---|---|')
print('\n'.join(rows))
