#!/usr/bin/env python3
"""Confirm a seeded change and record it:  confirm_seed.py <Cxx> <dir with patch.diff demo.cxx README.md> <seed-id> [--thorough]

In a scratch worktree of /repo: (1) the patch applies, builds and the 17 unit tests pass; (2) the demonstration passes
without the change and fails with it; (3) the registered check is run against the patched worktree (VERIF_REPO).
Writes /verif/seeded/<seed-id>/{patch.diff, demo.cxx, meta.json}."""
import json, os, shutil, subprocess, sys, time

pid, src, sid = sys.argv[1], sys.argv[2], sys.argv[3]
thorough = '--thorough' in sys.argv
WT = '/tmp/wt-confirm-%s' % sid
VERIF = os.path.dirname(os.path.dirname(os.path.abspath(__file__)))
# --copy=<n>: run the check from a private copy of /verif (own lean/.lake, Generated tables, evidence, replays; the library cache is
# shared), so that several confirmations can run side by side and nothing regenerated from a patched tree lands in /verif itself
RUNDIR = VERIF
for a in sys.argv[4:]:
    if a.startswith('--copy='):
        RUNDIR = '/tmp/verif-copy-%s' % a.split('=', 1)[1]
        subprocess.run(['rsync', '-a', '--delete', '--exclude', '.git', '--exclude', '.cache', '--exclude', 'replays/*', VERIF + '/', RUNDIR + '/'], check=True)
        if not os.path.exists(os.path.join(RUNDIR, '.cache')):
            os.symlink(os.path.join(VERIF, '.cache'), os.path.join(RUNDIR, '.cache'))
        os.makedirs(os.path.join(RUNDIR, 'replays'), exist_ok=True)


def sh(cmd, **kw):
    return subprocess.run(cmd, shell=True, stdout=subprocess.PIPE, stderr=subprocess.STDOUT, text=True, errors='replace', **kw)


sh('git -C /repo worktree remove --force %s' % WT)
r = sh('git -C /repo worktree add %s HEAD' % WT)
assert r.returncode == 0, r.stdout
meta = {'seed_id': sid, 'property': pid, 'source': 'independent sub-agent given only the property text', 'ran': []}
try:
    demo = os.path.join(src, 'demo.cxx')
    def build_demo(tag):
        flags = ' '.join(a.split('=', 1)[1] for a in sys.argv[4:] if a.startswith('--demo-flags='))   # e.g. --demo-flags=-fsanitize=address
        r = sh('g++ -std=c++20 -O1 %s -I include %s src/*.cxx -o /tmp/demo-%s-%s' % (flags, demo, sid, tag), cwd=WT)
        assert r.returncode == 0, r.stdout[-3000:]
        r = sh('timeout 120 /tmp/demo-%s-%s' % (sid, tag), cwd=WT)
        os.unlink('/tmp/demo-%s-%s' % (sid, tag))
        return r.returncode, r.stdout[-1500:]
    rc0, out0 = build_demo('clean')
    meta['demo_without_change'] = {'exit': rc0, 'tail': out0[-400:]}
    r = sh('git apply %s' % os.path.join(src, 'patch.diff'), cwd=WT)
    assert r.returncode == 0, 'patch does not apply: ' + r.stdout
    r = sh('cmake -S . -B _build -G Ninja -DCMAKE_BUILD_TYPE=Release > /dev/null && cmake --build _build -j8 2>&1 | tail -3 && ./_build/tests/unit-tests/unittests | tail -3', cwd=WT)
    meta['unit_tests_with_change'] = r.stdout[-400:]
    tests_ok = '17 passed' in r.stdout and ' 0 failed' in r.stdout
    rc1, out1 = build_demo('patched')
    meta['demo_with_change'] = {'exit': rc1, 'tail': out1[-600:]}
    shutil.rmtree(os.path.join(WT, '_build'), ignore_errors=True)
    meta['compiles_and_tests_pass'] = tests_ok
    meta['demo_discriminates'] = (rc0 == 0 and rc1 != 0)
    env = dict(os.environ, VERIF_REPO=WT)
    for tier in (['quick', 'thorough'] if thorough else ['quick']):
        t0 = time.time()
        r = subprocess.run(['python3', 'check.py', pid, '--tier', tier], cwd=RUNDIR, env=env, stdout=subprocess.PIPE, stderr=subprocess.PIPE, text=True, errors='replace')
        vio = [l for l in r.stdout.splitlines() if l.startswith('VIOLATION')]
        meta['ran'].append({'cmd': 'VERIF_REPO=<patched worktree> python3 check.py %s --tier %s' % (pid, tier), 'exit': r.returncode,
                            'violation_lines': vio[:5], 'detail': [l for l in r.stderr.splitlines() if l.startswith('  ->')][:3],
                            'wall_s': round(time.time() - t0, 1)})
        if r.returncode == 1:
            break
    meta['detected_by'] = next((x['cmd'].split('--tier ')[1] for x in meta['ran'] if x['exit'] == 1), None)
finally:
    sh('git -C /repo worktree remove --force %s' % WT)
readme = os.path.join(src, 'README.md')
meta['needs_to_manifest'] = open(readme).read()[:3000] if os.path.exists(readme) else ''
out = os.path.join(VERIF, 'seeded', sid)
os.makedirs(out, exist_ok=True)
shutil.copy(os.path.join(src, 'patch.diff'), out)
shutil.copy(demo, out)
# evidence written by the check run against the patched tree must not stay behind
if RUNDIR == VERIF:
    subprocess.run(['git', 'checkout', '--', 'evidence/%s.json' % pid, 'lean/Generated'], cwd=VERIF, stderr=subprocess.DEVNULL)  # tables regenerated from the patched tree must not stay behind either
json.dump(meta, open(os.path.join(out, 'meta.json'), 'w'), indent=1)
print(json.dumps({k: meta[k] for k in ('seed_id', 'compiles_and_tests_pass', 'demo_discriminates', 'detected_by')}, indent=None))
for x in meta['ran']:
    print('  ', x['cmd'].split('check.py ')[1], 'exit', x['exit'], x['violation_lines'][:1], x['detail'][:1])
