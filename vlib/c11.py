"""C11 — qualified types are in normal form (DESIGN.md §4 C11)."""
from . import unify_common as U

PID = 'C11'
MANIFEST = dict(
    text='Theorems C11_* (lean/IprProps/C11.lean) prove for the model of get_qualified, over every history: an empty qualifier set is '
         'refused; every Qualified node has a non-empty set and an unqualified main variant; for every unqualified T and every non-empty list of '
         'non-empty sets, successive qualification ends at the node filed under (union, T), hence any two orders / groupings of the same union '
         'give the same node as the single request. Tied to the code by a differential run of a real impl::Lexicon (all 7 sets, all ordered '
         'splits into <= 3 / 5 successive requests over every kind of unqualified operand) against the model driver and a specification oracle.',
    note='Lean kernel; axioms propext/Classical.choice/Quot.sound; hand-written model tied by correspondence on generated histories only; '
         'harness unifyprobe.cxx, ASan/UBSan, g++.',
    technique='Lean 4 theorems (heap invariant + induction over qualification chains) + differential correspondence',
    ref='§4 C11')

RULE = ('history 0: for one operand of each unqualified kind (built-in, pointer, reference, rvalue reference, array, product, sum, function, '
        'pointer to member, as-type, extended type, forall, class, enum, union, tor) the empty set, all 7 non-empty sets and every ordered split into '
        '<= 3 (quick) / <= 5 (thorough, 6 kinds) successive get_qualified requests, with main_variant / qualifiers read back; then random '
        'histories (40 % get_qualified over everything built so far, qualified operands included). A trace is one history; every answer is '
        'compared with the specification oracle and with the Lean model')


def run(tier):
    return U.check(PID, tier, RULE)


def replay(path):
    return U.replay(PID, path)
