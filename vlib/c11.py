"""C11 — qualified types are in normal form (DESIGN.md §4 C11)."""
from . import unify_common as U

PID = 'C11'
MANIFEST = dict(
    text='Theorems C11_* (lean/IprProps/C11.lean) prove for the model of get_qualified, over every history: an empty qualifier set is '
         'refused; every Qualified node has a non-empty set and an unqualified main variant; for every unqualified T and every non-empty list of '
         'non-empty sets, successive qualification ends at the node filed under (union, T), hence any two orders / groupings of the same union '
         'give the same node as the single request; in a process with several Lexicons this holds in each of them, whatever the others and '
         'any predecessor in the same storage were asked (C11_main_variant_unqualified_in_process, C11_process_state_admissible). Tied to the '
         'code by a differential run of real impl::Lexicons against the model driver and a specification oracle: all 7 sets, all ordered splits '
         'into <= 3 / 5 successive requests over every kind of unqualified operand; chains over ten main variants at once (built-ins, nodes of the '
         'Lexicon, client-built nodes up to 256 GiB apart) advanced in a scrambled interleaving, all 49 ordered pairs of sets (disjoint, overlapping, '
         'nested, equal); several Lexicons interleaved in one process; successors constructed in place of destroyed Lexicons whose first requests '
         'qualify brand-new operands lying where the nodes of the predecessor lay; successive qualification during static initialisation.',
    note='Lean kernel; axioms propext/Classical.choice/Quot.sound; hand-written model tied by correspondence on generated histories only; '
         'several-Lexicon, address-reuse and static-initialisation behaviour of the C++ is observed on the generated scripts, not proved; '
         'harness unifyprobe.cxx (own operator new: malloc, or recycled size classes for in-place Lexicons), ASan/UBSan, g++.',
    technique='Lean 4 theorems (heap invariant + induction over qualification chains) + differential correspondence',
    ref='§4 C11')

RULE = ('history 0: for one operand of each unqualified kind (built-in, pointer, reference, rvalue reference, array, product, sum, function, '
        'pointer to member, as-type, extended type, forall, class, enum, union, tor) the empty set, all 7 non-empty sets and every ordered split into '
        '<= 3 (quick) / <= 5 (thorough, 6 kinds) successive get_qualified requests, with main_variant / qualifiers read back; then chains over ten '
        'main variants at once (incl. client-built nodes placed up to 256 GiB apart) advanced in a scrambled interleaving: all 49 ordered pairs '
        '(q, q\') and random triples, each followed by the one-step request for the union; then random histories (40 % get_qualified over '
        'everything built so far, qualified operands included). Three Lexicons alive at a time, histories interleaved in chunks of 1..233 lines '
        '(histories 0 and 2 also asked of a second Lexicon in lockstep); 5 / 10 pairs (short-lived Lexicon ending with re-qualifications, successor '
        'constructed in place with recycled node storage that first qualifies more brand-new operands than the predecessor had nodes). '
        'A trace is one history (one Lexicon incarnation); every answer is compared with the specification oracle of its own history and with '
        'the Lean model run on the same interleaved script')


def run(tier):
    return U.check(PID, tier, RULE)


def replay(path):
    return U.replay(PID, path)
