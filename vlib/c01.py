"""C01 — types are unified (DESIGN.md §4 C01)."""
from . import unify_common as U

PID = 'C01'
MANIFEST = dict(
    text='Theorems C01_* (lean/IprProps/C01.lean) prove, for every finite history of requests on a Lexicon and every injective '
         'address assignment: each comparator of src/impl.cxx (unified_type/unary/binary/ternary/lexicographic/transfer-aware) is a '
         'lawful total order whose zero set is key equality; the red-black trees of type_factory refine one duplicate-free key table; '
         'two type-constructor requests are answered with the same node iff their documented normal forms are equal (omitted throws = '
         'false, natural C++ transfer by value = omitted, Warehouse = sequence, qualified-over-qualified merged), whatever was built in '
         'between; nodes of different constructors never coincide. The model is tied to the code by a differential run of a real '
         'impl::Lexicon against the model driver and against an independent specification oracle (one node per normal form).',
    note='Lean kernel; axioms propext/Classical.choice/Quot.sound; hand-written model (IprModel/Unify.lean) tied by correspondence on '
         'generated histories only; string_pool represented by its specification (C03); harness unifyprobe.cxx, ASan/UBSan, g++.',
    technique='Lean 4 theorems (invariants over request histories, refinement of red-black trees to a key table) + differential correspondence',
    ref='§4 C01')

RULE = ('4 (quick) / 16 (thorough) histories of 3 000 / 100 000 requests on a fresh impl::Lexicon each: operands drawn from built-ins, '
        'user-defined types and every earlier answer; ~45 % of requests ask again for an earlier key, half of those through an alternative '
        'spelling (explicit false throws, natural transfer obtained four ways, Warehouse vs sequence, word vs String, split qualifier sets); '
        'type sequences of length 0..6 sharing prefixes; all 7 qualifier sets; accessors read back after 12 % of requests. '
        'A trace is one history; every answer is compared with the specification oracle and with the Lean model')


def run(tier):
    return U.check(PID, tier, RULE)


def replay(path):
    return U.replay(PID, path)
