"""C01 — types are unified (DESIGN.md §4 C01)."""
from . import unify_common as U

PID = 'C01'
MANIFEST = dict(
    text='Theorems C01_* (lean/IprProps/C01.lean) prove, for every finite history of requests on a Lexicon and every injective '
         'address assignment: each comparator of src/impl.cxx (unified_type/unary/binary/ternary/lexicographic/transfer-aware) is a '
         'lawful total order whose zero set is key equality; the red-black trees of type_factory refine one duplicate-free key table; '
         'two type-constructor requests are answered with the same node iff their documented normal forms are equal (omitted throws = '
         'false, natural C++ transfer by value = omitted, Warehouse = sequence, qualified-over-qualified merged), whatever was built in '
         'between; nodes of different constructors never coincide; in a process holding several Lexicons (requests interleaved in any way, '
         'Lexicons destroyed and replaced by fresh ones at any time) every Lexicon answers exactly what its own history alone produces '
         '(C01_lexicons_independent, C01_unified_in_process). The model is tied to the code by a differential run of real impl::Lexicons '
         'against the model driver and against an independent specification oracle (one node per normal form): up to four Lexicons alive in '
         'one process with their histories interleaved in chunks of 1..233 lines (two of the histories asked of two Lexicons each, in lockstep), Lexicons '
         'constructed in place of destroyed ones with the node storage recycled, client-built operand nodes placed by mmap 128 B .. 256 GiB '
         'apart (exact multiples of 4 GiB and 64 GiB included), and a Lexicon used during static initialisation of a client unit linked '
         'before the library and asked again in main().',
    note='Lean kernel; axioms propext/Classical.choice/Quot.sound; hand-written model (IprModel/Unify.lean) tied by correspondence on '
         'generated histories only (the several-Lexicon, placed-address and static-initialisation behaviour of the C++ is observed on the '
         'generated scripts, not proved); answers of one Lexicon are compared with its own specification after de-interleaving, a node '
         'answered to two live Lexicons must be a process-wide constant; string_pool represented by its specification (C03); if mmap '
         'refuses the address hints the placed operands fall back to the free store (reported in the evidence); harness unifyprobe.cxx '
         '(own operator new: malloc, or recycled size classes for in-place Lexicons), ASan/UBSan, g++, GNU ld link order.',
    technique='Lean 4 theorems (invariants over request histories, refinement of red-black trees to a key table) + differential correspondence',
    ref='§4 C01')

RULE = ('one probe process per run. 4 (quick) / 16 (thorough) histories of 3 000 / 100 000 requests, each on its own impl::Lexicon, three Lexicons '
        'alive at a time and their histories interleaved in chunks of random size (1..233 lines; histories 0 and 2 are also asked of a second Lexicon in '
        'lockstep); then 5 / 10 pairs of short histories in one place: a Lexicon that is asked every constructor once more and destroyed, and a '
        'successor constructed in place (node storage recycled) whose first requests use more brand-new operands than the predecessor had nodes; '
        'histories 0 and 2 begin with client-built type nodes placed 128 B .. 256 GiB apart as operands of every unary / binary constructor, each '
        'request twice in scrambled orders; before main() a namespace-scope object asks a Lexicon for every candidate reserved spelling and a few '
        'types, main() asks again. Operands drawn from built-ins, user-defined types and every earlier answer; ~45 % of requests ask again for an earlier key, half of those through an alternative '
        'spelling (explicit false throws, natural transfer obtained four ways, Warehouse vs sequence, word vs String, split qualifier sets); '
        'type sequences of length 0..6 sharing prefixes; all 7 qualifier sets; accessors read back after 12 % of requests. '
        'A trace is one history (one Lexicon incarnation); every answer is compared with the specification oracle of its own history and with the Lean model run on the same interleaved script')


def run(tier):
    return U.check(PID, tier, RULE)


def replay(path):
    return U.replay(PID, path)
