"""C08 — the ordered-set utility stays a valid balanced search tree (DESIGN.md §4 C08)."""
import itertools, random
from . import common as C

PID = 'C08'
MANIFEST = dict(
    text='Theorems C08_* (lean/IprProps/C08.lean) prove, for every insertion sequence and every lawful comparator, that the '
         'model of rb_tree insertion keeps the red-black rules and the search order, finds exactly the inserted keys, returns the '
         'existing element on an equal key, and has height <= 2*log2(n+1). Consistent parent links are proved as well: theorems '
         'C08_linked_* show that a pointer-level model (lean/IprModel/RBLinked.lean: a store of cells with left/right/parent fields, '
         'rotate_left, rotate_right, fixup_insert, container::insert, chain::insert and find written statement by statement as the C++) '
         'never dereferences a null pointer, never exhausts its loop budget and refines the persistent model after every insertion, so '
         'every child\'s parent field names its parent and the root\'s is null for every insertion sequence, in both flavours. Both '
         'models are tied to include/ipr/utility by an exact correspondence after every insertion (all permutations / duplicate '
         'sequences up to a bound, long adversarial runs): shape, colours, size, find answers and every node\'s parent; the verified '
         'checkers are run on the real shapes. In the intrusive flavour the node OBJECT that is already linked is also offered again '
         '(every node of every tree of up to 5 / 6 keys: root, inner nodes, leaves; and between fresh insertions in longer histories): the '
         'persistent model ignores an equal element, the pointer-level model runs the statements of chain::insert on the cell that is '
         'already linked (Store.insertChainAt), and the real tree, every link of the offered node and every later look-up must agree.',
    note='Lean kernel; axioms propext/Classical.choice/Quot.sound; hand-written models tied by correspondence only on generated '
         'sequences; addresses of the pointer-level model are allocation indices (the real addresses are canonicalised away by printing '
         'parent keys); the re-offer of a linked node is tied by correspondence only (no theorem about insertChainAt); harness rbprobe.cxx, '
         'ASan/UBSan, g++.',
    technique='Lean 4 theorems (induction over insertion histories; refinement of a persistent zipper model by a pointer-level store '
              'model) + exact-shape-and-parent-link differential correspondence',
    ref='§4 C08')


def gen_sequences(tier, rng):
    """Yield (label, flavour, cmp, keys, dump_every, probes)."""
    nperm = 7 if tier == 'quick' else 8
    ndup = 6 if tier == 'quick' else 7
    for n in range(1, nperm + 1):
        for i, perm in enumerate(itertools.permutations(range(1, n + 1))):
            fl = [('own', 'int'), ('own', 'addr'), ('chain', 'lex'), ('own', 'diff'), ('own', 'wide'), ('own', 'counted'), ('own', 'vecsize')][i % 7]
            yield ('perm', fl[0], fl[1], [[k] for k in perm], 1, [[k] for k in range(0, n + 2)])
    for ln in range(1, ndup + 1):
        for i, seq in enumerate(itertools.product(range(1, 5), repeat=ln)):
            if len(set(seq)) == ln and ln > 1 and tier == 'quick':
                continue            # duplicate-free ones are covered by the permutations
            fl = [('own', 'int'), ('chain', 'lex'), ('own', 'diff'), ('own', 'wide'), ('own', 'counted'), ('own', 'vecsize')][i % 6]
            yield ('dups', fl[0], fl[1], [[k] for k in seq], 1, [[k] for k in range(0, 6)])
    # lexicographic keys: prefixes, equal heads, empty key
    alphabet = [[], [1], [1, 1], [1, 2], [2], [2, 1], [1, 1, 1], [0], [-1, 5], [1, 2, 3]]
    for r in range(40 if tier == 'quick' else 400):
        seq = [rng.choice(alphabet) for _ in range(rng.randint(1, 14))]
        fl = rng.choice([('own', 'lex'), ('chain', 'lex'), ('own', 'lexdiff')])
        yield ('lex', fl[0], fl[1], seq, 1, alphabet + [[3], [1, 3]])
    # look-ups INTERLEAVED with insertions (hits and misses right before an insertion of the same or of another key): a container may not
    # carry anything from a look-up into the next insertion
    for r in range(300 if tier == 'quick' else 5000):
        span = rng.choice([6, 12, 24])
        seq = [[rng.randrange(span)] for _ in range(rng.randint(2, 16))]
        fl = rng.choice([('own', 'int'), ('chain', 'lex'), ('own', 'lex'), ('chain', 'lex'), ('own', 'wide'), ('own', 'counted'), ('own', 'vecsize')])
        yield ('interleaved', fl[0], fl[1], seq, 1, ('inline', span))
    # the intrusive flavour does not own its nodes: the node OBJECT that is already linked is offered again -- every node of every
    # small tree (root, inner nodes, leaves), each followed by the full observation; the offer is ignored (an equal element, the
    # object itself, is present): shape, colours, every parent link and every look-up stay as they were, `count` moves as the code does
    for n in range(1, (5 if tier == 'quick' else 6) + 1):
        for perm in itertools.permutations(range(1, n + 1)):
            order = list(perm)
            rng.shuffle(order)
            yield ('reoffered', 'chain', 'lex', [[k] for k in perm] + [('re', [k]) for k in order], 1, [[k] for k in range(0, n + 2)])
    # ... and in longer histories, between fresh insertions (distinct objects with equal keys included)
    for r in range(120 if tier == 'quick' else 3000):
        span = rng.choice([4, 9, 20, 48])
        seq, have = [], []
        for _ in range(rng.randint(3, 40)):
            if have and rng.random() < 0.4:
                seq.append(('re', [rng.choice(have)]))
            else:
                k = rng.randrange(span)
                seq.append([k])
                have.append(k)
        yield ('reoffered-interleaved', 'chain', 'lex', seq, 1, ('inline', span))
    big = 10_000 if tier == 'quick' else 300_000
    every = 500 if tier == 'quick' else 20_000
    shapes = {
        'sorted': list(range(big)),
        'reversed': list(range(big, 0, -1)),
        'random': [rng.randrange(-big, big) for _ in range(big)],
        'organ-pipe': [x for i in range(big // 2) for x in (i, big - i)],
        'zig-zag': [x for i in range(big // 2) for x in (i, -i)],
        'few-distinct': [rng.randrange(50) for _ in range(big // 10)],
    }
    for i, (name, keys) in enumerate(shapes.items()):
        fl = [('own', 'int'), ('own', 'addr'), ('chain', 'lex'), ('own', 'lex'), ('own', 'diff'), ('own', 'lexdiff'), ('own', 'wide'), ('own', 'counted')][i % 8]
        probes = [[rng.randrange(-big - 5, big + 5)] for _ in range(300)]
        yield (name, fl[0], fl[1], [[k] for k in keys], every, probes)


def key_s(k):
    return ','.join(map(str, k)) if k else '-'


def ops_of(flavour, cmp, keys, dump_every, probes):
    ops = ['new %s %s' % (flavour, cmp)]
    inline = None
    if isinstance(probes, tuple) and probes[0] == 'inline':
        inline = random.Random(len(keys) * 1000003 + sum((k[1] if isinstance(k, tuple) else k)[0] for k in keys) + probes[1])
        span = probes[1]
        probes = [[k] for k in range(-1, span + 1)]
    for i, k in enumerate(keys):
        if inline is not None:
            for _ in range(inline.randrange(3)):
                ops.append('find ' + key_s([inline.randrange(-1, span + 1)]))
        ops.append('reins ' + key_s(k[1]) if isinstance(k, tuple) else 'ins ' + key_s(k))
        if (i + 1) % dump_every == 0:
            ops += ['dump', 'pdump']
    if dump_every != 1:
        ops += ['dump', 'pdump']
    ops.append('stat')
    for p in probes:
        ops.append('find ' + key_s(p))
    return ops


def parse_impl(raw):
    """[(compared line, [assert lines])] per op, from the probe's raw output."""
    out = []
    for ln in raw.splitlines():
        if ln.startswith('@'):
            if out:
                out[-1][1].append(ln)
        else:
            out.append((ln, []))
    return out


def oracle(ops, impl, chk_answers):
    """The statement of C08 evaluated directly on the implementation's trace.  Returns (op index, message) or None."""
    seen = set()
    flavour = 'own'
    for i, (op, (line, asserts)) in enumerate(zip(ops, impl)):
        w = op.split()
        for a in asserts:
            if not a.endswith('=1'):
                return i, 'implementation assertion failed: %s after `%s`' % (a, op)
        if w[0] == 'new':
            seen = set()
            ninsert = 0
            flavour = w[1]
        elif w[0] == 'ins':
            k = w[1]
            fresh = k not in seen
            seen.add(k)
            ninsert += 1
            if flavour == 'own':
                exp = 'size=%d fresh=%d' % (len(seen), 1 if fresh else 0)
            else:
                exp = 'size=%d' % ninsert
            if line != exp:
                return i, '`%s` answered `%s`, the statement requires `%s`' % (op, line, exp)
        elif w[0] == 'reins':
            # the linked node object offered again: ignored, `count` incremented as chain::insert does for every call
            if flavour != 'chain' or w[1] not in seen:
                exp = 'bad-op'
            else:
                ninsert += 1
                exp = 'size=%d' % ninsert
            if line != exp:
                return i, '`%s` answered `%s`, the statement requires `%s`' % (op, line, exp)
        elif w[0] == 'find':
            exp = 'found=' + (w[1] if w[1] in seen else 'none')
            if line != exp:
                return i, '`%s` answered `%s`, the statement requires `%s`' % (op, line, exp)
        elif w[0] == 'dump':
            a = chk_answers.get(i)
            if a is not None and a != 'rb=true bst=true height_ok=true':
                return i, 'real tree shape violates the invariants (verified checkers: %s): %s' % (a, line[:400])
    return None


def run(tier):
    res = C.Result(PID, tier)
    rng = random.Random(C.seed() * 7919 + 8)
    ok, info, detail = C.prove(res, PID)
    probe = C.build_harness('rbprobe', 'asan', link_lib=False)

    # one op stream; remember where each sequence starts
    ops, starts, labels = [], [], {}
    for (label, fl, cmp, keys, every, probes) in gen_sequences(tier, rng):
        starts.append(len(ops))
        ops += ops_of(fl, cmp, keys, every, probes)
        labels[label] = labels.get(label, 0) + 1
        if labels[label] <= 1:
            res.sample({'kind': label, 'flavour': fl, 'cmp': cmp, 'n_keys': len(keys),
                        'keys': [('again:' + key_s(k[1])) if isinstance(k, tuple) else key_s(k) for k in keys[:12]]})
    text = '\n'.join(ops) + '\n'
    rc_i, out_i, err_i = C.run_exe(probe, [], text, timeout=240 if tier == 'quick' else 1800)
    rc_m, out_m, err_m = C.run_model('c08', text)
    if rc_m != 0:
        raise C.BuildError('model driver failed: ' + err_m[-2000:])
    impl = parse_impl(out_i)
    model_lines, _, stats = C.split_streams(out_m)

    # verified checkers on every real dumped shape
    dump_idx = [i for i, op in enumerate(ops) if op == 'dump' and i < len(impl)]
    chk_text = ''.join('chk %s\n' % impl[i][0] for i in dump_idx)
    rc_c, out_c, _ = C.run_model('c08', chk_text)
    chk = dict(zip(dump_idx, out_c.splitlines()))

    def seq_of(i):
        s = max(x for x in starts if x <= i)
        return ops[s:i + 1]

    bad = oracle(ops, impl, chk)
    if bad and (rc_i != 0 or len(impl) != len(ops)):
        # the probe stopped later on, but the trace up to there already violates the statement: that (shorter) input is the replay
        i, msg = bad
        res.violation('statement', msg + ' (later in the run the probe stopped, exit %d: %s)' % (rc_i, (err_i.strip().splitlines() or ['?'])[0][:300]),
                      '\n'.join(seq_of(i)))
    elif rc_i != 0 or len(impl) != len(ops):
        i = min(len(impl), len(ops) - 1)
        s0 = max(x for x in starts if x <= i)
        e0 = min([x for x in starts if x > i] + [len(ops)])
        what = 'did not terminate (time limit)' if rc_i == C.TIMEOUT else 'stopped (exit %d)' % rc_i
        res.violation('crash', 'rbprobe %s after %d of %d ops, inside the sequence starting at op %d\n%s' % (what, len(impl), len(ops), s0, err_i[-3000:]),
                      '\n'.join(ops[s0:e0]))
    elif bad:
        i, msg = bad
        res.violation('statement', msg, '\n'.join(seq_of(i)))
    else:
        impl_lines = [l for l, _ in impl]
        d = C.first_diff(impl_lines, model_lines)
        if d is not None:
            ml = model_lines[d] if d < len(model_lines) else '<none>'
            linked = ops[d] == 'pdump' or ml.startswith('linked-') or impl_lines[d].startswith('n=')
            res.violation('correspondence:rbtree-links' if linked else 'correspondence:rbtree-shape',
                          'implementation and %s model disagree at op %d `%s`\n impl : %s\n model: %s\n'
                          'the implementation trace itself satisfies the statement of C08 (oracle + verified checkers), '
                          'so the theorems no longer speak about this code' % ('pointer-level' if linked else 'persistent', d, ops[d], impl_lines[d][:300], ml[:300]),
                          'correspondence: harness/rbprobe.cxx vs lean/IprModel/%s (theorems IprProps/C08.lean)\n' % ('RBLinked.lean' if linked else 'RBTree.lean')
                          + '\n'.join(seq_of(d)),
                          found_input=False)
    if not ok:
        res.proof_broken('IprProps.C08', detail)

    cases = {}
    for s in stats:
        c = s.split('case=')[-1]
        cases[c] = cases.get(c, 0) + 1
    res.cov['traces_validated_against_impl'] = len(starts)
    res.cov['ops'] = len(ops)
    res.cov['real_shapes_checked_by_verified_checkers'] = len(chk)
    res.cov['real_parent_link_dumps_compared_with_pointer_level_model'] = sum(1 for i, op in enumerate(ops) if op == 'pdump' and i < len(impl))
    res.cov['fixup_case_distribution(case/climbs)'] = dict(sorted(cases.items()))
    res.cov['sequence_kinds'] = labels
    res.cov['exhaustive'] = False
    res.assumptions += [
        'consistent parent links are proved on the pointer-level model (C08_linked_parent_links); that model is compared with the real '
        'structure (shape, colours, size, each node\'s parent) after every dump, and the probe also checks the real links itself (@links)',
        'comparators of the probe (int, address, lexicographic; also difference-valued variants with the same sign) are the lawful instances proved in C08_icmp_lawful / C08_lexCmp_lawful',
    ]
    return res.finish(info, rule='all permutations of 1..n and all duplicate-bearing sequences over {1..4} up to the tier bound, '
                      'lexicographic keys, linked node objects offered again (intrusive flavour), then long sorted/reversed/random/organ-pipe/zig-zag/few-distinct sequences; exact shape, size, '
                      'result identity, find answers and every node\'s parent compared with the two models after every insertion (long runs: periodically); '
                      'a trace is one insertion sequence')


def replay(path):
    """Re-run the op lines of a replay file on both sides and print what each answers."""
    ops = [l.strip() for l in open(path) if l.strip() and not l.startswith('#') and not l.startswith('correspondence:') and not l.startswith('theorem')]
    text = '\n'.join(ops) + '\n'
    C.lean_build(['model_c08'])
    probe = C.build_harness('rbprobe', 'asan', link_lib=False)
    rc_i, out_i, err_i = C.run_exe(probe, [], text)
    rc_m, out_m, _ = C.run_model('c08', text)
    impl = parse_impl(out_i)
    model_lines, _, _ = C.split_streams(out_m)
    dump_idx = [i for i, op in enumerate(ops) if op == 'dump' and i < len(impl)]
    _, out_c, _ = C.run_model('c08', ''.join('chk %s\n' % impl[i][0] for i in dump_idx))
    chk = dict(zip(dump_idx, out_c.splitlines()))
    for i, op in enumerate(ops):
        il = impl[i] if i < len(impl) else ('<none>', [])
        ml = model_lines[i] if i < len(model_lines) else '<none>'
        print('%-12s impl: %s %s%s\n%-12s model: %s' % (op, il[0], ' '.join(il[1]), ('  checkers: ' + chk[i]) if i in chk else '', '', ml))
    bad = oracle(ops, impl, chk)
    if rc_i != 0 or bad or C.first_diff([l for l, _ in impl], model_lines) is not None:
        print('VIOLATION property=C08 replay=%s' % path)
        if bad:
            print(bad[1])
        return 1
    print('replay: property holds on this input')
    return 0
