"""C14 — missing or out-of-range data raises a logic error, never undefined behaviour (DESIGN.md §4 C14; partial by nature)."""
import hashlib, itertools, os, random, re, shutil, time
from concurrent.futures import ThreadPoolExecutor
from . import common as C

PID = 'C14'
MANIFEST = dict(
    text='Theorems C14_* prove, on the hand-written model of Sequence<T> and its nine implementations (ref_sequence incl. pre-sized / '
         'decl_sequence / Warehouse, obj_sequence, obj_list, empty_sequence, singleton_obj/_ref, typed_sequence, homogeneous_scope), for '
         'EVERY slot list: get(i) is refused (logic error) exactly when i >= size() or the slot was never filled (F7; for a typed sequence '
         'also when the member\'s type() raises), otherwise returns the i-th element; iteration from begin() to end() visits exactly '
         'size() elements, the i-th being get(i), backwards the reverse; empty() iff size() = 0; *end() and *--begin() are refused. On the '
         'model of accessor outcomes, for every history of link assignments on a partially built node: reading a never-set util::ref / '
         'Optional link is refused, reading a set link returns the node LAST assigned, Optional-returning accessors never raise, an '
         'accessor depends only on the link it reads. WHICH accessor needs which link is a hand-written table over 225 node kinds (hygiene '
         'by kernel evaluation, lifted to every kind x row x history), tied to the code by an exhaustive sweep under ASan+UBSan '
         '(-fno-sanitize-recover): every kind the factories produce x every state of its optional links x every accessor (universal '
         'observer), each in a forked child, plus random assignment histories and every Sequence implementation over all small slot '
         'patterns with out-of-range / SIZE_MAX indices, both directions (postfix ++/-- must hand back the position held). Every '
         'declaration kind of a general scope is swept a second time as the SECOND declaration under a name already taken by a declaration '
         'of each other kind (56 `X#after-Y` kinds with the rows of X: nothing declared earlier may fill in a link), and names are looked up '
         'through the interface (region.bindings()[name], overload[type]) in base-class, parameter, enumerator, handler and general scopes '
         'whose members repeat a name or cannot say theirs (a base of an unnamed class): the linear search of the model finds the first '
         'member of that name and is refused at the first member whose name() raises -- in a forked child, so std::terminate is a result. PARTIAL: absence of undefined behaviour is not expressible in '
         'the model; the theorems fix which outcome is required, the sanitizers observe that nothing else happened on the swept states.',
    note='Lean kernel; axioms propext/Classical.choice/Quot.sound; std::vector/deque/forward_list/variant represented by their '
         'specification; outcome table hand-written from include/ipr/{interface,impl}; operands of swept nodes are complete nodes except '
         'for the delegating accessors; ASan/UBSan, g++ 12; harness/observe.hxx decides which accessors exist.',
    technique='Lean 4 theorems (sequence laws by induction over any slot list, outcome laws over all assignment histories, table hygiene '
              'by kernel evaluation lifted by general lemmas) + exhaustive differential sweep under sanitizers',
    ref='§4 C14')

WORKERS = 4

# The probe is one program in ten translation units so that a cold build takes ~20 s of wall time instead of ~85 s: code
# generation for the universal observer under ASan+UBSan dominates and parallelises.  Every unit gets the SAME flags (sanitizers
# included: inline library code is instrumented wherever the linker takes it from).  (source, extra flags, object name)
PROBE_UNITS = [('c14probe.cxx', [], 'main'), ('c14kinds_a.cxx', [], 'kinds_a'), ('c14kinds_b.cxx', [], 'kinds_b'),
               ('c14kinds_c.cxx', [], 'kinds_c'), ('c14seq.cxx', [], 'seq')] + \
              [('c14obs.cxx', ['-DC14_OBS_PART=%d' % i], 'obs%d' % i) for i in range(5)]
PROBE_DEPS = ['c14probe.inc']
PROBE_FLAGS = ['-O0']


def build_probe():
    """c14probe against the current tree (ASan+UBSan), units compiled in parallel; cached like common.build_harness."""
    flavor = 'asan'
    rh = C.repo_hash()
    hh = hashlib.sha256()
    deps = [os.path.join(C.HARNESS, f) for f in sorted(set(u[0] for u in PROBE_UNITS)) + PROBE_DEPS]
    for root, _, files in sorted(os.walk(C.HARNESS)):
        deps += [os.path.join(root, f) for f in sorted(files) if f.endswith(('.hxx', '.h', '.hpp'))]
    for f in deps:
        with open(f, 'rb') as fh:
            hh.update(os.path.basename(f).encode() + fh.read())
    hh.update(repr((flavor, PROBE_UNITS, PROBE_FLAGS)).encode())
    d = os.path.join(C.CACHE, 'lib-' + rh, flavor)
    exe = os.path.join(d, 'c14probe-%s' % hh.hexdigest()[:12])
    lib = C.build_lib(flavor)
    with C.lock('har-%s-%s-c14probe' % (rh, flavor)):
        if os.path.exists(exe):
            return exe
        objdir = exe + '.objs'
        os.makedirs(objdir, exist_ok=True)
        t0 = time.time()
        base = ['g++'] + C.CXXFLAGS + C.FLAVORS[flavor] + ['-fno-access-control', '-I' + C.HARNESS] + PROBE_FLAGS

        def cc(unit):
            src, extra, name = unit
            obj = os.path.join(objdir, name + '.o')
            r = C.run_cmd(base + extra + ['-c', os.path.join(C.HARNESS, src), '-o', obj])
            if r.returncode != 0:
                raise C.BuildError('compiling harness unit %s %s failed:\n%s' % (src, ' '.join(extra), r.stdout[-6000:]))
            return obj
        try:
            with ThreadPoolExecutor(min(len(PROBE_UNITS), max(2, C.NCPU - 2))) as ex:
                objs = list(ex.map(cc, PROBE_UNITS))
            r = C.run_cmd(['g++'] + C.FLAVORS[flavor] + PROBE_FLAGS + objs + [lib, '-o', exe + '.tmp', '-pthread'])
            if r.returncode != 0:
                raise C.BuildError('linking c14probe failed:\n%s' % r.stdout[-6000:])
            os.replace(exe + '.tmp', exe)
        finally:
            shutil.rmtree(objdir, ignore_errors=True)
        C.log('[build] harness c14probe (%s, %d units in parallel) in %.1fs' % (flavor, len(PROBE_UNITS), time.time() - t0))
    return exe


# ------------------------------------------------------------------------------------------------------------ running both sides

def parse_blocks(out):
    """{echo: (answer, [@assert lines])} from a stream of `<echo> : <answer>` lines followed by their `@` lines."""
    res, last = {}, None
    for ln in out.splitlines():
        if ln.startswith('@'):
            if last is not None:
                res[last][1].append(ln)
            continue
        if ln.startswith('#') or ' :' not in ln:
            continue
        echo, _, ans = ln.partition(' :')
        ans = ans.strip()
        if echo in res and res[echo][0] != ans and ans.startswith('!CRASH'):
            pass            # a child that printed its line and then died at exit: keep the line, remember the crash
        if echo in res and ans.startswith('!CRASH'):
            res[echo] = (res[echo][0] + ' !CRASH-AFTER(' + ans + ')', res[echo][1])
        else:
            res[echo] = (ans, [])
        last = echo
    return res


def echo_of(op):
    w = op.split()
    return ' '.join(w[1:]) if w[0] in ('state', 'hist') else op


def run_probe(probe, ops, timeout):
    """Ops are independent (each runs in a forked child of a freshly initialised probe): split them over a few processes."""
    chunks = [ops[i::WORKERS] for i in range(WORKERS)]
    def one(chunk):
        if not chunk:
            return 0, '', ''
        return C.run_exe(probe, [str(C.seed())], '\n'.join(chunk) + '\n', timeout=timeout)
    with ThreadPoolExecutor(WORKERS) as ex:
        outs = list(ex.map(one, chunks))
    blocks, errs, rcs = {}, [], []
    for rc, out, err in outs:
        blocks.update(parse_blocks(out))
        errs.append(err)
        rcs.append(rc)
    return blocks, rcs, '\n'.join(errs)


def fields_of(ans):
    if ans in ('-', ''):
        return []
    out = []
    for tok in ans.split(' '):
        if '=' in tok:
            k, _, v = tok.partition('=')
            out.append((k, v))
    return out


# ------------------------------------------------------------------------------------------------------------ generation

def read_kinds(probe):
    rc, out, err = C.run_exe(probe, [str(C.seed())], 'kinds\n', timeout=600)
    kinds, crashed = {}, []
    for echo, (ans, _) in parse_blocks(out).items():
        name = echo[2:]
        if ans.startswith('!CRASH'):
            crashed.append((name, ans))
            continue
        links = []
        if ans != '-':
            for l in ans.split(','):
                nm, _, ar = l.partition(':')
                links.append((nm, int(ar.rstrip('!')), ar.endswith('!')))
        kinds[name] = links
    return kinds, crashed, err


def read_model_kinds():
    rc, out, err = C.run_model('c14', 'kinds\n')
    if rc != 0:
        raise C.BuildError('model_c14 failed: ' + err[-1000:])
    kinds = {}
    for ln in out.splitlines():
        w = ln.split(' ')
        if w[0] != 'K':
            continue
        links = [] if w[2] == '-' else [(l.partition(':')[0], int(l.partition(':')[2])) for l in w[2].split(',')]
        accs = [] if w[3] == '-' else w[3].split(',')
        kinds[w[1]] = (links, accs)
    return kinds


def seq_patterns(tier, rng):
    ops = []
    def pats(alpha, maxn, samples7):
        out = ['-']
        for n in range(1, maxn + 1):
            out += [''.join(p) for p in itertools.product(alpha, repeat=n)]
        fixed = [alpha[0] * 7, (alpha[0] + alpha[-1]) * 3 + alpha[0], alpha[-1] + alpha[0] * 6, alpha[0] * 6 + alpha[-1]]
        if len(alpha) > 1:
            fixed.append(alpha[1] * 7)
        out += fixed
        for _ in range(samples7):
            out.append(''.join(rng.choice(alpha) for _ in range(7)))
        return list(dict.fromkeys(out))
    q = tier == 'quick'
    for p in pats('sun', 3 if q else 5, 12 if q else 200):
        ops.append('seq ref ' + p)
    for p in pats('sun', 2 if q else 4, 6 if q else 60):
        ops.append('seq decl ' + p)
    for p in pats('spun', 2 if q else 4, 12 if q else 200):
        ops.append('seq typedref ' + p)
    for p in pats('sun', 2 if q else 3, 6 if q else 60):
        ops.append('seq typeddecl ' + p)
    for lead in range(0, 4 if q else 8):
        for m in (0, 1, 2, 7):
            p = 'u' * lead + 's' * m or '-'
            ops.append('seq warehouse ' + p)
            ops.append('seq warehouse-product ' + p)
            ops.append('seq warehouse-sum ' + p)
    for n in (0, 1, 2, 7) + (() if q else (3, 16, 64)):
        p = 's' * n or '-'
        ops += ['seq objseq ' + p, 'seq objlist ' + p, 'seq typedlist ' + p]
        for v in ('decl', 'expr', 'type'):
            ops += ['seq homlist %s %s' % (p, v), 'seq homseq %s %s' % (p, v)]
    ops += ['seq empty -', 'seq sobj s', 'seq sref s']
    ops += ['seq homsingle s ' + v for v in ('decl', 'expr', 'type')]
    ops += ['optional 0', 'optional 1']
    return ops


def lookup_ops(tier, rng):
    """Look-ups by name through the interface in scopes some of whose members cannot say their name (`a`: a base-class subobject of
    an unnamed class), repeat a name (`r`) or are ordinary (`s`): all patterns up to a length, then longer random ones."""
    q = tier == 'quick'
    ops = []
    def pats(alpha, maxn, longer):
        out = ['-']
        for n in range(1, maxn + 1):
            out += [''.join(p) for p in itertools.product(alpha, repeat=n)]
        for _ in range(longer):
            out.append(''.join(rng.choice(alpha) for _ in range(rng.randint(maxn + 1, 9))))
        return list(dict.fromkeys(out))
    for p in pats('sar', 3 if q else 5, 12 if q else 150):
        ops.append('lookup bases ' + p)
    for scope in ('params', 'enums', 'general'):
        for p in pats('sr', 3 if q else 5, 4 if q else 40):
            ops.append('lookup %s %s' % (scope, p))
    ops.append('lookup eh s')
    return ops


def state_ops(kinds, tier, rng):
    ops = []
    for name, links in kinds.items():
        for codes in itertools.product(*[range(ar) for _, ar, _ in links]):
            ops.append('state %s %s' % (name, ''.join(map(str, codes)) or '-'))
    # histories: assignments in arbitrary order, with re-assignment; the last assignment of a link wins
    nh = 3 if tier == 'quick' else 40
    for name, links in kinds.items():
        settable = [i for i, (_, ar, pseudo) in enumerate(links) if not pseudo]
        if not settable:
            continue
        for _ in range(nh):
            h = []
            for _ in range(rng.randint(1, 2 * len(settable) + 2)):
                l = rng.choice(settable)
                h.append('%d:%d' % (l, rng.randint(1, links[l][1] - 1)))
            ops.append('hist %s %s' % (name, ','.join(h)))
    return ops


# ------------------------------------------------------------------------------------------------------------ judging

def seq_oracle(ans, asserts):
    """The statement evaluated on the implementation's answer alone.  Returns a message or None."""
    m = re.match(r'size=#(\d+) empty=#(\d) get=\[(.*)\|(.*)\] fwd=\[(.*)\] bwd=\[(.*)\] end=(\S+) rend=(\S+)$', ans)
    if not m:
        return 'unreadable answer: ' + ans[:200]
    n = int(m.group(1))
    get = m.group(3).split(',') if m.group(3) else []
    fwd = m.group(5).split(',') if m.group(5) else []
    bwd = m.group(6).split(',') if m.group(6) else []
    if '!X' in ans:
        return 'an exception not derived from std::logic_error escaped: ' + ans[:300]
    if (m.group(2) == '1') != (n == 0):
        return 'empty() disagrees with size()'
    for i, g in enumerate(get):
        if i >= n and g != '!L':
            return 'position(%d) of a sequence of size %d was not refused: answered %s' % (i, n, g)
    for what, g in (('position(SIZE_MAX)', m.group(4)), ('*end()', m.group(7)), ('*--begin()', m.group(8))):
        if g != '!L':
            return '%s was not refused: answered %s' % (what, g)
    if len(fwd) != n:
        return 'iteration from begin() to end() visited %d elements, size() is %d' % (len(fwd), n)
    if fwd != get[:n]:
        return 'iteration and positional access disagree: fwd=%s get=%s' % (fwd, get[:n])
    if bwd != fwd[::-1]:
        return 'backward iteration is not the reverse of forward iteration: %s vs %s' % (bwd, fwd)
    if '?' in get[:n]:
        return 'an element returned by get() is none of the elements put in: ' + ','.join(get[:n])
    for a in asserts:
        if not a.endswith('=1') and not a.startswith('@index='):
            return 'implementation assertion failed: ' + a
    return None


class Judge:
    def __init__(self, res, model_kinds):
        self.res = res
        self.mk = model_kinds
        self.unmodelled = {}          # kind -> set(accessors) the observer printed without a model row
        self.stale = {}               # kind -> set(model rows never observed)
        self.const_values = {}        # (kind, accessor) -> {value: op}
        self.outcomes = {'value': 0, '!L': 0, '-': 0}
        self.reported = set()

    def violation(self, key, msg, op, found=True):
        if key in self.reported:
            return
        self.reported.add(key)
        self.res.violation(key, msg, ('' if found else 'correspondence: harness/c14probe.cxx vs lean/IprModel/Outcome.lean, Seq.lean '
                                      '(theorems IprProps/C14.lean)\n') + op, found_input=found)

    def state(self, op, impl, model):
        kind = op.split()[1]
        ans = impl[0] if impl else None
        if ans is None or ans.startswith('!CRASH') or 'CRASH-AFTER' in ans:
            self.violation('crash:' + kind, 'the probe died (sanitizer report / signal) while observing `%s`: %s' % (op, ans), op)
            return
        if 'escaped' in ans or ans in ('bad-state', 'unknown-kind'):
            self.violation('escape:' + kind, '`%s`: %s' % (op, ans), op)
            return
        ifs = fields_of(ans)
        mfs = dict(fields_of(model)) if model and 'unmodelled-kind' not in model and 'bad-state' not in model else None
        for acc, v in ifs:
            if '!X' in v:
                self.violation('nonlogic:%s.%s' % (kind, acc), '`%s`: accessor %s raised an exception that is not a std::logic_error: %s'
                               % (op, acc, v), op + '\n# accessor ' + acc)
        if mfs is None:
            self.unmodelled.setdefault(kind, set()).update(a for a, _ in ifs)
            return
        seen = set()
        for acc, v in ifs:
            seen.add(acc)
            self.outcomes['!L' if v == '!L' else '-' if v == '-' else 'value'] += 1
            if acc not in mfs:
                self.unmodelled.setdefault(kind, set()).add(acc)
                continue
            exp = mfs[acc]
            if exp == '*':
                if '!L' in v:
                    self.violation('outcome:%s.%s' % (kind, acc), '`%s`: accessor %s answered %s; the model requires a value in every state '
                                   '(it reads no optional link)' % (op, acc, v), op + '\n# accessor ' + acc, found=False)
                else:
                    self.const_values.setdefault((kind, acc), {}).setdefault(v, op)
            elif exp == '!L':
                if v != '!L':
                    self.violation('unrefused:%s.%s' % (kind, acc), '`%s`: accessor %s answered %s although the link it reads was never set '
                                   '(or is incomplete): the statement requires a std::logic_error' % (op, acc, v), op + '\n# accessor ' + acc)
            elif v != exp:
                self.violation('outcome:%s.%s' % (kind, acc), '`%s`: accessor %s answered %s, the model requires %s' % (op, acc, v, exp),
                               op + '\n# accessor ' + acc, found=False)
        for acc in mfs:
            if acc not in seen:
                self.stale.setdefault(kind, set()).add(acc)

    def frame(self):
        """An accessor that reads no link answers the same in every state of the kind (assigning a link changes nothing else)."""
        for (kind, acc), vals in self.const_values.items():
            if len(vals) > 1:
                (v1, o1), (v2, o2) = list(vals.items())[:2]
                self.violation('frame:%s.%s' % (kind, acc), 'accessor %s of %s reads no optional link according to the model, yet answers %s '
                               'after `%s` and %s after `%s`' % (acc, kind, v1, o1, v2, o2), o1 + '\n' + o2 + '\n# accessor ' + acc, found=False)

    def lookup(self, op, impl, model):
        key = ' '.join(op.split()[:2])
        if impl is None or impl[0].startswith('!CRASH') or 'CRASH-AFTER' in impl[0]:
            self.violation('crash:' + key, 'the probe died (std::terminate / sanitizer report / signal) on `%s`: %s -- a name that cannot be '
                           'read has to reach the caller as a std::logic_error' % (op, impl and impl[0]), op)
            return
        ans, asserts = impl
        if '!X' in ans or 'escaped' in ans:
            self.violation('nonlogic:' + key, '`%s`: an exception that is not a std::logic_error, or one that escaped: %s' % (op, ans), op)
            return
        bad = [a for a in asserts if not a.endswith('=1')]
        if bad:
            self.violation('lookup:' + key, '`%s`: implementation assertion failed: %s' % (op, bad), op)
            return
        self.outcomes['lookup'] = self.outcomes.get('lookup', 0) + 1
        if ans != model:
            mi = re.match(r'byname=\[(.*)\]$', ans or '')
            mm = re.match(r'byname=\[(.*)\]$', model or '')
            unref = bool(mi and mm) and any(b == '!L' and a != '!L' for a, b in zip(re.split(r'[,|]', mi.group(1)), re.split(r'[,|]', mm.group(1))))
            self.violation(('unrefused:' if unref else 'outcome:') + key, '`%s`\n impl : %s\n model: %s' % (op, ans, model), op, found=unref)

    def seq(self, op, impl, model):
        key = ' '.join(op.split()[:2])
        if impl is None or impl[0].startswith('!CRASH') or 'CRASH-AFTER' in impl[0]:
            self.violation('crash:' + key, 'the probe died (sanitizer report / signal) on `%s`: %s' % (op, impl and impl[0]), op)
            return
        ans, asserts = impl
        if op.startswith('optional'):
            bad = [a for a in asserts if not a.endswith('=1')]
            if bad or '!X' in ans:
                self.violation('optional', '`%s`: %s %s' % (op, ans, bad), op)
            elif ans != model:
                found = model == '!L'
                self.violation('optional', '`%s` answered %s, required %s' % (op, ans, model), op, found=found)
            return
        msg = seq_oracle(ans, asserts)
        if msg:
            self.violation('sequence:' + key, '`%s`: %s' % (op, msg), op)
            return
        if model is None or ans != model:
            # in-bounds element that the model refuses (an unset slot, an untyped member) but the implementation returned
            mi = re.search(r'get=\[(.*?)\|', ans)
            mm = re.search(r'get=\[(.*?)\|', model or '')
            unref = mi and mm and any(b == '!L' and a != '!L' for a, b in zip(mi.group(1).split(','), mm.group(1).split(',')))
            self.violation(('unrefused:' if unref else 'outcome:') + key,
                           '`%s`\n impl : %s\n model: %s' % (op, ans, model), op, found=bool(unref))


def model_answers(ops):
    rc, out, err = C.run_model('c14', '\n'.join(ops) + '\n')
    if rc != 0:
        raise C.BuildError('model_c14 failed: ' + err[-1000:])
    return {k: v[0] for k, v in parse_blocks(out).items()}


def crash_detail(probe, op):
    rc, out, err = C.run_exe(probe, [str(C.seed())], op + '\n', timeout=120)
    frames = [l.strip() for l in err.splitlines() if re.search(r'#\d+ .* in ipr::', l)]
    head = [l for l in err.splitlines() if 'runtime error' in l or 'ERROR: AddressSanitizer' in l or 'SUMMARY' in l]
    return '\n'.join(head[:4] + frames[:6])


def judge_all(res, probe, ops, model_kinds, timeout):
    blocks, rcs, err = run_probe(probe, ops, timeout)
    model = model_answers(ops)
    J = Judge(res, model_kinds)
    for op in ops:
        e = echo_of(op)
        impl = blocks.get(e)
        if op.startswith(('state', 'hist')):
            J.state(op, impl, model.get(e))
        elif op.startswith('lookup'):
            J.lookup(op, impl, model.get(e))
        else:
            J.seq(op, impl, model.get(e))
    J.frame()
    if any(rc != 0 for rc in rcs) and not res.violations:
        J.violation('crash:probe', 'c14probe itself stopped (exit codes %s)\n%s' % (rcs, err[-2000:]), '\n'.join(ops[:5]))
    return J, blocks


class _Collector:
    """Stands in for Result during a replay: remembers violations, writes nothing."""
    def __init__(self):
        self.violations = []

    def violation(self, key, description, replay_text, found_input=True):
        self.violations.append((key, description, None, found_input))


def run(tier):
    res = C.Result(PID, tier)
    rng = random.Random(C.seed() * 104729 + 14)
    ok, info, detail = C.prove(res, PID)
    probe = build_probe()
    model_kinds = read_model_kinds()
    kinds, crashed, err = read_kinds(probe)
    for name, ans in crashed:
        res.violation('crash:make:' + name, 'building a node of kind %s through its factory died: %s\n%s' % (name, ans, err[-1500:]),
                      'state %s -' % name)
    for name, links in kinds.items():
        if name in model_kinds and [(n, a) for n, a, _ in links] != model_kinds[name][0]:
            res.violation('correspondence:links:' + name, 'kind %s: the probe sets links %s, the model table declares %s'
                          % (name, links, model_kinds[name][0]), 'correspondence: link list of ' + name, found_input=False)
    unmodelled_kinds = sorted(k for k in kinds if k not in model_kinds)
    not_probed = sorted(k for k in model_kinds if k not in kinds and not any(k == n for n, _ in crashed))
    for k in not_probed:
        res.violation('correspondence:kind:' + k, 'the model table has kind %s, the probe does not build it' % k,
                      'correspondence: kind ' + k, found_input=False)
    ops = state_ops(kinds, tier, rng) + seq_patterns(tier, rng) + lookup_ops(tier, rng)
    J, blocks = judge_all(res, probe, ops, model_kinds, 600 if tier == 'quick' else 3000)
    for key, desc, path, found in res.violations:          # attach the sanitizer's own words to crash reports
        if key.startswith('crash:') and path:
            op = [l for l in open(path).read().splitlines() if l and not l.startswith('#')][0]
            with open(path, 'a') as f:
                f.write('# ' + crash_detail(probe, op).replace('\n', '\n# ') + '\n')
    for kind, accs in sorted(J.stale.items()):
        res.violation('correspondence:rows:' + kind, 'the model has rows %s for kind %s that the universal observer never printed'
                      % (sorted(accs), kind), 'correspondence: accessor rows of ' + kind, found_input=False)
    if not ok:
        res.proof_broken('IprProps.C14', detail)

    nstate = sum(1 for o in ops if o.startswith('state'))
    res.cov['traces_validated_against_impl'] = len(ops)
    res.cov['node_kinds_swept'] = len(kinds)
    res.cov['link_states_swept'] = nstate
    res.cov['assignment_histories'] = sum(1 for o in ops if o.startswith('hist'))
    res.cov['sequence_cases'] = sum(1 for o in ops if o.startswith('seq'))
    res.cov['lookup_cases'] = sum(1 for o in ops if o.startswith('lookup'))
    res.cov['kinds_swept_as_second_declaration_under_a_name_taken_by_another_kind'] = sum(1 for k in kinds if '#after-' in k)
    res.cov['accessor_observations'] = dict(J.outcomes)
    res.cov['links_per_kind_distribution'] = {str(n): sum(1 for l in kinds.values() if len(l) == n) for n in range(0, 7)}
    res.cov['unmodelled_kinds'] = unmodelled_kinds
    res.cov['unmodelled_accessors'] = {k: sorted(v) for k, v in sorted(J.unmodelled.items()) if v}
    res.cov['exhaustive'] = True
    res.cov['exhaustive_over'] = 'every kind of the probe registry x every combination of link states x every accessor the universal observer knows'
    for o in ('state Var 10110', 'state For 1012', 'state Fundecl 20000', 'state Template#secondary#after-Fundecl 000000', 'seq ref uusns',
              'seq typedref spus', 'seq warehouse-product us', 'lookup bases sas', 'lookup general srs'):
        b = blocks.get(echo_of(o))
        if b:
            res.sample({'op': o, 'impl': b[0][:600]})
    res.assumptions += [
        'PARTIAL: undefined behaviour is observed by ASan+UBSan (-fno-sanitize-recover=all) on the swept states only; it is not a theorem',
        'operands given to the factories are complete nodes (typed, named); only the delegating accessors are swept with an incomplete operand',
        'links are set the way a client does: public data members of the impl classes (master declaration data for home region, linkage, definition)',
        'which accessors exist is decided by harness/observe.hxx; look-ups by name are exercised by the `lookup` ops only (five scope kinds, '
        'members with own / repeated / unreadable names); the `X#after-Y` kinds reuse the KindSpec of X (Outcome.sweptKinds)',
    ]
    return res.finish(info, rule='each op runs in a forked child of the initialised probe; `state K d1..dn` builds a fresh node of kind K, puts link i '
                      'in state di, observes every accessor; `hist` applies a random assignment history; `seq` exercises one Sequence '
                      'implementation on one slot pattern; outcomes are compared with the Lean model field by field; a trace is one op')


def replay(path):
    ops = [l.strip() for l in open(path) if l.strip() and not l.startswith(('#', 'correspondence:', 'theorem'))]
    ops = [o for o in ops if o.split()[0] in ('state', 'hist', 'seq', 'optional', 'lookup')]
    C.lean_build(['model_c14'])
    probe = build_probe()
    if not ops:
        print('replay: the file names no executable input (a theorem or a correspondence): re-run the check')
        return 1
    res = _Collector()
    J, blocks = judge_all(res, probe, ops, read_model_kinds(), 600)
    model = model_answers(ops)
    for o in ops:
        e = echo_of(o)
        print('%s\n  impl : %s\n  model: %s' % (o, (blocks.get(e) or ('<none>',))[0], model.get(e)))
        if blocks.get(e) and blocks[e][0].startswith('!CRASH'):
            print('  ' + crash_detail(probe, o).replace('\n', '\n  '))
    if res.violations:
        for key, desc, _, _ in res.violations:
            print('  -> %s: %s' % (key, desc.splitlines()[0][:300]))
        print('VIOLATION property=C14 replay=%s' % path)
        return 1
    print('replay: property holds on this input')
    return 0
