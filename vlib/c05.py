"""C05 — node identity is stable: nodes never move, never silently change, never alias (DESIGN.md §4 C05)."""
import os, random, re, time
from . import common as C

PID = 'C05'
MANIFEST = dict(
    text='Theorems C05_* (lean/IprProps/C05.lean) prove over EVERY history of factory calls, member additions, link settings and look-ups of '
         'the store model that what is observable through a node allocated earlier only grows (equal on operands / type / parts, '
         'links gained, member sequences extended at their end), that a step changes no observation outside the records it appends '
         'to or links, that every generative constructor (the make_ family except literals and template-ids, declarations, '
         'parameters, enumerators, bases, handlers) returns an id never allocated before, that a unified request returns a node '
         'built from exactly its normalised key (so two requests alias only on equal keys, never with a generative node; linkages, calling '
         'conventions and transfers included: get_transfer normalises to the transfer of the convention / linkage alone, a function or '
         'as-type requested with a transfer equal to the natural one is the plain node), that no answer dangles, and that what '
         'scope[name][type] answered once stays the answer whatever is appended afterwards (a parameter list / enumeration answers the FIRST '
         'member of a name). The model is tied to impl::Lexicon by long random histories on the real library in which the universal '
         'observer re-reads every node ever seen after every step (with growth bursts into one farm / deque / tree / string pool), every '
         'linkage / convention / transfer and every look-up answered so far is re-asked, and the answers and the set of changed nodes are '
         'compared with the model. Words reach the library as const char8_t* into a reused token buffer, as views into heap buffers and as '
         'temporaries, all overwritten / freed when the call is over; dead stack frames are overwritten after every call and stay poisoned '
         '(ASan detect_stack_use_after_return). PARTIAL: relocation of storage is runtime behaviour '
         'the model cannot exhibit; it is covered by re-fetching every member at its index, by address-based naming and by ASan. Linkages, '
         'conventions and transfers are not Nodes: the universal observer shows them by value inside the types that carry them; their identity '
         '(same object as before, an object the Lexicon handed out) is checked by the probe itself.',
    note='Lean kernel; axioms propext/Classical.choice/Quot.sound; hand-written model tied by correspondence on generated histories; '
         'harness c05probe.cxx + observe.hxx, ASan (detect_stack_use_after_return=1)/UBSan, g++; std::forward_list/deque/vector/map represented '
         'by their specification; look-ups in base-class lists and handler regions are re-asked by the probe but not modelled.',
    technique='Lean 4 theorems (invariants over all histories) + differential correspondence with address re-checks under ASan',
    ref='§4 C05')

GROWTH_FIELDS = ('type', 'region', 'bindings', 'scope', 'elements', 'members', 'bases', 'handlers', 'body', 'home_region',
                 'lexical_region', 'parameters', 'exception', 'operand')
NEVER_FRESH = ('make_literal', 'make_literal_s', 'make_template_id')           # the two make_ documented to unify
FAMILY = {'get_identifier_s': 'get_identifier', 'get_label': 'get_symbol', 'get_this': 'get_symbol', 'get_literal': 'make_literal',
          'make_literal_s': 'make_literal', 'get_template_id': 'make_template_id',
          'get_transfer_from_linkage': 'get_transfer', 'get_transfer_from_convention': 'get_transfer',     # get_transfer normalises
          'get_function_x': 'get_function', 'get_as_type_x': 'get_as_type'}     # a transfer equal to the natural one: the plain node
NOT_INJECTIVE = ('get_qualified', 'get_function_x', 'get_as_type_x')     # different operands as written may be one request
MEMBER_OPS = ('decl', 'param', 'mparam', 'enumerator', 'base', 'handler')
# dead stack frames stay poisoned: a reference the library keeps to a by-value parameter / a temporary is reported when read
ASAN = 'detect_leaks=0:abort_on_error=0:allocator_may_return_null=1:detect_stack_use_after_return=1'
LINKAGE_WORDS = ['C', 'C++', 'Java', 'Java', 'Fortran', 'Ada', 'Rust']
CONVENTION_WORDS = ['', '', '__cdecl', '__fastcall', '__stdcall', '__vectorcall', '__thiscall']

SUPERS = {
    'String': [], 'Identifier': ['Name'], 'Name': [],
    'Type': ['Expr'], 'Product': ['Type'], 'Sum': ['Type'], 'Function': ['Type'], 'Forall': ['Type'],
    'Class': ['Udt'], 'Udt': ['Type'], 'Enum': ['Type'], 'Closure': ['Udt'],
    'Expr': [], 'Xlist': ['Expr'], 'Enclosure': ['Expr'], 'Construction': ['Expr'], 'Scope_ref': ['Expr'],
    'Stmt': ['Expr'], 'Block': ['Stmt'], 'HBlock': ['Stmt'], 'Decl': ['Stmt'], 'Var': ['Decl'], 'Field': ['Decl'],
    'Enumerator': ['Decl'], 'Param': ['Decl'], 'Handler': ['Stmt'],
    'Mapping': ['Expr'], 'Lambda': ['Expr'], 'Requires': ['Expr'], 'Where': ['Expr'],
    'HRegion': ['Region'], 'Region': [], 'Scope': ['Expr'], 'DScope': ['Scope'], 'Plist': ['Expr'], 'Base': ['Decl'],
    'Break': [], 'Continue': [], 'Loop': [], 'For': [], 'For_in': [],     # become Stmt once their `stmt` link is set
    'Id_expr': ['Expr'], 'Classic': ['Expr'], 'Pushable': ['Expr'], 'ClassicPushable': ['Classic', 'Pushable'],
}
PUSHABLE = set('''make_address make_complement make_deref make_alignof make_sizeof make_args_cardinality make_typeid make_not
 make_post_increment make_post_decrement make_pre_increment make_pre_decrement make_throw make_unary_minus make_unary_plus
 make_expansion make_noexcept make_cast make_const_cast make_dynamic_cast make_reinterpret_cast make_static_cast make_phantom
 make_phantom_t make_literal make_literal_s get_literal make_plus make_minus make_mul make_div make_assign make_comma make_and
 make_or make_equal make_less'''.split())
CLASSIC = {'make_plus', 'make_minus', 'make_mul', 'make_call', 'make_address', 'make_deref', 'make_assign', 'make_not'}
SORT_OF_LETTER = {'T': 'Type', 'E': 'Expr', 'N': 'Name', 'I': 'Identifier', 'S': 'String', 'R': 'Region', 'P': 'Product', 'HR': 'HRegion'}
PARTS = {   # sort -> accessor -> sort of the part
    'Class': {'region': 'HRegion', 'scope': 'DScope'}, 'Udt': {'region': 'HRegion', 'scope': 'DScope'},
    'Closure': {'region': 'HRegion', 'scope': 'DScope'}, 'Enum': {'region': 'Region', 'scope': 'Scope'},
    'HRegion': {'bindings': 'DScope'}, 'Region': {'bindings': 'Scope'}, 'Scope': {'type': 'Product'}, 'DScope': {'type': 'Product'},
    'Block': {'region': 'HRegion'}, 'HBlock': {'region': 'HRegion'},
    'Mapping': {'parameters': 'Plist'}, 'Lambda': {'parameters': 'Plist'}, 'Requires': {'parameters': 'Plist'},
    'Plist': {'region': 'Region', 'type': 'Product'}, 'Xlist': {'type': 'Product'}, 'Where': {'attendant': 'DScope'},
    'Handler': {'exception': 'Decl', 'body': 'HBlock'}, 'Base': {'home_region': 'Region'},
}
LINKS = {   # sort -> [(slot, operand sort, settles the node as a statement?)]
    'For': [('init', 'Expr', False), ('cond', 'Expr', False), ('inc', 'Expr', False), ('stmt', 'Stmt', True)],
    'For_in': [('var', 'Var', False), ('seq', 'Expr', False), ('stmt', 'Stmt', True)],
    'Loop': [('control', 'Expr', False), ('stmt', 'Expr', True)],
    'Break': [('stmt', 'Stmt', True)], 'Continue': [('stmt', 'Stmt', True)],
    'Mapping': [('body', 'Expr', False)], 'Var': [('init', 'Expr', False)], 'Field': [('init', 'Expr', False)],
    'Enumerator': [('init', 'Expr', False)], 'Param': [('init', 'Expr', False)], 'Id_expr': [('decls', 'Expr', False)],
    'Enum': [('underlying', 'Type', False), ('id', 'Name', False)], 'Class': [('id', 'Name', False)],
    'Udt': [('id', 'Name', False)], 'Closure': [('id', 'Name', False)], 'Classic': [('impl', 'Expr', False)],
}


def closure(sort):
    out, todo = [], [sort]
    while todo:
        s = todo.pop()
        if s not in out:
            out.append(s)
            todo += SUPERS.get(s, [])
    return out


def factory_table(probe):
    rc, out, err = C.run_exe(probe, ['list'], '')
    tab = {}
    for ln in out.splitlines():
        m = re.match(r'F (\S+) result=(\S+) sorts=(.*)', ln)
        if m:
            tab[m.group(1)] = (m.group(2), [] if m.group(3) == '-' else m.group(3).split())
    if len(tab) < 100:
        raise C.BuildError('c05probe list printed %d factories: %s' % (len(tab), err[-500:]))
    return tab


def hexs(s):
    return '"' + s.encode().hex()


# --------------------------------------------------------------------------------------------------------------- generator

class Gen:
    """Random, well-sorted histories.  Keeps a symbolic picture (sorts, parts, which names a scope uses for which kind) so that
    every op is one a client may legally issue; operands are references `r<i>` to the result of line i."""

    def __init__(self, rng, table):
        self.rng, self.table = rng, table
        self.ops = []
        self.pool = {}                      # sort -> [line index]
        self.sort = {}                      # line index -> sort
        self.parts = {}                     # line index -> {accessor: line index of the part op}
        self.links_set = set()              # (canonical object, slot)
        self.base_types = set()             # canonical objects used as the type of a base-class subobject
        self.canon = {}                     # line index -> canonical object id (parts fetched twice are the same object)
        self.scope_names = {}               # canonical scope -> {spelling: (kind, [type refs])}
        self.idents = []                    # (line index, spelling)
        self.nwh = 0
        self.wh_live = []
        self.words = 0
        self.counts = {}
        self.fac_by_result = {}
        self.repeated = set()               # factories whose call was already repeated at once
        self.anon = None                    # line index of the identifier "" (unnamed parameters all share it)
        self.hmembers = {}                  # canonical homogeneous scope -> [(name ref, type ref)]
        self.hroute = {}                    # canonical homogeneous scope -> (handle of the container, its sort)
        self.scope_route = {}               # canonical general scope -> handle through which declarations were entered
        self.scope_handle = {}              # canonical scope -> line index of a handle of the Scope node itself

    def emit(self, line, sort=None, canon=None):
        i = len(self.ops)
        self.ops.append(line)
        k = line.split()[0]
        self.counts[k] = self.counts.get(k, 0) + 1
        if sort:
            self.sort[i] = sort
            for s in closure(sort):
                self.pool.setdefault(s, []).append(i)
            self.canon[i] = canon if canon is not None else ('o', i)
        return i

    def pick(self, sort):
        p = self.pool.get(sort)
        if not p:
            return None
        # favour recent nodes a little, but keep old ones in play (stability is about old nodes)
        return p[int(len(p) * self.rng.random() ** 0.7)] if self.rng.random() < 0.5 else self.rng.choice(p)

    def word(self):
        self.words += 1
        r = self.rng.random()
        if r < 0.25 and self.words > 8:
            n = self.rng.randrange(1, self.words)          # a spelling used before: unification
        else:
            n = self.words
        return 'zw%d' % n if n % 7 else 'zw%d' % n + 'x' * (n % 40)   # a few long spellings

    # -- bootstrap: the operands everything else is built from
    def bootstrap(self):
        self.root = self.emit('root', 'HRegion')
        for k in ('int', 'char', 'bool', 'void', 'long', 'double'):
            self.emit('k ' + k, 'Type')
        for k in ('true', 'false', 'nullptr'):
            self.emit('k ' + k, 'Expr')
        for _ in range(6):
            self.new_ident()
        self.anon = self.emit('mk get_identifier ' + hexs(''), 'Identifier')      # the name of every unnamed parameter
        self.idents.append((self.anon, ''))
        for _ in range(3):
            self.emit('mk get_string ' + hexs(self.word()), 'String')
        self.emit('mk make_phantom', 'Pushable')
        self.emit('mk make_expr_list', 'Xlist')
        # the first product / sum of the Lexicon is requested through a still EMPTY warehouse that the client fills afterwards
        self.warehouse_product('get_product', 0)
        self.warehouse_product('get_sum', 0)
        self.warehouse_product('get_product')
        self.warehouse_product('get_sum')
        p = self.pick('Product')
        self.emit('mk get_function r%d r%d' % (p, self.pick('Type')), 'Function')
        self.emit('mk get_forall r%d r%d' % (p, self.pick('Type')), 'Forall')
        # an extended language linkage, a calling convention, the three kinds of transfer, and types that carry them
        java = self.emit('mk get_linkage ' + hexs('Java'), 'Linkage')
        cxx = self.emit('mk get_linkage ' + hexs('C++'), 'Linkage')
        fast = self.emit('mk get_calling_convention ' + hexs('__fastcall'), 'Convention')
        nat = self.emit('mk get_calling_convention ' + hexs(''), 'Convention')
        xs = [self.emit('mk get_transfer_from_linkage r%d' % java, 'Transfer'),
              self.emit('mk get_transfer_from_convention r%d' % fast, 'Transfer'),
              self.emit('mk get_transfer r%d r%d' % (java, fast), 'Transfer'),
              self.emit('mk get_transfer r%d r%d' % (cxx, fast), 'Transfer'),       # = the transfer of the convention alone
              self.emit('mk get_transfer r%d r%d' % (java, nat), 'Transfer'),       # = the transfer of the linkage alone
              self.emit('mk get_transfer r%d r%d' % (cxx, nat), 'Transfer')]        # equals the natural transfer
        for x in xs:
            self.emit('mk get_function_x r%d r%d r%d' % (p, self.pick('Type'), x), 'Function')
        self.emit('mk get_as_type_x r%d r%d' % (self.pick('Expr'), xs[0]), 'Type')

    def new_ident(self):
        w = self.word()
        i = self.emit('mk get_identifier ' + hexs(w), 'Identifier')
        self.idents.append((i, w))
        return i, w

    def warehouse_product(self, fac, size=None):
        w = self.nwh
        self.nwh += 1
        self.emit('wh_new')
        self.wh_live.append(w)
        members = []
        for _ in range(self.rng.randint(0, 4) if size is None else size):
            # a member may well repeat an earlier one: (int, char*, int)
            t = self.rng.choice(members) if members and self.rng.random() < 0.3 else self.pick('Type')
            members.append(t)
            self.emit('wh_push W%d r%d' % (w, t))
        r = self.emit('mk %s W%d' % (fac, w), 'Product' if fac == 'get_product' else 'Sum')
        # the OTHER constructor asked for the same members through a Warehouse of its own (the two share nothing a client can see: a
        # product stays what it was whatever sums are requested, and conversely), one time in three
        if members and self.rng.random() < 0.34:
            other = 'get_sum' if fac == 'get_product' else 'get_product'
            w2 = self.nwh
            self.nwh += 1
            self.emit('wh_new')
            self.wh_live.append(w2)
            for t in members:
                self.emit('wh_push W%d r%d' % (w2, t))
            self.emit('mk %s W%d' % (other, w2), 'Product' if other == 'get_product' else 'Sum')
            self.emit('obs')
        return r

    # -- one random op
    def operand(self, letter):
        rng = self.rng
        if letter == 'w':
            return hexs(self.word())
        if letter == 'lw':
            return hexs(rng.choice(LINKAGE_WORDS) if rng.random() < 0.8 else self.word())
        if letter == 'cw':
            return hexs(rng.choice(CONVENTION_WORDS) if rng.random() < 0.8 else self.word())
        if letter == 'q':
            # a data operand (qualifier set, phase set, kind): mostly small values, also none at all and sets with many members
            return '#%d' % (rng.randint(1, 7) if rng.random() < 0.7 else rng.choice([0, 0, 8, 12, 0x40, 0x60, 0xf0, 0x7ff, 0x3ff, 0x555]))
        if letter == 'W':
            return None
        opt = letter.startswith('o')
        if opt:
            letter = letter[1:]
            if rng.random() < 0.35:
                return '-'
        sort = SORT_OF_LETTER.get(letter, letter)
        i = self.pick(sort)
        if i is None:
            return '-' if opt else None
        return 'r%d' % i

    def op_factory(self):
        rng = self.rng
        name = rng.choice(self.fac_names)
        result, sorts = self.table[name]
        if name in ('get_product', 'get_sum'):
            if self.wh_live and rng.random() < 0.5:
                w = rng.choice(self.wh_live)               # the same warehouse again (maybe extended meanwhile)
                return self.emit('mk %s W%d' % (name, w), result)
            return self.warehouse_product(name)
        args = []
        for s in sorts:
            a = self.operand(s)
            if a is None:
                return None
            args.append(a)
        if name == 'get_qualified' and args[0] == '#0':
            args[0] = '#%d' % rng.randint(1, 7)             # (the empty set is asked for separately, below)
        if name == 'get_qualified' and rng.random() < 0.04:
            args[0] = '#0'                                  # no qualifier: the library raises
            return self.emit('mk %s %s' % (name, ' '.join(args)))
        sort = result
        if name in PUSHABLE:
            sort = 'ClassicPushable' if name in CLASSIC else 'Pushable'
        elif name in CLASSIC:
            sort = 'Classic'
        if name == 'make_id_expr':
            sort = 'Id_expr'            # make_id_expr(decl) records its resolution at construction (src/impl.cxx:1856-1861):
                                        # not a link the client sets later, so `make_id_expr_d` stays a plain Expr
        if name in ('make_union', 'make_namespace'):
            sort = 'Udt'
        line = ('mk %s %s' % (name, ' '.join(args))).strip()
        r = self.emit(line, sort)
        # the very same call again, at once: a unified factory answers the same node, a generative one a node never returned before
        # (nothing may be remembered from the previous call)
        # -- done for EVERY factory the first time it is called, and for one call in six afterwards
        if r is not None and name not in ('make_union', 'make_namespace', 'make_class', 'make_enum', 'make_closure') \
                and (name not in self.repeated or rng.random() < 0.16):
            self.repeated.add(name)
            self.emit(line, sort)
        # the same factory applied to what it has just returned, every other argument unchanged, twice over: f(f(f(x, a), a), a).
        # An operand that happens to be a node of the same kind, carrying the same data, is one more operand.
        if r is not None and sort and 'Expr' in closure(sort) and rng.random() < 0.2:
            slots = [k for k, sl in enumerate(sorts) if sl in ('E', 'oE')]
            if slots:
                k = rng.choice(slots)
                cur = r
                for _ in range(2):
                    a2 = list(args)
                    a2[k] = 'r%d' % cur
                    cur = self.emit(('mk %s %s' % (name, ' '.join(a2))).strip(), sort)
        return r

    def nesting_sweep(self):
        """Every factory that takes an expression and returns one, applied to its own result with every other argument unchanged:
        f(x, a), f(f(x, a), a), f(f(f(x, a), a), a).  Generative: three new nodes, the earlier ones untouched; unified: three nodes too
        (the arguments differ)."""
        for name in sorted(self.table):
            result, sorts = self.table[name]
            slots = [k for k, sl in enumerate(sorts) if sl in ('E', 'oE')]
            if not slots or 'Expr' not in closure(result) or name in ('get_product', 'get_sum'):
                continue
            args = []
            for sl in sorts:
                a = self.operand(sl)
                args.append(a)
            if any(a is None for a in args):
                continue
            if name == 'get_qualified' and args[0] == '#0':
                continue
            sort = 'Classic' if name in CLASSIC else result
            k = slots[0]
            if args[k] == '-':
                i = self.pick('Expr')
                if i is None: continue
                args[k] = 'r%d' % i
            for _ in range(3):
                cur = self.emit(('mk %s %s' % (name, ' '.join(args))).strip(), sort)
                args = list(args)
                args[k] = 'r%d' % cur
            self.emit('obs')

    def decl_scope(self, i):
        """Canonical identity of the scope that declarations through handle i go to (None: not a declaration container)."""
        sort, c = self.sort.get(i), self.canon.get(i)
        if sort == 'HRegion':
            return ('sc', c)
        if sort in ('Class', 'Udt', 'Closure'):
            return ('sc', ('p', c, 'region'))
        if sort == 'DScope':
            return ('sc', c[1]) if c[0] == 'p' and c[2] == 'bindings' else ('sc', c)
        return None

    def op_part(self):
        rng = self.rng
        sort = rng.choice(list(PARTS))
        x = self.pick(sort)
        if x is None or self.sort.get(x) not in PARTS:
            return None
        acc, psort = rng.choice(list(PARTS[self.sort[x]].items()))
        cx = self.canon[x]
        canon = ('p', cx, acc)
        # the same object reached by two routes is one object: udt.scope == udt.region.bindings
        if acc == 'scope':
            canon = ('p', ('p', cx, 'region'), 'bindings')
        return self.emit('part r%d %s' % (x, acc), psort, canon)

    def op_decl(self):
        rng = self.rng
        c = self.pick(rng.choice(['HRegion', 'HRegion', 'Udt', 'DScope']))
        if c is None or self.decl_scope(c) is None:
            return None
        scope = self.decl_scope(c)
        used = self.scope_names.setdefault(scope, {})
        if used and rng.random() < 0.4:
            w = rng.choice(list(used))                      # redeclaration / overload of a name of this scope
            n = next(i for i, s in self.idents if s == w)
            kind, types = used[w]
            if kind.endswith('_template'):                  # a template's name is shared by its primary and its secondary declarations
                kind = rng.choice(['primary_template', 'secondary_template'])
            t = rng.choice(types) if rng.random() < 0.6 else None
        else:
            n, w = rng.choice(self.idents) if rng.random() < 0.6 else self.new_ident()
            kind, types = used.get(w, (rng.choice(['var', 'var', 'field', 'bitfield', 'typedecl', 'fundecl', 'primary_template',
                                                   'secondary_template']), []))
            t = None
        if t is None:
            t = self.pick({'fundecl': 'Function', 'primary_template': 'Forall', 'secondary_template': 'Forall'}.get(kind, 'Type'))
            if t is None:
                return None
        used[w] = (kind, types + [t])
        self.scope_route.setdefault(scope, c)
        sort = {'var': 'Var', 'field': 'Field'}.get(kind, 'Decl')
        return self.emit('decl r%d %s r%d r%d' % (c, kind, n, t), sort)

    def hscope_of(self, x):
        """Canonical identity of the homogeneous scope behind a parameter list / mapping / enumeration handle."""
        sort, c = self.sort.get(x), self.canon[x]
        if sort in ('Mapping', 'Lambda', 'Requires'):
            c = ('p', c, 'parameters')
        return ('p', ('p', c, 'region'), 'bindings')

    def member_name(self, scope):
        """Names repeat inside one parameter list / enumeration: unnamed members all share the identifier "", and a name
        already used there is used again."""
        r = self.rng.random()
        used = self.hmembers.get(scope, [])
        if r < 0.3:
            return self.anon
        if r < 0.5 and used:
            return self.rng.choice(used)[0]
        return self.rng.choice(self.idents)[0]

    def added(self, scope, x, n, t):
        self.hmembers.setdefault(scope, []).append((n, t))
        self.hroute[scope] = x
        if self.rng.random() < 0.3:
            self.lookup_hom(scope, n, t if self.rng.random() < 0.7 else self.rng.choice(self.hmembers[scope])[1])

    def op_member(self):
        rng = self.rng
        k = rng.choice(['param', 'mparam', 'enumerator', 'base', 'handler', 'push', 'push', 'stmt'])
        n = rng.choice(self.idents)[0]
        if k == 'param':
            x = self.pick('Plist')
            if x is None:
                return None
            sc = self.hscope_of(x)
            n, t = self.member_name(sc), self.pick('Type')
            i = self.emit('param r%d r%d r%d' % (x, n, t), 'Param')
            self.added(sc, x, n, t)
            return i
        if k == 'mparam':
            x = self.pick('Mapping')
            if x is None or self.sort.get(x) != 'Mapping':
                return None
            sc = self.hscope_of(x)
            n, t = self.member_name(sc), self.pick('Type')
            i = self.emit('mparam r%d r%d r%d' % (x, n, t), 'Param')
            self.added(sc, x, n, t)
            return i
        if k == 'enumerator':
            x = self.pick('Enum')
            if x is None:
                return None
            sc = self.hscope_of(x)
            n = self.member_name(sc)
            i = self.emit('enumerator r%d r%d' % (x, n), 'Enumerator')
            self.added(sc, x, n, x)                          # the type of an enumerator is its enumeration
            return i
        if k == 'base':
            x, t = self.pick('Class'), self.pick('Type')
            if x is None:
                return None
            self.base_types.add(self.canon[t])
            return self.emit('base r%d r%d' % (x, t), 'Base')
        if k == 'handler':
            x = self.pick('Block')
            return x is not None and self.emit('handler r%d r%d r%d' % (x, n, self.pick('Type')), 'Handler')
        if k == 'push':
            x, e = self.pick('Xlist'), self.pick('Pushable')
            return x is not None and e is not None and self.emit('push r%d r%d' % (x, e))
        x = self.pick('Block') if rng.random() < 0.7 else self.pick('HBlock')
        e = self.pick('Expr')
        return x is not None and e is not None and self.emit('stmt r%d r%d' % (x, e))

    # -- look-ups: scope[name][type]
    def part_handle(self, x, acc):
        """Handle of part `acc` of handle x (one already emitted, else a new `part` op)."""
        cx = self.canon[x]
        canon = ('p', cx, acc) if acc != 'scope' else ('p', ('p', cx, 'region'), 'bindings')
        for i, c in self.canon.items():
            if c == canon and i in self.sort:
                return i
        return self.emit('part r%d %s' % (x, acc), PARTS[self.sort[x]][acc], canon)

    def hscope_handle(self, scope):
        if scope not in self.scope_handle:
            x = self.hroute[scope]
            sort = self.sort[x]
            if sort == 'Enum':
                h = self.part_handle(x, 'scope')
            else:
                if sort in ('Mapping', 'Lambda', 'Requires'):
                    x = self.part_handle(x, 'parameters')
                h = self.part_handle(self.part_handle(x, 'region'), 'bindings')
            self.scope_handle[scope] = h
        return self.scope_handle[scope]

    def lookup_hom(self, scope, n, t):
        return self.emit('lookup r%d r%d r%d' % (self.hscope_handle(scope), n, t))

    def op_lookup(self):
        rng = self.rng
        if rng.random() < 0.6 and self.hmembers:
            scope = rng.choice(sorted(self.hmembers, key=repr))
            mem = self.hmembers[scope]
            if rng.random() < 0.75:
                n, t = rng.choice(mem)[0], rng.choice(mem)[1]
            else:
                n, t = rng.choice(self.idents)[0], self.pick('Type')
            return self.lookup_hom(scope, n, t)
        routes = [sc for sc in sorted(self.scope_route, key=repr) if self.scope_names.get(sc)]
        if not routes:
            return None
        scope = rng.choice(routes)
        if scope not in self.scope_handle:
            c = self.scope_route[scope]
            sort = self.sort[c]
            self.scope_handle[scope] = c if sort == 'DScope' else self.part_handle(c, 'bindings' if sort == 'HRegion' else 'scope')
        used = self.scope_names[scope]
        if rng.random() < 0.8:
            w = rng.choice(sorted(used))
            n = next(i for i, s in self.idents if s == w)
            t = rng.choice(used[w][1]) if rng.random() < 0.7 else self.pick('Type')
        else:
            n, t = rng.choice(self.idents)[0], self.pick('Type')
        return self.emit('lookup r%d r%d r%d' % (self.scope_handle[scope], n, t))

    # -- linkages, calling conventions, transfers and the types that carry them
    def op_transfer(self):
        rng = self.rng
        k = rng.randrange(8)
        if k == 0 or not self.pool.get('Linkage'):
            return self.emit('mk get_linkage ' + self.operand('lw'), 'Linkage')
        if k == 1 or not self.pool.get('Convention'):
            return self.emit('mk get_calling_convention ' + self.operand('cw'), 'Convention')
        if k == 2:
            return self.emit('mk get_transfer_from_linkage r%d' % self.pick('Linkage'), 'Transfer')
        if k == 3:
            return self.emit('mk get_transfer_from_convention r%d' % self.pick('Convention'), 'Transfer')
        if k == 4 or not self.pool.get('Transfer'):
            return self.emit('mk get_transfer r%d r%d' % (self.pick('Linkage'), self.pick('Convention')), 'Transfer')
        if k < 7:
            return self.emit('mk get_function_x r%d r%d r%d' % (self.pick('Product'), self.pick('Type'), self.pick('Transfer')), 'Function')
        return self.emit('mk get_as_type_x r%d r%d' % (self.pick('Expr'), self.pick('Transfer')), 'Type')

    def op_set(self):
        rng = self.rng
        sort = rng.choice(list(LINKS))
        x = self.pick(sort)
        if x is None or self.sort.get(x) not in LINKS:
            return None
        slot, osort, settles = rng.choice(LINKS[self.sort[x]])
        key = (self.canon[x], slot)
        if key in self.links_set:
            return None
        if slot == 'id' and self.canon[x] in self.base_types:
            return None     # Base_type::name() forwards to type().name() (include/ipr/interface:1821): naming a class AFTER it was
                            # used as a base type changes what the base object reports -- a derived accessor the model does not mirror
        v = self.pick(osort)
        if v is None or v == x:
            return None
        self.links_set.add(key)
        i = self.emit('set r%d %s r%d' % (x, slot, v))
        if settles:
            for s in closure('Stmt'):
                self.pool.setdefault(s, []).append(x)
        return i

    def op_warehouse(self):
        if not self.wh_live:
            return None
        w = self.rng.choice(self.wh_live)
        if self.rng.random() < 0.15 and len(self.wh_live) > 2:
            self.wh_live.remove(w)
            return self.emit('wh_drop W%d' % w)
        return self.emit('wh_push W%d r%d' % (w, self.pick('Type')))

    def op_alias_probe(self):
        """Requests that the code maps to the same node by different routes."""
        rng = self.rng
        k = rng.randrange(6)
        if k == 0:
            t = self.pick('Type')
            self.emit('mk get_this r%d' % t, 'Expr')
            i = self.emit('mk get_identifier ' + hexs('this'), 'Identifier')
            return self.emit('mk get_symbol r%d r%d' % (i, t), 'Expr')
        if k == 1:
            n = rng.choice(self.idents)[0]
            self.emit('mk get_label r%d' % n, 'Expr')
            v = self.emit('k void', 'Type')
            return self.emit('mk get_symbol r%d r%d' % (n, v), 'Expr')
        if k == 2:
            w, t = self.word(), self.pick('Type')
            self.emit('mk make_literal r%d %s' % (t, hexs(w)), 'Pushable')
            s = self.emit('mk get_string ' + hexs(w), 'String')
            self.emit('mk make_literal_s r%d r%d' % (t, s), 'Pushable')
            return self.emit('mk get_literal r%d %s' % (t, hexs(w)), 'Pushable')
        if k == 3:
            w = self.word()
            s = self.emit('mk get_string ' + hexs(w), 'String')
            self.emit('mk get_identifier_s r%d' % s, 'Identifier')
            i = self.emit('mk get_identifier ' + hexs(w), 'Identifier')
            self.idents.append((i, w))
            return i
        if k == 4:
            t = self.pick('Type')
            a, b = rng.randint(1, 7), rng.randint(1, 7)
            q = self.emit('mk get_qualified #%d r%d' % (a, t), 'Type')
            self.emit('mk get_qualified #%d r%d' % (b, q), 'Type')
            return self.emit('mk get_qualified #%d r%d' % (a | b, t), 'Type')
        e, x = self.pick('Expr'), self.pick('Xlist')
        self.emit('mk make_template_id r%d r%d' % (e, x), 'Name')
        return self.emit('mk get_template_id r%d r%d' % (e, x), 'Name')

    def history(self, nops, every_until, every_after):
        self.fac_names = sorted(self.table)
        self.bootstrap()
        self.nesting_sweep()
        self.emit('obs_all')
        last_obs = len(self.ops)
        rng = self.rng
        while len(self.ops) < nops:
            r = rng.random()
            before = len(self.ops)
            if r < 0.40:
                self.op_factory()
            elif r < 0.47:
                self.op_part()
            elif r < 0.62:
                self.op_decl()
            elif r < 0.76:
                self.op_member()
            elif r < 0.82:
                self.op_set()
            elif r < 0.87:
                self.op_warehouse()
            elif r < 0.90:
                self.op_alias_probe()
            elif r < 0.945:
                self.op_lookup()
            elif r < 0.985:
                self.op_transfer()
            else:
                if rng.random() < 0.3:
                    self.emit('unit', 'HRegion')
            if len(self.ops) == before:
                continue
            n = len(self.ops)
            if n <= every_until or n - last_obs >= every_after:
                self.emit('obs')
                last_obs = len(self.ops)
        self.emit('obs_all')

    def bursts(self, sizes):
        for kind, n in sizes:
            self.emit('burst %s #0' % kind)                 # create the store and its sentinels, observe them, then grow
            self.emit('obs')
            self.emit('burst %s #%d' % (kind, n))
            self.emit('obs')
        # the history goes on after the bursts: old nodes are still usable and still what they were
        for _ in range(40):
            self.op_factory()
            self.op_decl()
            self.op_member()
            self.op_lookup()
            self.op_transfer()
        self.emit('obs_all')


def generate(tier, rng, table):
    g = Gen(rng, table)
    if tier == 'quick':
        g.history(3000, 1500, 40)
        g.bursts([('farm', 20000), ('tree', 5000), ('pool', 40000), ('deque', 3000), ('scope', 1500), ('plist', 300), ('handlers', 60),
                  ('xlist', 20000), ('regions', 3000), ('products', 600)])
    else:
        g.history(6500, 5000, 50)
        g.bursts([('farm', 100000), ('tree', 100000), ('pool', 100000), ('deque', 100000), ('scope', 20000), ('plist', 1500),
                  ('handlers', 1500), ('xlist', 100000), ('regions', 100000), ('products', 20000)])
    return g


# --------------------------------------------------------------------------------------------------------------- trace

def split_ops(out):
    """Output of a probe/model run -> list per op of its lines (without the `.<n>` terminator)."""
    per, cur = [], []
    for ln in out.splitlines():
        if ln.startswith('.') and ln[1:].isdigit():
            per.append(cur)
            cur = []
        else:
            cur.append(ln)
    return per, cur


def seq_elems(v):
    if not (v.startswith('[') and v.endswith(']')) or ']|[' in v:
        return None
    out, cur, depth = [], '', 0
    for ch in v[1:-1]:
        if ch in '([':
            depth += 1
        if ch in ')]':
            depth -= 1
        if ch == ',' and depth == 0:
            out.append(cur)
            cur = ''
        else:
            cur += ch
    if len(v) > 2:
        out.append(cur)
    return out


def refs_of(value):
    return re.findall(r'(?<![A-Za-z0-9_])n\d+', value) if value[:1] not in '"!' else []


class Oracle:
    """The statement of C05 evaluated on the IMPLEMENTATION trace alone."""

    def __init__(self, ops):
        self.ops = ops
        self.obs = {}                # n-name -> {field: value}
        self.kind = {}
        self.t_of_n, self.n_of_t = {}, {}
        self.returned = []           # t index in order of first return
        self.keys = {}               # comparable request key -> t-name
        self.owner = {}              # t-name -> (family, generative?)
        self.pending = []            # mutations since the last round: (op index, target n, member n or None, slot or None)
        self.bursts = []             # (op index, target n)
        self.digests = {}
        self.changed_since_dump = set()
        self.result_t = {}           # op index -> t-name
        self.lookups = {}            # (scope t-name, name t-name, type t-name) -> last answer
        self.stats = dict(rounds=0, observations=0, changes=0, grown=0, links=0, generative=0, unified_old=0, unified_new=0, max_objects=0)

    def reach(self, start, depth):
        seen, frontier = {start}, [start]
        for _ in range(depth):
            nxt = []
            for n in frontier:
                for f, v in self.obs.get(n, {}).items():
                    if f in GROWTH_FIELDS:
                        for r in refs_of(v):
                            if r not in seen:
                                seen.add(r)
                                nxt.append(r)
            frontier = nxt
        return seen

    def related(self, n, target):
        return n == target or n in self.reach(target, 4) or target in self.reach(n, 2)

    def op_lines(self, i, lines):
        """Returns a violation message or None."""
        op = self.ops[i]
        w = op.split()
        res = next((l for l in lines if l.startswith('R ')), None)
        asserts = [l for l in lines if l.startswith('@')]
        for a in asserts:
            if a.startswith(('@addr=', '@stable=', '@burst=', '@xfer=', '@lookup=')) and not a.endswith('=1'):
                which = 'a member is no longer found at its address / index' if a.startswith('@addr') else \
                    'an identifier created during a growth burst no longer spells what it was made from' if a.startswith('@burst') else \
                    'a linkage / calling convention / transfer handed out earlier is not what it was, or refers to an object the Lexicon never handed out' \
                    if a.startswith('@xfer') else \
                    'what scope[name][type] answered earlier is no longer the answer although members were only appended' if a.startswith('@lookup') else \
                    'an observation changed other than by growth at the end / a link being set'
                tag = {'@xfer=': '#D xfer:', '@lookup=': '#D lookup:', '@burst=': '#D burst:'}.get(a[:a.index('=') + 1], '#D ')
                detail = ([l for l in lines if l.startswith(tag)] or [l for l in lines if l.startswith('#D ')])[:4]
                return '%s after `%s`: %s %s' % (a, op, which, ' ; '.join(d[:200] for d in detail))
        for l in lines:
            if l.startswith('#T '):
                _, t, n = l.split()
                self.t_of_n[n], self.n_of_t[t] = t, n
            elif l.startswith('#M '):
                p = l.split()
                member = p[3] if len(p) > 3 and not p[3].startswith('=') else None
                slot = p[3][1:] if len(p) > 3 and p[3].startswith('=') else None
                self.pending.append((int(p[1]), p[2], member, slot))
            elif l.startswith('#B '):
                p = l.split()
                self.bursts.append((int(p[1]), p[2]))
            elif l.startswith('#O ') and w[0] not in ('obs', 'obs_all'):
                p = l[3:].split(' ')                          # first observation, made right after the op that created the object
                self.kind[p[0]] = p[1]
                self.obs[p[0]] = dict(f.split('=', 1) for f in p[2:] if '=' in f)
        if w[0] in ('obs', 'obs_all'):
            return self.round(i, lines)
        if res is None:
            return 'no answer for `%s`' % op
        ans = res[2:]
        if w[0] == 'lookup' and ans != 'bad':
            # the same scope asked for the same name and type again: a declaration once answered stays the answer
            key = tuple(self.result_t.get(int(a[1:]), a) for a in w[1:4])
            self.stats['lookups'] = self.stats.get('lookups', 0) + 1
            self.stats['lookups_answered'] = self.stats.get('lookups_answered', 0) + (1 if ans.startswith('t') else 0)
            prev = self.lookups.get(key)
            if prev is not None and prev.startswith('t') and ans != prev:
                return '`%s` (scope %s, name %s, type %s) answered the declaration %s earlier and answers `%s` now' % ((op,) + key + (prev, ans))
            if ans.startswith('t') and ans not in self.owner:
                return '`%s` answered a node that no operation had returned before' % op
            self.lookups[key] = ans
            return None
        if ans.startswith('t'):
            self.result_t[i] = ans
            is_new = ans not in self.owner
            gen = (w[0] == 'mk' and (w[1].startswith('make_') and w[1] not in NEVER_FRESH)) or w[0] in MEMBER_OPS or w[0] == 'unit'
            if gen:
                self.stats['generative'] += 1
                if not is_new:
                    return '`%s` (a generative constructor) returned the node %s that an earlier call had already returned' % (op, ans)
                if w[0] != 'unit' and '@fresh=1' not in asserts:
                    return '`%s` (a generative constructor) returned an address that was already live (reachable from earlier nodes)' % op
            fam = FAMILY.get(w[1], w[1]) if w[0] == 'mk' else w[0]
            if w[0] == 'mk' and not gen:
                self.stats['unified_new' if is_new else 'unified_old'] += 1
                prev = self.owner.get(ans)
                if prev and (prev[1] or (prev[0] != fam and not (prev[0] in ('k', 'part', 'root') or fam in ('get_decltype', 'get_auto')))):
                    return '`%s` returned the node %s, which was created by %s `%s`' % (
                        op, ans, 'the generative' if prev[1] else 'the different factory', prev[0])
                # same factory, operands comparable as written (node names / numbers): different operands => different nodes
                if w[1] not in NOT_INJECTIVE and all(a.startswith(('r', '#')) for a in w[2:]):
                    key = (w[1],) + tuple(self.result_t.get(int(a[1:]), a) if a.startswith('r') else a for a in w[2:])
                    tab = self.keys.setdefault(w[1], {})
                    other = tab.get(ans)
                    if other is not None and other != key:
                        return '`%s` returned %s, the node returned earlier for the different request `%s`' % (op, ans, ' '.join(other))
                    tab[ans] = key
            if is_new:
                self.owner[ans] = (fam, gen)
        return None

    def round(self, i, lines):
        self.stats['rounds'] += 1
        new_obs, deltas, checkpoint = [], [], None
        for l in lines:
            if l.startswith('#O '):
                p = l[3:].split(' ')
                self.kind[p[0]] = p[1]
                self.obs[p[0]] = dict(f.split('=', 1) for f in p[2:] if '=' in f)
                new_obs.append(p[0])
            elif l.startswith('#D '):
                p = l.split(' ')
                deltas.append((p[1], p[2], p[3], p[4] if len(p) > 4 else ''))
            elif l.startswith('#H '):
                p = l.split()
                self.stats['observations'] += int(p[2])
                self.stats['max_objects'] = max(self.stats['max_objects'], int(p[2]))
            elif l.startswith('#A '):
                checkpoint = dict(x.split('=') for x in l.split()[2:])
        # apply, then judge
        for n, f, a, b in deltas:
            if f != '!shape':
                self.obs.setdefault(n, {})[f] = b
            self.changed_since_dump.add(n)
        if checkpoint is not None:
            # the digests of ALL objects (second, independent channel): an object whose digest moved between two checkpoints must
            # have had a change reported in between (the changes of THIS round included: the `#D` lines precede the `#A` line)
            for n, d in self.digests.items():
                if n in checkpoint and checkpoint[n] != d and n not in self.changed_since_dump:
                    return 'the digest of %s (%s) differs from the previous checkpoint although no change of it was reported' % (
                        n, self.kind.get(n))
            self.digests = checkpoint
            self.changed_since_dump = set()
        added = {m for _, _, m, s in self.pending if m}
        added_types = set()
        for m in added:
            added_types.update(refs_of(self.obs.get(m, {}).get('type', '')))
        grown = set()
        self.stats['changes'] += len(deltas)
        msg = None
        for n, f, a, b in deltas:
            what = '%s (%s, %s) field `%s`: `%s` -> `%s`' % (n, self.kind.get(n), self.t_of_n.get(n, 'not returned'), f, a[:160], b[:160])
            ea, eb = seq_elems(a), seq_elems(b)
            if f == '!shape':
                msg = 'the kind / accessor set of %s changed: %s -> %s' % (n, a, b)
            elif ea is not None and eb is not None:
                if not (len(ea) < len(eb) and eb[:len(ea)] == ea):
                    msg = 'a member sequence changed other than by growth at its end: ' + what
                else:
                    suffix = eb[len(ea):]
                    ok = any(self.related(n, t) for _, t in self.bursts)
                    if not ok:
                        for _, target, member, slot in self.pending:
                            if member and all(e in added or e in added_types or e == '!L' for e in suffix) and self.related(n, target):
                                ok = True
                                break
                    if not ok:
                        msg = 'a member sequence grew although the client added nothing to that container: ' + what
                    grown.add(n)
                    self.stats['grown'] += 1
            elif a in ('!L', '-'):
                # the client set a link of that node, or of a node it forwards to (Base_type::name() is type().name())
                if not any(slot and (target == n or target in self.reach(n, 2)) for _, target, _, slot in self.pending):
                    msg = 'an unset / empty accessor acquired a value although the client set no link of that node: ' + what
                self.stats['links'] += 1
            elif f in ('size', 'try_block') and re.fullmatch(r'#\d+', a) and re.fullmatch(r'#\d+', b) and int(a[1:]) < int(b[1:]):
                pass                                         # judged below: only together with a grown sequence
            else:
                msg = 'a node silently changed: ' + what
            if msg:
                break
        if not msg:
            for n, f, a, b in deltas:
                if f in ('size', 'try_block') and seq_elems(a) is None and a not in ('!L', '-') and n not in grown:
                    msg = 'a count changed without its sequence growing: %s field `%s`: %s -> %s' % (n, f, a, b)
                    break
        self.pending, self.bursts = [], []
        return msg


def check_trace(ops, out_i):
    """(index of the first op whose output violates the statement, message) or None."""
    per, rest = split_ops(out_i)
    orc = Oracle(ops)
    for i, lines in enumerate(per):
        if i >= len(ops):
            break
        m = orc.op_lines(i, lines)
        if m:
            return (i, m), orc
    return None, orc


def compared(out):
    per, _ = split_ops(out)
    return [[l for l in lines if not l.startswith(('#', '@'))] for lines in per]


# --------------------------------------------------------------------------------------------------------------- run

def run_both(probe, ops, timeout=900):
    text = '\n'.join(ops) + '\n'
    rc_i, out_i, err_i = C.run_exe(probe, [], text, timeout=timeout, env={'ASAN_OPTIONS': ASAN})
    return rc_i, out_i, err_i, text


def verdict(probe, ops, with_model=True, timeout=900):
    """('crash'|'statement'|'correspondence'|None, op index, message)"""
    rc, out_i, err_i, text = run_both(probe, ops, timeout)
    per, _ = split_ops(out_i)
    bad, orc = check_trace(ops, out_i)
    if bad:
        return 'statement', bad[0], bad[1], orc
    if rc != 0 or len(per) < len(ops):
        i = min(len(per), len(ops) - 1)
        tail = '\n'.join(l for l in err_i.splitlines() if l.strip())[-2500:]
        how = 'did not finish within %d s (a hang)' % timeout if rc == C.TIMEOUT else 'stopped (exit %s)' % rc
        return 'crash', i, 'c05probe %s in op %d `%s` of %d\n%s' % (how, i, ops[i], len(ops), tail), orc
    if with_model:
        rc_m, out_m, err_m = C.run_model('c05', text)
        ci, cm = compared(out_i), compared(out_m)
        for i in range(len(ops)):
            a = ci[i] if i < len(ci) else None
            b = cm[i] if i < len(cm) else None
            if a != b:
                return 'correspondence', i, 'implementation and model disagree at op %d `%s`:\n  impl : %s\n  model: %s' % (
                    i, ops[i], ' | '.join(a or ['<none>'])[:600], ' | '.join(b or ['<none>'])[:600]), orc
    return None, None, None, orc


def shrink(probe, ops, kind, at, timeout=900):
    """Keep line numbering (operands are line references): drop the tail, then replace ops by `nop` while the verdict stays."""
    ops = list(ops[:at + 1])
    if not ops[-1].startswith('obs'):
        ops.append('obs')
    base = [i for i, o in enumerate(ops) if not o.startswith('obs')]

    def build(keep):
        ks = set(keep)
        return [o if (i in ks or o.startswith('obs')) else 'nop' for i, o in enumerate(ops)]

    def fails(keep):
        k, _, _, _ = verdict(probe, build(keep), with_model=(kind == 'correspondence'), timeout=timeout)
        return k == kind
    if len(ops) > 4000 or not fails(base):
        return ops
    keep = C.ddmin(base, fails, max_tests=70)
    out = build(keep)
    # drop observation rounds that are not needed either (all but the last two)
    return out


def run(tier):
    res = C.Result(PID, tier)
    rng = random.Random(C.seed() * 7919 + 5)
    ok, info, detail = C.prove(res, PID)
    probe = C.build_harness('c05probe', 'asan')
    table = factory_table(probe)
    g = generate(tier, rng, table)
    ops = g.ops
    t0 = time.time()
    limit = 300 if tier == 'quick' else 3000
    kind, at, msg, orc = verdict(probe, ops, timeout=limit)
    took = time.time() - t0
    C.log('[c05] %d ops, %d rounds, %d observations in %.1fs' % (len(ops), orc.stats['rounds'], orc.stats['observations'], took))
    if kind:
        hang = kind == 'crash' and took >= limit
        # a hang is reported with the op prefix as it is (every shrinking attempt would have to wait for the time limit again)
        small = shrink(probe, ops, kind, at, timeout=max(120, int(4 * took))) if not hang else list(ops[:at + 1])
        k2, at2, msg2, _ = verdict(probe, small, with_model=(kind == 'correspondence'), timeout=max(120, int(4 * took))) if not hang else (None, None, None, None)
        if k2 == kind:
            msg = msg2
        else:
            small = ops[:at + 1] + ['obs']
        header = ''
        if kind == 'correspondence':
            header = 'correspondence: harness/c05probe.cxx vs lean/IprModel/Stable.lean (theorems IprProps/C05.lean)\n'
        res.violation(kind if kind != 'correspondence' else 'correspondence:stable', msg, header + '\n'.join(small),
                      found_input=(kind != 'correspondence'))
    if not ok:
        res.proof_broken('IprProps.C05', detail)
    res.cov['traces_validated_against_impl'] = 1 if not kind else 0
    res.cov['ops'] = len(ops)
    res.cov['op_distribution'] = g.counts
    facs = {}
    for o in ops:
        w = o.split()
        if w[0] == 'mk':
            facs[w[1]] = facs.get(w[1], 0) + 1
    res.cov['factories_called'] = len(facs)
    res.cov['factories_available'] = len(table)
    res.cov['factory_calls_min_max'] = [min(facs.values()), max(facs.values())] if facs else [0, 0]
    res.cov.update({'oracle_' + k: v for k, v in orc.stats.items()})
    res.cov['bursts'] = [o for o in ops if o.startswith('burst') and not o.endswith('#0')]
    res.cov['exhaustive'] = False
    res.sample(ops[:12])
    mid = len(ops) // 3
    res.sample(ops[mid:mid + 12])
    res.assumptions += [
        'relocation of storage cannot be exhibited by the model (ids are stable by construction): it is observed only at run time, by '
        're-fetching every member at its index, by naming objects by address, and by AddressSanitizer on every re-read',
        'the histories never redeclare a name of a scope with a different declaration kind and never read a reserved spelling '
        '(both are outside what the model mirrors)',
        'the histories never set the `id` of a class / enum after it was used as the type of a base-class subobject (Base_type::name() '
        'forwards to type().name(), a derived accessor the model does not mirror) and never re-set the resolution of an id-expression '
        'built from a declaration (set at construction)',
    ]
    res.cov['lookups'] = sum(1 for o in ops if o.startswith('lookup'))
    res.cov['members_named_again_or_unnamed'] = sum(len(v) - len({n for n, _ in v}) for v in g.hmembers.values())
    res.cov['value_factory_calls'] = {f: facs.get(f, 0) for f in ('get_linkage', 'get_calling_convention', 'get_transfer_from_linkage',
                                                                 'get_transfer_from_convention', 'get_transfer', 'get_function_x', 'get_as_type_x')}
    return res.finish(info, rule='one random well-sorted history per run over %d factories of impl::Lexicon (unified get_*, generative '
                      'make_*, composites with regions/scopes/parameter lists; extended linkages, calling conventions, the three kinds of transfer '
                      'and function / as-types carrying them), member additions (declarations and redeclarations into '
                      'regions/scopes/classes, parameters -- unnamed and repeated names --, enumerators, bases, handlers, expression lists, block '
                      'statements), look-ups scope[name][type] (general scopes, parameter lists, enumerations), warehouse '
                      'reuse/extension/destruction, link settings, alias probes; the universal observer re-reads EVERY object ever seen '
                      '(returned or reachable) right after the op that created it and again after every op up to op %s and every 40-50 ops thereafter '
                      '(then also every linkage / convention / transfer and every look-up answered so far), then growth bursts into one '
                      'farm/tree/pool/deque/scope/list/vector with sentinels observed before and after; words are handed over as const char8_t* into a '
                      'reused buffer / heap views / temporaries; a trace is the whole history'
                      % (len(table), '1500' if tier == 'quick' else '5000'))


def replay(path):
    ops = [l.strip() for l in open(path) if l.strip() and not l.startswith(('#', 'correspondence:', 'theorem'))]
    C.lean_build(['model_c05'])
    probe = C.build_harness('c05probe', 'asan')
    kind, at, msg, orc = verdict(probe, ops)
    if kind:
        print(msg)
        print('VIOLATION property=C05 replay=%s%s' % (path, ' no-failing-input-found' if kind == 'correspondence' else ''))
        return 1
    print('replay: property holds on this input (%d ops, %d rounds)' % (len(ops), orc.stats['rounds']))
    return 0
