"""C06 — category code, accept() and visitor defaults agree for every node class (DESIGN.md §4 C06).

T-regen: every run rebuilds, from /repo's current tree,
  * the category enumerators            (`g++ -E` over include/ipr/node-category; values cross-checked by execution),
  * the interface hierarchy             (compile-time `is_base_of` facts printed by harness/c06probe.cxx; cross-checked
                                         against the compiler's own class dump, `g++ -fdump-lang-class` over src/impl.cxx),
  * the set of concrete node classes    (same class dump: every class derived from ipr::Node without a pure virtual),
  * one observation row per implementation class on a live node (category, dynamic_cast, hooks fired, default chain,
    util::view<K> for every K),
writes them to lean/Generated/Categories.lean, and re-checks the theorems of lean/IprProps/C06.lean over the whole table.
"""
import hashlib, json, os, re, subprocess
from . import common as C

PID = 'C06'
MANIFEST = dict(
    text='Theorems C06_* (lean/IprProps/C06.lean): for every implementation class of the library (one live node each, all concrete '
         'classes derived from ipr::Node found in the compiler\'s class dump) the stamped category is the code of its own interface, '
         'accept enters exactly one hook, its own, the chain of default hooks is the one the model derives from the interface '
         'hierarchy (nearest abstract super-category, through Classic exactly for classic expressions), and util::view<K> answers '
         'the node iff K is its category, for all K x class pairs, and every hook entered -- the leaf hook by accept and each hook of the '
         'default chain -- RECEIVES the visited node itself (same most-derived object), on first declarations and on redeclarations (nodes '
         'whose master() is another node; every declaration kind that can be declared twice is observed as one) (decide +kernel over tables '
         'regenerated from the code on every run); plus general theorems: view is exact for every hierarchy, the nearest-super-category function is sound, unique and '
         'total on chains.',
    note='Lean kernel; axioms propext/Classical.choice/Quot.sound; tables produced by harness/c06probe.cxx (ASan/UBSan), g++ -E and '
         'g++ -fdump-lang-class, vlib/c06.py; one node per class (operands are irrelevant to the observed behaviour), plus a second and third '
         'declaration of the same name and type for the eight redeclarable declaration kinds; which declaration kinds cannot be redeclared '
         '(Parameter, Enumerator, Base_type, EH_parameter) is documented, not derived.',
    technique='Lean 4 theorems by kernel evaluation over tables regenerated from the implementation + general lemmas about the model',
    ref='§4 C06')

ABS = ['node', 'expr', 'classic', 'name', 'type', 'directive', 'stmt', 'decl']          # probe order (ABSTRACTS)
ABS_CXX = ['ipr::Node', 'ipr::Expr', 'ipr::Classic', 'ipr::Name', 'ipr::Type', 'ipr::Directive', 'ipr::Stmt', 'ipr::Decl']
SINKS = {0, 1, 3, 4, 5, 6, 7}
GEN = os.path.join(C.LEAN, 'Generated', 'Categories.lean')
MAX_REPORTED = 6


# ------------------------------------------------------------------------------------------------ source side

def category_names():
    """Enumerators of Category_code, in order, from the preprocessor (comments and line splices gone)."""
    src = 'enum class Category_code {\n#include <ipr/node-category>\n};\n'
    r = subprocess.run(['g++', '-E', '-P', '-x', 'c++', '-std=c++20', '-I' + os.path.join(C.REPO, 'include'), '-'],
                       input=src, stdout=subprocess.PIPE, stderr=subprocess.PIPE, text=True)
    if r.returncode != 0:
        raise C.BuildError('g++ -E over include/ipr/node-category failed:\n' + r.stderr[-2000:])
    m = re.search(r'enum class Category_code\s*\{(.*)\}', r.stdout, re.S)
    if not m:
        raise C.BuildError('cannot find the enumerator list in the preprocessed node-category')
    names, explicit = [], False
    for item in m.group(1).split(','):
        item = item.strip()
        if not item:
            continue
        mm = re.match(r'^([A-Za-z_]\w*)\s*(=.*)?$', item, re.S)
        if not mm:
            raise C.BuildError('unexpected enumerator in node-category: %r' % item)
        names.append(mm.group(1))
        explicit = explicit or bool(mm.group(2))
    return names, explicit


def class_dump():
    """Facts from `g++ -fdump-lang-class` over src/impl.cxx, cached by source hash:
       concrete: [[mangled, printed name]] for every class derived from ipr::Node without a pure virtual function;
       iface: name -> {stamp: [category names of its Category<> bases], chain: [abstract indices, dump order]}."""
    rh = C.repo_hash()
    d = os.path.join(C.CACHE, 'lib-' + rh)
    out = os.path.join(d, 'c06-classdump-v2.json')
    with C.lock('c06-dump-' + rh):
        if os.path.exists(out):
            return json.load(open(out))
        os.makedirs(d, exist_ok=True)
        raw = os.path.join(d, 'c06-impl.class')
        r = C.run_cmd(['g++'] + C.CXXFLAGS + ['-fsyntax-only', '-fdump-lang-class=' + raw, os.path.join(C.REPO, 'src', 'impl.cxx')])
        if r.returncode != 0 or not os.path.exists(raw):
            raise C.BuildError('g++ -fdump-lang-class over src/impl.cxx failed:\n' + r.stdout[-3000:])
        txt = open(raw, errors='replace').read()
        os.unlink(raw)
        classes, vtables = {}, {}
        for b in re.split(r'\n\n+', txt):
            m = re.match(r'Class (.*)\n', b)
            if m:
                classes[m.group(1)] = b
                continue
            m = re.match(r'Vtable for (.*)\n(.*)', b)
            if m:
                sym = re.search(r'::_ZTV(\S+): \d+ entries', m.group(2))
                vtables[m.group(1)] = (sym.group(1) if sym else None, '__cxa_pure_virtual' in b)
        concrete, iface = [], {}
        for name, b in classes.items():
            bases = re.findall(r'^(\S.*?) \(0x[0-9a-fx]+\) \d+', b, re.M)       # the class itself, then its bases, depth first
            if 'ipr::Node' not in bases:
                continue
            sym, pure = vtables.get(name, (None, True))
            if sym and not pure:
                concrete.append([sym, name])
            m = re.match(r'^ipr::([A-Za-z_]\w*)$', name)
            if m:
                stamp = []
                for bb in bases:
                    mm = re.match(r'^ipr::Category<ipr::Category_code::(\w+)[,>]', bb)
                    if mm:
                        stamp.append(mm.group(1))
                chain = [ABS_CXX.index(bb) for bb in bases[1:] if bb in ABS_CXX]
                iface[m.group(1)] = {'stamp': stamp, 'chain': chain}
        res = {'concrete': sorted(concrete), 'iface': iface}
        tmp = out + '.tmp%d' % os.getpid()
        json.dump(res, open(tmp, 'w'))
        os.replace(tmp, out)
        return res


# ------------------------------------------------------------------------------------------------ execution side

def build_probe(names):
    inc = ''.join('CAT(%s, %d)\n' % (n, i) for i, n in enumerate(names))
    h = hashlib.sha256(inc.encode()).hexdigest()[:10]
    d = os.path.join(C.CACHE, 'lib-' + C.repo_hash(), 'c06gen-' + h)
    os.makedirs(d, exist_ok=True)
    C.write_if_changed(os.path.join(d, 'c06_gen.inc'), inc)
    return C.build_harness('c06probe', 'asan', extra=('-I' + d,))


def ints(s):
    return [] if s == '-' else [int(x) for x in s.split(',')]


GARBLED = []


def parse_probe(out):
    cats, absanc, ifaces, noiface, nodes = {}, {}, {}, {}, []
    for ln in out.splitlines():
        if ln.startswith('cat '):
            _, n, c = ln.split()
            cats[n] = int(c)
        elif ln.startswith('abs '):
            _, n, i, anc = ln.split()
            absanc[int(i)] = ints(anc.split('=')[1])
        elif ln.startswith('iface '):
            _, n, c, hook, bases = ln.split()
            ifaces[n] = {'code': int(c), 'hook': hook.endswith('1'), 'bases': ints(bases.split('=')[1])}
        elif ln.startswith('noiface '):
            _, n, c, hook = ln.split()
            noiface[n] = {'code': int(c), 'hook': hook.endswith('1')}
        elif ln.startswith('node\t'):
            f = ln.split('\t')
            try:
                kv = dict(x.split('=', 1) for x in f[2:])
                int(kv['cat']); ints(kv['dyn']); ints(kv['fired']); ints(kv['chain']); ints(kv['view1']); ints(kv['view2']); kv['cls']; kv['sym']
            except (ValueError, KeyError, IndexError):
                GARBLED.append(f[1] if len(f) > 1 else ln[:80])      # what the object behind that reference said about itself is unreadable
                continue
            nodes.append({'label': f[1], 'cls': kv['cls'], 'sym': kv['sym'], 'cat': int(kv['cat']), 'dyn': ints(kv['dyn']),
                          'absdyn': ints(kv['absdyn']), 'fired': ints(kv['fired']), 'chain': ints(kv['chain']),
                          'view1': ints(kv['view1']), 'view2': ints(kv['view2']),
                          'firedself': ints(kv.get('firedself', '-')), 'chainself': ints(kv.get('chainself', '-')),
                          'remaster': kv.get('remaster', '-'), 'rechain': ints(kv.get('rechain', '-')),
                          'nested': ints(kv.get('nested', '-')), 'refired': ints(kv.get('refired', '-')), 'cvexpr': int(kv.get('cvexpr', '-1'))})
    return cats, absanc, ifaces, noiface, nodes


OBS_KEYS = ('cat', 'dyn', 'absdyn', 'fired', 'chain', 'view1', 'view2', 'firedself', 'chainself', 'rechain', 'nested', 'refired', 'cvexpr')
# Declaration kinds that cannot be declared twice (include/ipr/impl: "Parameters, base-subobjects and enumerations cannot be multiply
# declared in a given region"; a handler has one exception parameter): their nodes are always their own master.
NOT_REDECLARABLE = {'Parameter', 'Enumerator', 'Base_type', 'EH_parameter'}


class Observation:
    """Everything observed in one run; `problems` are the disagreements between sources (correspondence level)."""

    def __init__(self, variants, only=None):
        self.names, explicit = category_names()
        self.probe = build_probe(self.names)
        self.dump = class_dump()
        self.problems = []            # (key, message)
        self.crash = None
        self.sviews = []              # view<K> through the static type a factory hands out disagreeing with view<K> through const Node&
        self.early = []               # (constant, category stamp during static initialisation of a client TU, stamp in main)
        self.rows = {}                # sym -> row (first variant), with labels collected
        self.instances = []           # every live node observed (one per label and variant), for the statement-level oracle
        self.variants = variants
        first = True
        for v in variants:
            args = ['--variant=%d' % v] + (['--only=' + only] if only else [])
            rc, out, err = C.run_exe(self.probe, args, '')
            del GARBLED[:]
            cats, absanc, ifaces, noiface, nodes = parse_probe(out)
            for lab in GARBLED[:3]:
                self.problems.append(('statement:unreadable-node', 'the node reached as `%s` does not even name its class or category readably: the reference '
                                      'handed out there does not designate the node (observed through the same accessors as every other node)' % lab))
            for ln in out.splitlines():
                if ln.startswith('sview\t') and ln not in self.sviews:
                    self.sviews.append(ln)
                if ln.startswith('deep\t'):
                    kv = dict(x.split('=') for x in ln.split('\t')[1:])
                    d = int(kv['depth'])
                    if (int(kv['nots']), int(kv['literals']), int(kv['others']), int(kv['blind']), int(kv['viewinner'])) != (d, 1, 0, 0, 1):
                        self.problems.append(('statement:deep-visit', 'a visitor that visits the operand from inside its hook, over `!` nested %d deep: the Not hook was entered '
                                              '%s times (must be %d), the Literal hook %s times (must be 1), other hooks %s times, view<Not> failed on %s of the visited nodes' % (
                                                  d, kv['nots'], d, kv['literals'], kv['others'], kv['blind'])))
                if ln.startswith('Z '):
                    m = re.match(r'Z (.*) early=(-?\d+) now=(-?\d+)$', ln)
                    if m and v == variants[0]:
                        self.early.append((m.group(1), int(m.group(2)), int(m.group(3))))
            if rc != 0:
                self.crash = (v, rc, (nodes[-1]['label'] if nodes else '<static facts>'), err[-3000:])
            if first:
                self.cats, self.absanc, self.ifaces, self.noiface = cats, absanc, ifaces, noiface
                first = False
            elif (cats, absanc, ifaces, noiface) != (self.cats, self.absanc, self.ifaces, self.noiface):
                self.problems.append(('static-facts-vary', 'static facts differ between probe variants'))
            for n in nodes:
                self.instances.append(n)
                r = self.rows.get(n['sym'])
                if r is None:
                    n['labels'] = [n['label']]
                    n['redeclared'] = n['remaster'] == '1'
                    self.rows[n['sym']] = n
                else:
                    if n['label'] not in r['labels']:
                        r['labels'].append(n['label'])
                    if n['remaster'] == '1':
                        r['redeclared'] = True
                    if any(n[k] != r[k] for k in OBS_KEYS):
                        self.problems.append(('instances-differ:' + n['cls'],
                                              'two live nodes of class %s behave differently: %s (%s) vs %s (%s)' % (
                                                  n['cls'], {k: r[k] for k in OBS_KEYS}, r['labels'][0], {k: n[k] for k in OBS_KEYS}, n['label'])))
        self.code_name = {c: n for n, c in self.cats.items()}
        if not explicit and [self.cats.get(n) for n in self.names] != list(range(len(self.names))):
            self.problems.append(('codes', 'Category_code values by execution are not the positions in node-category: %s' % (
                [(n, self.cats.get(n)) for i, n in enumerate(self.names) if self.cats.get(n) != i][:5],)))
        # interface hierarchy: compile-time facts vs the compiler's class dump
        for n, i in sorted(self.ifaces.items()):
            d = self.dump['iface'].get(n)
            if d is None:
                self.problems.append(('dump-missing:' + n, 'interface ipr::%s is not in the class dump' % n))
                i['stamp'], i['srcchain'] = [], []
                continue
            i['stamp'] = [self.cats.get(s, 10 ** 6) for s in d['stamp']]
            i['srcchain'] = d['chain']
            if sorted(d['chain']) != sorted(i['bases']):
                self.problems.append(('hierarchy:' + n, 'abstract bases of ipr::%s: is_base_of says %s, the class dump says %s' % (
                    n, [ABS[k] for k in i['bases']], [ABS[k] for k in d['chain']])))
        if not only:
            exercised = set(self.rows)
            for sym, name in self.dump['concrete']:
                if sym not in exercised:
                    self.problems.append(('class-not-exercised:' + name,
                                          'implementation class %s (a concrete class derived from ipr::Node) has no live node in '
                                          'harness/c06probe.cxx: the theorems do not cover it' % name))
            decl_idx = ABS.index('decl')
            seen_redeclared = {c for n in self.instances if n['remaster'] == '1' for c in n['dyn']}
            for n, i in sorted(self.ifaces.items()):
                if decl_idx in i['bases'] and n not in NOT_REDECLARABLE and i['code'] not in seen_redeclared:
                    self.problems.append(('redeclaration-not-exercised:' + n, 'no REDECLARATION (a node whose master() is another node) of '
                                          'declaration kind ipr::%s was observed: what its hooks receive is not covered' % n))
            covered = {c for r in self.rows.values() for c in r['dyn']}
            for n, i in sorted(self.ifaces.items()):
                if i['code'] not in covered:
                    self.problems.append(('interface-not-exercised:' + n, 'no live node of interface ipr::%s was observed' % n))

    # ---- the model's prediction, computed here only to word the messages (the theorems are checked by Lean) ----
    def lowest(self, S):
        for a in S:
            if all(b == a or b in self.absanc.get(a, []) for b in S):
                return a
        return None

    def expected_chain(self, code):
        name = self.code_name.get(code)
        i = self.ifaces.get(name)
        if i is None:
            return None
        out, k = [], self.lowest(i['bases'])
        while k is not None and len(out) < 9:
            out.append(1000 + k)
            if k in SINKS:
                break
            k = self.lowest(self.absanc.get(k, []))
        return out

    def hook_name(self, h):
        return ABS[h - 1000].capitalize() if h >= 1000 else self.code_name.get(h, '#%d' % h)

    def check_row(self, r):
        """Statement of C06 on one implementation class.  Returns the list of violated conjuncts."""
        bad = []
        hn = lambda l: '[' + ', '.join(self.hook_name(h) for h in l) + ']'
        if len(r['dyn']) != 1:
            bad.append('it implements %d leaf interfaces %s (expected exactly one)' % (len(r['dyn']), hn(r['dyn'])))
            own = r['dyn'][0] if r['dyn'] else None
        else:
            own = r['dyn'][0]
        if own is not None:
            if r['cat'] != own:
                bad.append('category is %s (%d) but its interface is ipr::%s (%d)' % (
                    self.code_name.get(r['cat'], '?'), r['cat'], self.code_name.get(own), own))
            if r['fired'] != [own]:
                bad.append('accept entered the hooks %s instead of exactly [%s]' % (hn(r['fired']), self.code_name.get(own)))
            exp = self.expected_chain(own)
            if exp is not None and r['chain'] != exp:
                bad.append('with only Classic and the sinks overridden the hooks entered are %s; the interface hierarchy prescribes %s' % (
                    hn(r['chain']), hn(exp)))
            for what, hooks, selfs in (('accept', r['fired'], r['firedself']), ('the default hooks', r['chain'], r['chainself'])):
                if len(selfs) != len(hooks) or not all(selfs):
                    others = [self.hook_name(h) for h, ok in zip(hooks, selfs + [0] * len(hooks)) if not ok]
                    bad.append('%s handed ANOTHER OBJECT than the visited node to the hook(s) %s%s' % (
                        what, '[' + ', '.join(others) + ']',
                        ' (the node is a redeclaration: its master() is another node)' if r.get('remaster') == '1' else ''))
            # one entry into the hooks per call of accept, whatever happened to this (node, visitor) pair before
            ch = r['chain']
            if r['rechain'] != ch:
                bad.append('a visitor whose first hook raised was offered the node again: the hooks entered that time are %s, not %s' % (hn(r['rechain']), hn(ch)))
            if ch and r['nested'] != ch[:1] + ch + ch[1:]:
                bad.append('a hook had the same visitor visit the same node again before returning: the hooks entered are %s, not %s' % (
                    hn(r['nested']), hn(ch[:1] + ch + ch[1:])))
            if r['refired'] != [own, own, own]:
                bad.append('a visitor overriding every hook, whose hook raised at the first visit, visits the node again and, from inside '
                           'that hook, once more: the hooks entered (the raising one included) are %s, not %s' % (hn(r['refired']), hn([own, own, own])))
            expr_hook = next((h for h in set(ch) if self.hook_name(h) == 'Expr'), None)
            want_cv = ch.count(expr_hook) if expr_hook is not None else 0
            if r.get('cvexpr', -1) not in (-1, want_cv):
                bad.append('a visitor built on Constant_visitor<No_op> that overrides only the Expr hook had it entered %d time(s); the default chain %s enters it %d time(s)' % (
                    r['cvexpr'], hn(ch), want_cv))
            if r['view1'] != [own] or r['view2']:
                bad.append('util::view<K> answers the node for K in %s%s; it must do so for K = %s only' % (
                    hn(r['view1']), (' and another node for K in ' + hn(r['view2'])) if r['view2'] else '', self.code_name.get(own)))
        return bad


# ------------------------------------------------------------------------------------------------ Lean table

def symkey(sym):
    return int.from_bytes(sym.encode(), 'big')


def lstr(s):
    return '"' + s.replace('\\', '\\\\').replace('"', '\\"') + '"'


def labs(l):
    return '[' + ', '.join('.' + ABS[i] for i in l) + ']'


def lhooks(l):
    return '[' + ', '.join(('.abs .' + ABS[h - 1000]) if h >= 1000 else ('.leaf %d' % h) for h in l) + ']'


def lean_table(o):
    L = ['import IprModel.Category',
         '/-! GENERATED on every run by vlib/c06.py from the implementation (harness/c06probe.cxx on the library built from the',
         '    current tree, `g++ -E` over include/ipr/node-category, `g++ -fdump-lang-class` over src/impl.cxx).  Do not edit. -/',
         'namespace Ipr.Gen.C06', 'open Ipr.Cat', '',
         '/-- Enumerators of `Category_code` in the order of include/ipr/node-category (preprocessed). -/',
         'def catNames : List String := [' + ', '.join(lstr(n) for n in o.names) + ']', '',
         '/-- Their numeric values, by execution. -/',
         'def catCodes : List (String × Nat) := [' + ', '.join('(%s, %d)' % (lstr(n), o.cats.get(n, 10 ** 6)) for n in o.names) + ']', '',
         '/-- Strict abstract ancestors of each abstract class (`std::is_base_of`). -/',
         'def absAnc : List (Abs × List Abs) := [' + ', '.join('(.%s, %s)' % (ABS[i], labs(o.absanc.get(i, []))) for i in range(len(ABS))) + ']', '',
         '/-- Category names (and codes) without an interface class `ipr::Name`. -/',
         'def noIface : List (String × Nat) := [' + ', '.join('(%s, %d)' % (lstr(n), o.noiface[n]['code']) for n in o.names if n in o.noiface) + ']', '',
         '/-- The leaf interface classes. -/', 'def ifaces : List Iface := [']
    items = []
    for n in o.names:
        i = o.ifaces.get(n)
        if i:
            items.append('  { name := %s, code := %d, hasHook := %s, bases := %s, srcStamp := %s, srcChain := %s }' % (
                lstr(n), i['code'], 'true' if i['hook'] else 'false', labs(i['bases']), i['stamp'], labs(i['srcchain'])))
    L.append(',\n'.join(items) + ']')
    L += ['', '/-- One row per implementation class, observed on a live node. -/', 'def rows : List Row := [']
    items = []
    order = sorted(o.rows, key=symkey)             # by class key: duplicate-freeness is then a linear check
    for sym in order:
        r = o.rows[sym]
        items.append('  { cls := %s, category := %d, dyn := %s, absDyn := %s, fired := %s, chain := %s, viewSelf := %s, viewOther := %s }' % (
            lstr(r['cls']), r['cat'], r['dyn'], labs(r['absdyn']), lhooks(r['fired']), lhooks(r['chain']), r['view1'], r['view2']))
    L.append(',\n'.join(items) + ']')
    # identity of what every hook received, per row: conjunction over ALL live nodes of the class (first declarations and redeclarations)
    def conj(sym, key, hooks):
        out = [1] * len(o.rows[sym][hooks])
        for n in o.instances:
            if n['sym'] == sym:
                v = n[key]
                out = [a & b for a, b in zip(out, v)] if len(v) == len(out) else [0] * len(out)
        return '[' + ', '.join('true' if x else 'false' for x in out) + ']'
    L += ['', '/-- For every row (same order as `rows`): for each hook of `fired`, then for each hook of `chain`, whether the object the hook',
          '    RECEIVED was the visited node itself (same most-derived object) -- on every live node of the class that was observed,',
          '    redeclarations (nodes whose `master()` is another node) included. -/',
          'def handed : List (List Bool × List Bool) := [' + ', '.join('(%s, %s)' % (conj(sym, 'firedself', 'fired'), conj(sym, 'chainself', 'chain')) for sym in order) + ']', '',
          '/-- For every row (same order as `rows`): the hooks entered (a) by a visit that follows a visit whose first hook RAISED (same visitor',
          '    object, same node; only Classic and the sinks overridden), (b) by a visit one of whose hooks has the same visitor visit the same',
          '    node again before it returns, (c) by a visitor overriding every hook: a visit whose hook raises, then a visit re-entered once. -/',
          'def reentry : List (List Hook × List Hook × List Hook) := [' + ', '.join(
              '(%s, %s, %s)' % (lhooks(o.rows[sym]['rechain']), lhooks(o.rows[sym]['nested']), lhooks(o.rows[sym]['refired'])) for sym in order) + ']', '',
          '/-- Category codes of the declaration kinds that were observed on a REDECLARATION as well (a node whose `master()` is another node). -/',
          'def redeclared : List Nat := ' + str(sorted({c for n in o.instances if n['remaster'] == '1' for c in n['dyn']})), '',
          '/-- Category codes of the declaration kinds that cannot be declared twice in a region (parameters, enumerators, base-class',
          '    subobjects, exception parameters: include/ipr/impl, comment on `singleton_overload`); documented, not derived. -/',
          'def notRedeclarable : List Nat := ' + str(sorted(o.ifaces[n]['code'] for n in NOT_REDECLARABLE if n in o.ifaces))]
    L += ['', '/-- The observed classes (same order as `rows`), identified by the bytes of their mangled type name read as one',
          '    big-endian number (an exact encoding, compared natively by the kernel; comparing `String`s there is slow). -/',
          'def rowKeys : List Nat := [' + ', '.join('%d' % symkey(s) for s in order) + ']', '',
          '/-- Every concrete class derived from `ipr::Node` in the compiler\'s class dump of src/impl.cxx, same encoding. -/',
          'def srcClasses : List Nat := [' + ', '.join('%d' % symkey(s) for s, _ in o.dump['concrete']) + ']', '',
          '/-- For the reader: the mangled names behind `srcClasses`. -/',
          'def srcClassNames : List String := [' + ', '.join(lstr(s) for s, _ in o.dump['concrete']) + ']', '',
          'end Ipr.Gen.C06', '']
    return '\n'.join(L)


# ------------------------------------------------------------------------------------------------ the check

def row_replay(o, r, bad):
    own = r['dyn'][0] if r['dyn'] else None
    return ('class %s\nsym %s\nbuilt-by %s\ninterface %s\nobserved category=%d dyn=%s fired=%s chain=%s view1=%s view2=%s\n' % (
        r['cls'], r['sym'], ' | '.join(r['labels']), o.code_name.get(own, '?'), r['cat'], r['dyn'], r['fired'], r['chain'], r['view1'], r['view2'])
        + ''.join('violated %s\n' % b for b in bad))


def run(tier):
    res = C.Result(PID, tier)
    variants = [C.seed() % 4] if tier == 'quick' else [(C.seed() + k) % 4 for k in range(4)]
    box = {}

    def regen():
        box['o'] = Observation(variants)
        C.write_if_changed(GEN, lean_table(box['o']))

    ok, info, detail = C.prove(res, PID, regen=regen)
    o = box['o']

    failing, failed_cls = [], set()
    for n in sorted(o.instances, key=lambda n: (n['cls'], n['label'])):          # every live node, not only the first of its class
        if n['cls'] in failed_cls:
            continue
        bad = o.check_row(n)
        if bad:
            n.setdefault('labels', [n['label']])
            failing.append((n, bad))
            failed_cls.add(n['cls'])
    for r, bad in failing[:MAX_REPORTED]:
        more = '' if len(failing) <= MAX_REPORTED else ' (%d classes fail in all; the first %d are reported)' % (len(failing), MAX_REPORTED)
        res.violation('class:' + r['cls'], 'implementation class %s (node built by %s): %s%s' % (r['cls'], r['labels'][0], '; '.join(bad), more),
                      row_replay(o, r, bad))
    for ln in o.sviews[:MAX_REPORTED]:
        f = dict(x.split('=', 1) for x in ln.split('\t')[2:])
        res.violation('static-view:' + f['cls'], 'view<%s> applied to the node built by `%s` through its static type (%s) answers %s, through `const Node&` it answers %s' % (
            o.code_name.get(int(f['K']), f['K']), ln.split('\t')[1], f['cls'], 'the node' if f['static'] == '1' else 'nothing', 'the node' if f['node'] == '1' else 'nothing'),
            'static-view %s\n# %s' % (ln.split('\t')[1], ln))
    for what, early, now in o.early:
        if early != now:
            res.violation('static-init:' + what, 'the process-wide constant `%s` carries category %d (%s) when read during the static initialisation of a '
                          'client translation unit linked before the library, and %d (%s) in main(): it is not constant-initialised' % (
                              what, early, o.code_name.get(early, '?'), now, o.code_name.get(now, '?')),
                          'static-init %s\n# category during static initialisation %d, in main %d' % (what, early, now))
    if o.crash:
        v, rc, label, err = o.crash
        where = ' (nothing was printed: the probe died before main(), i.e. while a client translation unit read the process-wide constants during static initialisation)' if label == '<static facts>' else ''
        res.violation('crash', 'c06probe stopped (exit %d, variant %d) after observing `%s`%s\n%s' % (rc, v, label, where, err),
                      'crash-after %s\nvariant %d\n' % (label, v))
    for key, msg in [p for p in o.problems if p[0].startswith('statement:')][:2]:
        res.violation(key, msg, '%s\n%s\n' % (key, msg))
    o.problems = [p for p in o.problems if not p[0].startswith('statement:')]
    if not failing and not o.crash:
        for key, msg in o.problems[:MAX_REPORTED]:
            res.violation('correspondence:' + key, msg + '\nno implementation class violates the statement on the nodes observed; the tables the '
                          'theorems range over no longer describe this code', 'correspondence: %s\n%s\n' % (key, msg), found_input=False)
        if not ok and not o.problems:
            res.proof_broken('IprProps.C06', detail)

    n_if = len(o.ifaces)
    res.cov['traces_validated_against_impl'] = len(o.rows)
    res.cov['exhaustive'] = True
    res.cov['category_codes'] = len(o.names)
    res.cov['leaf_interfaces'] = n_if
    res.cov['codes_without_interface'] = sorted(o.noiface)
    res.cov['implementation_classes_observed'] = len(o.rows)
    res.cov['concrete_node_classes_in_class_dump'] = len(o.dump['concrete'])
    res.cov['live_nodes_observed'] = sum(len(r['labels']) for r in o.rows.values())
    res.cov['view_pairs_checked'] = n_if * len(o.rows)
    res.cov['probe_variants'] = variants
    res.cov['view_also_asked_through_the_static_type_of_every_factory_result'] = True
    res.cov['hooks_whose_received_object_was_compared_with_the_visited_node'] = sum(len(n['firedself']) + len(n['chainself']) for n in o.instances)
    res.cov['declaration_kinds_also_observed_as_a_redeclaration'] = sorted({o.code_name.get(c, '?') for n in o.instances if n['remaster'] == '1' for c in n['dyn']})
    res.cov['declaration_kinds_documented_as_not_redeclarable'] = sorted(NOT_REDECLARABLE)
    res.cov['constants_read_during_static_initialisation'] = len(o.early)
    dist = {}
    for r in o.rows.values():
        k = '>'.join(o.hook_name(h) for h in r['chain'])
        dist[k] = dist.get(k, 0) + 1
    res.cov['default_chain_distribution'] = dict(sorted(dist.items()))
    per_if = {}
    for r in o.rows.values():
        for c in r['dyn']:
            per_if[c] = per_if.get(c, 0) + 1
    res.cov['classes_per_interface_distribution'] = {str(k): sum(1 for v in per_if.values() if v == k) for k in sorted(set(per_if.values()))}
    for sym in list(sorted(o.rows))[:: max(1, len(o.rows) // 5)]:
        r = o.rows[sym]
        res.sample({'class': r['cls'], 'built_by': r['labels'][0], 'category': o.code_name.get(r['cat']), 'fired': [o.hook_name(h) for h in r['fired']],
                    'default_chain': [o.hook_name(h) for h in r['chain']], 'view_self': [o.code_name.get(k) for k in r['view1']]})
    res.assumptions += [
        'one live node per implementation class (more when several factories produce the class; all instances must agree): category, '
        'accept and view do not depend on the operands',
        'the set of implementation classes is the set of concrete classes derived from ipr::Node in g++\'s class dump of src/impl.cxx '
        '(plus any other class a factory returns); cxx_form / attribute / capture / translation-unit classes are not ipr::Node and have '
        'their own visitors: outside this property',
        'declared-but-undefined factories (make_annotation, Lexicon::make_token, structurally_same(Node,Node)) cannot be linked; '
        'impl::Annotation and impl::Comment are constructed directly',
    ]
    return res.finish(info, rule='complete enumeration: every Category_code enumerator, every leaf interface, every concrete class derived from '
                      'ipr::Node (one live node each, built through the public factories), every (class, K) pair for util::view<K>; a trace is one '
                      'implementation class row')


def replay(path):
    """Re-observe the class named in a replay file on the current tree and re-evaluate the statement on it."""
    syms, crash = [], False
    for ln in open(path):
        if ln.startswith('sym '):
            syms.append(ln.split(None, 1)[1].strip())
        crash = crash or ln.startswith('crash-after')
    o = Observation([0, 1, 2, 3])
    if o.crash:
        print('c06probe stopped (exit %d) after `%s`\n%s' % (o.crash[1], o.crash[2], o.crash[3]))
        print('VIOLATION property=C06 replay=%s' % path)
        return 1
    if not syms:
        for key, msg in o.problems:
            print('correspondence:%s  %s' % (key, msg))
        if o.problems:
            print('VIOLATION property=C06 replay=%s no-failing-input-found' % path)
            return 1
        print('replay: the file names no implementation class; the tables are consistent on this tree')
        return 0
    rc = 0
    for sym in syms:
        r = o.rows.get(sym)
        if r is None:
            print('class with symbol %s is no longer produced by the probe' % sym)
            continue
        bad = []
        for n in o.instances:                      # every live node of the class (first declarations and redeclarations alike)
            if n['sym'] == sym:
                bad += ['[node built by %s] %s' % (n['label'], b) for b in o.check_row(n)]
        print('class %s (built by %s)\n  category=%s dyn=%s\n  fired=%s\n  default chain=%s (model: %s)\n  view self=%s other=%s' % (
            r['cls'], ' | '.join(r['labels']), o.code_name.get(r['cat']), [o.code_name.get(c) for c in r['dyn']],
            [o.hook_name(h) for h in r['fired']], [o.hook_name(h) for h in r['chain']],
            [o.hook_name(h) for h in (o.expected_chain(r['dyn'][0]) or [])] if r['dyn'] else '?',
            [o.code_name.get(c) for c in r['view1']], [o.code_name.get(c) for c in r['view2']]))
        for b in bad:
            print('  VIOLATED: ' + b)
        if bad:
            rc = 1
    if rc:
        print('VIOLATION property=C06 replay=%s' % path)
    else:
        print('replay: property holds on this input')
    return rc
