"""Writes /verif/MANIFEST.json from the table below (run: python3 -m vlib.manifest)."""
import json, os
from . import common as C

import importlib
ALL = ['C%02d' % i for i in range(1, 21)]
CHECKS = {}
_claimed = set(open(os.path.join(C.VERIF, 'vlib', 'claimed.txt')).read().split())
for _pid in ALL:
    if _pid not in _claimed:
        continue
    try:
        _m = importlib.import_module('vlib.' + _pid.lower())
    except ModuleNotFoundError:
        continue
    if hasattr(_m, 'MANIFEST'):
        CHECKS[_pid] = _m.MANIFEST
NOT_YET = 'check not built yet (work in progress; see DESIGN.md §9 build order)'


def main():
    checks = []
    for pid in ALL:
        if pid not in CHECKS:
            continue
        c = CHECKS[pid]
        checks.append({
            'property_id': pid,
            'quick_cmd': 'python3 check.py %s --tier quick' % pid,
            'thorough_cmd': 'python3 check.py %s --tier thorough' % pid,
            'evidence_file': 'evidence/%s.json' % pid,
            'replay_cmd_template': 'python3 check.py %s --replay {path}' % pid,
            'engine': 'lean4-proof+correspondence',
            'level_claimed': {'category': 'proof', 'text': c['text'], 'design_ref': 'DESIGN.md ' + c['ref']},
            'level_note': c['note'],
            'technique': c['technique'],
        })
    m = {
        'version': 1,
        'setup_cmd': 'python3 setup.py',
        'hooks': {
            'guard': C.GUARD,
            'enable': 'harness and library TUs are compiled with -D%s; the design needs no source hook (private state is read with '
                      '-fno-access-control in harness TUs only)' % C.GUARD,
            'baseline_off_cmd': 'cmake -S /repo -B /repo/_build -G Ninja && cmake --build /repo/_build -j16 && ctest --test-dir /repo/_build -j8 --timeout 900',
            'source_commits': [],
            'add_only': True,
        },
        'engines': [{
            'name': 'lean4-proof+correspondence', 'path': 'check.py',
            'serves_properties': [c['property_id'] for c in checks],
            'kind_free_text': 'Lean 4 theorems over hand-written executable models (lean/), re-built and axiom-audited on every run; models tied to '
                              '/repo by differential correspondence (harness/*.cxx vs native model driver) and by tables regenerated from the code',
        }],
        'checks': checks,
        'not_applicable': [{'property_id': p, 'reason': NOT_YET} for p in ALL if p not in CHECKS],
        'notes': 'python3 check.py <Cxx> --tier quick|thorough; evidence in evidence/<id>.json; replays under replays/; '
                 'known findings in KNOWN_FINDINGS.txt.',
    }
    with open(os.path.join(C.VERIF, 'MANIFEST.json'), 'w') as f:
        json.dump(m, f, indent=1)
        f.write('\n')


if __name__ == '__main__':
    main()
