"""C02 — every factory-built node reports exactly the operands it was built from (DESIGN.md §4 C02)."""
import os, re
from . import common as C
from . import wiring_common as W

PID = 'C02'
MANIFEST = dict(
    text='The factory wiring of the implementation (for every factory function and documented operand form: category, storage '
         'discipline, and for every accessor the universal observer prints - named aliases, positional primitives, parts of objects '
         'created with the node - which operand / constant / absent / unset / borrowed value it answers) is regenerated on every run by '
         'calling every factory of impl::Lexicon, Region, Scope, Udt, Class, Enum, Parameter_list, Mapping, Block, Module, form_factory, '
         'attr_factory and capture_spec_factory with pairwise distinguishable operands and every enumerator value. Theorem '
         'C02_wiring_documented proves that table equal to the table written by hand from the interface documentation; C02_readback '
         'proves, for every row, every store and every operand vector of the model, that each accessor of the node returned by the '
         'factory (new or hash-consed) reads as documented; fresh operand choices are replayed through the model and compared with the '
         'real library. Operands that are not nodes (enumerators, bit sets, levels, positions, token data, words, warehouses) are passed '
         'from storage of the probe that is overwritten before anything is read back; declarations are passed in every form (first '
         'declaration, redeclaration, function, template, parameter, enumerator, base) and also constructed at the address of a declaration '
         'that died (placement in one buffer; a translation unit destroyed and rebuilt under a recycling allocator); members of an expression '
         'list are typed / re-typed / linked after the list type was read; tokens are built the way a client can (directly, in a farm, in a '
         'pragma, from one moving position variable); every node returned is read again after the whole sweep (before which every pool '
         'expression list, region and block has gained a member). Every entry is run again under each operand form its operand sorts '
         'allow, against the SAME documented row (C02_readback_independent_of_operand_form): an Expr / Type operand that an earlier call '
         'of the same factory function returned (#nested: one slot at a time, all slots, every overload as origin), an id-expression '
         'that has a resolution - made from a declaration of any form, or resolved by the client before / after the call - in every '
         'Expr slot (#resolved-operand), every reserved spelling as String / word / Name / Identifier next to types that are not its '
         'natural one (#reserved-spelling), expression lists and blocks that are empty when the node is made and filled before / after '
         'the first read (#list-filled-later). Parts supplied through builders after creation: General_substitution::subst with the same '
         'parameter bound again (also read through an instantiation), and on the result of every entry each setter its class offers '
         'is called twice with different values, the whole node being read after every client action - a part reads as the value given '
         'last (C02_latest_binding, C02_builder_history). '
         'Round 6: every request that takes a type / function type / template type is also made right before and right after a request that '
         'differs from it ONLY in that operand and there only in top-level cv-qualification, in the exception specification, in the transfer or in '
         'the qualification of the target -- same name, same word, same scope (declaration makers share the scope) -- either of the two being the '
         'one observed (#near-equal, C02_near_equal_own_node: near-equal operands give their own nodes); every member sequence a client fills '
         'on a result (imports, purview, exported modules and exported declarations of units; attributes and captures of lambdas; suffix and '
         'attributes of declarator species; attributes of every statement and declaration ...) receives members of its own, the j-th sequence j+1 '
         'of them, and every sequence accessor must report exactly the members given to THAT sequence (#lists-filled, '
         'C02_member_sequences_told_apart); modules, interface units and translation units are entries; a member added to a parameter list / '
         'enumeration / base list after one whose name and type (name only, type only, no name) it repeats is a new member at position 1 '
         '(#after-same-key ..., C02_second_member_is_its_own); one Lexicon is given 25 000 variables with distinct 31-character names, all re-read. '
         'Exhaustive over factories; operands are universally quantified in the theorems and sampled on the code.',
    note='Lean kernel; axioms propext/Classical.choice/Quot.sound; hand-written model and hand-written documented table; the tie to the C++ '
         'is the table regenerated by execution (harness/c02probe.cxx + observe.hxx, python classification in vlib/wiring_common.py), '
         'g++, ASan/UBSan (the probe replaces operator new/delete to recycle addresses inside two entries; all other allocations go to malloc/free).',
    technique='Lean 4 theorems over a table-driven graph model + table regenerated from the implementation by execution + differential replay',
    ref='§4 C02')

MAX_REPORTS = 6
SCALE = 25000        # variables with distinct 31-character names declared in one Lexicon: more spellings than one block of the string storage (1 MiB) holds


def report_table_diffs(res, sw, exp, prop_filter=None, what='accessor'):
    """Row-by-row comparison documented vs regenerated.  Returns the number of differing rows reported."""
    P = sw.P
    n = 0
    for row in sw.rows:
        g = W.generated_row_dict(row, sw.cats)
        e = exp.get(row['key'])
        if e is None:
            diffs = [('<row>', '<factory not in the documented table>', 'present')]
        else:
            diffs = W.diff_rows(e, g)
        if prop_filter:
            diffs = [d for d in diffs if prop_filter(d[0])]
        if not diffs:
            continue
        n += 1
        if n > MAX_REPORTS:
            continue
        lines = ['call ' + row['key']]
        msg = []
        for path, doc, imp in diffs[:8]:
            msg.append('%s: %s `%s` is documented as `%s`, the implementation answers `%s`' % (row['key'], what, path, doc, imp))
            lines.append('# %s %s: documented %s, implementation %s' % (what, path, doc, imp))
            for d in W.describe_instances(P, row, path if path != 'type()' else 'type', doc=doc):
                lines.append('#   ' + d)
        res.violation('wiring:' + row['key'], '\n'.join(msg), '\n'.join(lines))
    return n


FORMS = {'operand_returned_by_an_earlier_call_of_the_same_function': '#nested', 'operand_is_an_id_expression_with_a_resolution': '#resolved-operand',
         'reserved_spelling_next_to_a_type': '#reserved-spelling', 'container_empty_when_the_node_is_made': '#list-filled-later',
         'request_next_to_a_near_equal_request': '#near-equal', 'member_sequences_of_the_result_filled': '#lists-filled',
         'member_added_after_one_whose_key_it_repeats': ('#after-same-key', '#after-same-name', '#after-same-type', '#both-unnamed', '#after-other-name', '#after-other-type'),
         'units_and_modules': ('Module::', 'Translation_unit::'),
         'substitution_bound_again': ('#rebound', '#through-instantiation'),
         'operand_is_a_redeclaration': '#redeclaration', 'operand_is_a_parameter_enumerator_base_function_or_template':
         ('#parameter', '#enumerator', '#base', '#function', '#template'), 'operand_storage_recycled': ('#recycled-storage', '#recycled-unit'),
         'member_typed_or_linked_late': ('#late-typed', '#retyped', '#late-linked'), 'kind_type_reached_through_another_route': ('#closure-type', '#closure-typed'),
         'type_given_carries_top_level_qualifiers': '#qualified-type', 'tokens_built_by_the_client': ('Token::Token', 'stable_farm<Token>::make', '#tokens')}


def new_form_counts(sw):
    """calls per operand form added in round 3 (evidence)"""
    out = {}
    for name, pats in FORMS.items():
        pats = (pats,) if isinstance(pats, str) else pats
        rows = [r for r in sw.rows if any(p in r['key'] for p in pats) and not (name == 'operand_is_a_redeclaration' and r['key'].startswith('Scope::'))]
        out[name] = {'rows': len(rows), 'calls': sum(len(r['calls']) for r in rows)}
    out['by_value_operands_passed_from_storage_overwritten_before_read_back'] = sw.P.stats.get('by-value operands passed from re-used storage', 0)
    out['recycled_storage_first_occupant_reported'] = sw.P.stats.get('recycled storage: first occupant reported', 0)
    out['recycled_unit_next_declaration_at_the_dead_ones_address'] = sw.P.stats.get("recycled unit: the next unit's declaration lies at the dead one's address", 0)
    out['recycled_unit_address_not_reused'] = sw.P.stats.get('recycled unit: address NOT reused', 0)
    out['recycled_storage_first_occupant_misreported'] = sw.P.stats.get('recycled storage: first occupant MISREPORTED', 0)
    for k, v in sorted(sw.P.stats.items()):
        if k.startswith('forms: ') or k.startswith('pool containers') or k.startswith('setter calls'):
            out[re.sub(r'\W+', '_', k).strip('_')] = v
    return out


def report_builder_histories(res, sw, reported):
    """Parts supplied through the builder interface after creation read as the value given LAST (every setter of every result, twice)."""
    hs = W.parse_builder_histories(sw.out)
    seen = set()
    for (key, inst), steps in sorted(hs.items()):
        bad = W.builder_oracle(steps)
        if not bad or W.base_key(key) in seen:
            continue
        if reported + len(seen) >= MAX_REPORTS:
            break
        seen.add(W.base_key(key))
        res.violation('builder:' + key, '%s instance %d (the node made by the repeated call, then client actions one at a time): %s' % (key, inst, bad[1]),
                      'call %s\n# seed=%d instance %d: %s' % (key, C.seed(), inst, ' ; '.join('%s val=%s' % (st['action'], st['val']) for st in steps[1:bad[0] + 1])))
    return len(seen)


def run(tier):
    res = C.Result(PID, tier)
    rounds = 1 if tier == 'quick' else 3
    sw = W.Sweep(rounds=rounds, extra_ops=['recheck', 'scale %d' % SCALE])
    if sw.crashed:
        res.violation('crash', 'c02probe stopped (exit %d) while sweeping the factories; last call: %s\n%s' % (sw.rc, sw.last_key(), sw.err[-3000:]),
                      'call %s\n' % (sw.last_key() or '?'))
        return res.finish(rule='factory sweep')
    ok, info, detail = C.prove(res, PID, regen=sw.regen)

    exp, order = W.expected_rows()
    reported = 0
    if exp is None:
        res.proof_broken('model driver model_c02 (documented table unavailable)', detail or 'lake build failed')
    else:
        # 1. statement on the implementation alone: documented table vs the table the code produces
        reported = report_table_diffs(res, sw, exp)
        # 1a. an entry for which every operand choice was answered with a node that existed before the call although (most of) these
        #      operand vectors had never been handed to the function: the factory no longer builds a node from (all of) its operands --
        #      it answers with an operand, or with a node made from other operands.
        #      (When the vectors had been requested before -- the pool of distinct operands is used up in the later rounds of the thorough
        #      tier -- the unified factory rightly answers with the old node: recorded in the evidence, no finding.)
        stale_keys = set()
        for sk in (sw.P.skipped if reported == 0 else []):
            m = re.search(r'; (\d+) of 12 operand vectors had never been requested', sk)
            if not m or int(m.group(1)) < 6:          # at least half of the twelve choices were vectors no earlier call had used
                continue
            key = sk.split(' (')[0].rsplit(' ', 1)[0]
            if key in stale_keys or len(stale_keys) >= MAX_REPORTS:
                continue
            stale_keys.add(key)
            last = re.search(r'last: (.*)$', sk)
            res.violation('stale:' + key, 'factory entry `%s`: twelve different operand choices were all answered with a node that existed '
                          'before the call, although %s of these operand vectors had never been requested before%s' % (
                              key, m.group(1), ' (the last one: %s)' % last.group(1) if last else ''),
                          'call %s\n# seed=%d %s' % (key, C.seed(), sk))
        reported += len(stale_keys)
        missing = [k for k in order if k not in set(r['key'] for r in sw.rows)]
        if missing and reported == 0:
            res.violation('wiring:missing-rows', 'documented factories that the probe no longer exercises: %s' % ', '.join(missing[:10]),
                          '\n'.join('call ' + k for k in missing[:10]), found_input=False)
            reported += 1
        # 1b. every single call against the documented source of every accessor
        bad = W.instance_oracle(sw.P, sw.rows, exp) if reported == 0 else []
        for key, inst, path, doc, raw in bad[:MAX_REPORTS]:
            row = next(r for r in sw.rows if r['key'] == key)
            c = next(c for c in row['calls'] if c.inst == inst)
            res.violation('instance:' + key, '%s instance %d: `%s` is documented as `%s` but reads `%s` for operands [%s]' % (
                key, inst, path, doc, raw, ' '.join(c.args)), 'call %s\n# instance %d args=[%s] result=%s: %s=%s, documented %s' % (
                key, inst, ' '.join(c.args), c.result, path, raw, doc))
            reported += 1

        # 1b''. a declaration constructed in recycled storage: the id-expression of the FIRST occupant was read while it was alive
        if reported == 0 and sw.P.stats.get('recycled storage: first occupant MISREPORTED', 0):
            res.violation('recycled:first-occupant', 'make_id_expr(d) for a declaration d constructed in storage where other declarations had lived and died before '
                          '(Lexicon alive throughout) does not report d: type / name / resolution differ from the declaration given (%d case(s))'
                          % sw.P.stats['recycled storage: first occupant MISREPORTED'], 'call expr_factory::make_id_expr(Decl)#recycled-storage\n# seed=%d' % C.seed())
            reported += 1
        # 1b-iv. builder calls after creation: the latest value wins (every setter of every result called twice, the node read after each action)
        if reported == 0:
            reported += report_builder_histories(res, sw, reported)
        # 1c. read back late: every node returned by a factory is observed again after all the other calls of the sweep; it must report
        #     what it reported right after its own call (a member sequence may have gained members at its end)
        late = W.late_differences(sw.P) if reported == 0 else []
        for c, name, f, v0, v1 in late[:MAX_REPORTS]:
            res.violation('late:' + c.key, '%s instance %d with operands [%s]: `%s` of %s read `%s` right after the call and `%s` once the '
                          'other factories had been called (sweep of all factories in registration order, seed %d)' % (
                              c.key, c.inst, ' '.join(c.args), f, 'the result' if name == c.result else 'its part ' + name, v0, v1, C.seed()),
                          'all\nrecheck\n# seed=%d %s instance %d args=[%s] result=%s: %s.%s = %s, later %s' % (
                              C.seed(), c.key, c.inst, ' '.join(c.args), c.result, name, f, v0, v1))
            reported += 1

        # 1d. scale: one Lexicon given SCALE variables with distinct 31-character names; every declaration, its name and the String of
        #     its name are read again afterwards -- each reports the characters it was built from, and asking again gives the same nodes
        for z in (sw.P.scale if reported == 0 else []):
            if any(int(z.get(f, 1)) for f in ('wrong_names', 'wrong_strings', 'not_unified')):
                res.violation('scale:strings', 'one Lexicon given %s variables with pairwise distinct 31-character names, all read again afterwards: %s declaration(s) '
                              'report another name, %s String(s) other characters than they were built from, %s spelling(s) asked again give another node; '
                              'first (index:built from:name reports/String reports): %s' % (z.get('n'), z.get('wrong_names'), z.get('wrong_strings'), z.get('not_unified'), z.get('first')),
                              'scale %s\n# seed=%d %s' % (z.get('n'), C.seed(), ' '.join('%s=%s' % kv for kv in z.items())))
                reported += 1
        if reported == 0 and not sw.P.scale:
            res.violation('crash', 'the probe did not answer `scale %d`' % SCALE, 'scale %d\n' % SCALE)
            reported += 1

    # 2. correspondence: fresh operand choices replayed through the Lean model (table = regenerated wiring)
    ncorr = 0
    if reported == 0 and exp is not None and ok:
        extra = [sw] + [W.Sweep(rounds=1, seed=C.seed() * 7919 + 13 * i + 5) for i in range(1 if tier == 'quick' else 6)]
        for k, s2 in enumerate(extra):
            if s2.crashed:
                res.violation('crash', 'c02probe stopped (exit %d) on a fresh operand choice; last call %s\n%s' % (s2.rc, s2.last_key(), s2.err[-2000:]),
                              'call %s\n' % (s2.last_key() or '?'))
                break
            # one model process per factory function (all its overloads, forms and operand forms, in table order): `#nested` operands
            # and hash-consed answers only ever come from calls of the same function, and the model's look-up of an equal node
            # is quadratic in the size of its store
            groups = {}
            for row in s2.rows:
                groups.setdefault(W.function_name(row['key']), []).append(row)
            for fname, grows in groups.items():
                ops, expect = W.model_ops(s2.P, grows)
                if not expect:
                    continue
                rc, out, err = C.run_model('c02', '\n'.join(ops) + '\n')
                rl = [l for l in out.splitlines() if l.startswith('R ')]
                if rc != 0 or len(rl) != len(expect):
                    res.violation('correspondence:model-run', 'model driver answered %d of %d calls of `%s` (exit %d) %s' % (len(rl), len(expect), fname, rc, err[-500:]),
                                  'correspondence: model_c02 vs c02probe\n', found_input=False)
                    break
                for (c, flat), line in zip(expect, rl):
                    name, mv = W.parse_model_R(line)
                    md = dict(mv)
                    diffs = [(p, v, md.get(p)) for p, v in flat if p in md and md[p] != v]
                    diffs += [(p, v, '<no such accessor in the model>') for p, v in flat if p not in md]
                    if name != c.result:
                        diffs.insert(0, ('<identity>', c.result, name))
                    ncorr += 1
                    if diffs:
                        p, v, m = diffs[0]
                        res.violation('correspondence:' + c.key,
                                      '%s with operands [%s]: accessor `%s` reads `%s` in the implementation, the model (regenerated table) predicts `%s`; '
                                      'the table built from the first operand choices does not generalise' % (c.key, ' '.join(c.args), p, v, m),
                                      'call %s\n# seed=%s instance %d args=[%s]: %s = %s, model %s' % (c.key, s2.ops and 'fresh', c.inst, ' '.join(c.args), p, v, m),
                                      found_input=True)
                        break
                if res.violations:
                    break
            if res.violations:
                break
    if not ok and not res.violations:
        res.proof_broken('IprProps.C02', detail)
    elif not ok:
        C.log('[C02] proof layer: ' + detail[:400].replace('\n', ' | '))

    hdr, uncovered, reasons, unknown = W.coverage([r['key'] for r in sw.rows])
    res.cov['traces_validated_against_impl'] = sum(len(r['calls']) for r in sw.rows) + ncorr
    res.cov['factory_rows'] = len(sw.rows)
    res.cov['factory_calls'] = sum(len(r['calls']) for r in sw.rows)
    res.cov['accessor_entries'] = sum(len(r['acc']) + (1 if r['typ'] else 0) for r in sw.rows)
    res.cov['calls_replayed_through_model'] = ncorr
    res.cov['entries_skipped_by_the_probe'] = sw.P.skipped
    res.cov['nodes_read_back_after_the_whole_sweep'] = len(sw.P.late)
    bh = W.parse_builder_histories(sw.out)
    res.cov['results_given_builder_calls_after_creation'] = len(bh)
    res.cov['setters_called_twice'] = {k: {'calls': v[0], 'nodes_where_the_first_call_was_observable': v[1]} for k, v in sorted(W.builder_coverage(bh).items())}
    res.cov['scale_entries'] = sw.P.scale
    res.cov['source_kinds'] = W.src_histogram(sw.rows)
    res.cov['new_operand_forms'] = new_form_counts(sw)
    res.cov['storage'] = {k: sum(1 for r in sw.rows if r['storage'] == k) for k in ('generative', 'unified', 'mixed')}
    res.cov['result_kinds'] = len(set(r['kind'] for r in sw.rows))
    res.cov['factories_declared_in_include_ipr_impl'] = len(hdr)
    res.cov['factories_exercised'] = len(hdr) - len(uncovered)
    res.cov['factories_not_exercised'] = [{'factory': k, 'reason': reasons.get(k, 'NEW / NOT COVERED: add an entry to harness/c02probe.cxx')} for k in uncovered]
    res.cov['probe_entries_without_header_declaration'] = unknown
    res.cov['exhaustive'] = False
    res.cov['exhaustive_over'] = 'factories and enumerator values (5 delimiters, 3 binding modes, 15 phase sets, 3 designator modes, 2 enum kinds, ' \
                                 'every category code as fold operation, 2 reference flavours, 7 qualifier sets); operands are sampled'
    for r in sw.rows[:400:60]:
        c = r['calls'][0]
        res.sample({'factory': r['key'], 'args': c.args, 'result': c.result, 'type': r['typ'], 'accessors': ['%s=%s' % a for a in r['acc'][:8]]})
    new = [k for k in uncovered if k not in reasons]
    if new:
        C.log('[C02] factories declared in include/ipr/impl but not exercised: ' + ', '.join(new))
        res.assumptions.append('NOT COVERED (declared but not exercised): ' + ', '.join(new))
    res.assumptions += [
        'operands are sampled: two disjoint operand choices per round (%d round(s)) build the table, further choices are replayed through the model' % rounds,
        'declared but undefined functions (make_annotation, Lexicon::make_token) cannot be linked and are excluded; tokens are built through the '
        'public constructor, a stable_farm and Pragma::tokens instead',
        'a sequence passed to get_product / get_sum as Sequence<Type> is kept by reference by design (client precondition) and is not overwritten; '
        'results whose operand is destroyed inside the entry (#recycled-*) are read at once and not again after the sweep',
        'lookup operators that need a key (Scope::operator[], Overload::operator[]) are not part of the observation (C07); Substitution::operator[] is '
        'read only in the General_substitution::subst entries (bound, bound again, read through an instantiation), the finite-map laws are C16',
        'operand forms: a sequence handed over by reference as Sequence<Type> / Sequence<Attribute> is not grown after the call (client precondition); '
        'nesting a Qualified in a Qualified is the documented normal form of the #merge row, not an operand form; Name / Identifier slots next to a '
        'Type are given a seeded sample of the reserved spellings (String and word slots: every one of them)',
    ]
    return res.finish(info, rule='every factory entry of harness/c02probe.cxx is called with operands drawn without repetition from pools of distinct '
                      'nodes of the right sort (seeded), twice per round with disjoint operands, enumerator parameters running through all values, then '
                      'again under every operand form its sorts allow (#nested, #resolved-operand, #reserved-spelling, #list-filled-later: slots one at a '
                      'time and together x origins / states / words); the node of every repeated call then receives every client action of its class, '
                      'setters twice, and is read after each; '
                      'every accessor of the result and of the objects created with it (depth 2) is classified against the operands; a trace is one factory call')


def replay(path):
    text = open(path).read()
    keys = [l.split(' ', 1)[1].strip() for l in text.splitlines() if l.startswith('call ')]
    m = re.search(r'seed=(\d+)', text)
    seed = int(m.group(1)) if m else C.seed()
    C.lean_build(['model_c02'])
    zs = [l.split()[1] for l in text.splitlines() if l.startswith('scale ')]
    if zs:
        sw = W.Sweep(rounds=1, seed=seed, only=['expr_factory::make_phantom()'], extra_ops=['scale ' + zs[0]])
        for z in sw.P.scale:
            print('  SCALE ' + ' '.join('%s=%s' % kv for kv in z.items()))
        if sw.crashed or not sw.P.scale or any(int(z.get(f, 1)) for z in sw.P.scale for f in ('wrong_names', 'wrong_strings', 'not_unified')):
            print('VIOLATION property=C02 replay=%s' % path)
            return 1
        print('replay: property holds on this input')
        return 0
    if not keys and 'recheck' in text.split():
        sw = W.Sweep(rounds=1, seed=seed, extra_ops=['recheck'])
        late = W.late_differences(sw.P)
        for c, name, f, v0, v1 in late[:10]:
            print('  LATE %s #%d args=[%s]: %s.%s read %s after the call, %s after the sweep' % (c.key, c.inst, ' '.join(c.args), name, f, v0, v1))
        if late or sw.crashed:
            print('VIOLATION property=C02 replay=%s' % path)
            return 1
        print('replay: property holds on this input')
        return 0
    sw = W.Sweep(rounds=1, seed=seed, only=keys)
    print(sw.out if len(sw.out) < 6000 else sw.out[:6000] + '...')
    if sw.crashed:
        print('VIOLATION property=C02 replay=%s (probe stopped, exit %d)\n%s' % (path, sw.rc, sw.err[-2000:]))
        return 1
    exp, _ = W.expected_rows()
    if exp is None:
        print('documented table unavailable (model_c02 did not build)')
        return 2
    bad = 0
    for row in sw.rows:
        g = W.generated_row_dict(row, sw.cats)
        e = exp.get(row['key'])
        print('implementation: ' + W.row_text(row, sw.cats))
        print('documented    : ' + (('%s kind=%s cat=%s storage=%s sorts=%s type=%s | ' % (e['key'], e['kind'], e['cat'], e['storage'], e['sorts'], e['type'])
                                    + ' '.join('%s=%s' % a for a in e['acc'])) if e else '<none>'))
        for path_, doc, imp in (W.diff_rows(e, g) if e else [('<row>', 'undocumented', 'present')]):
            print('  DIFFERS %s: documented %s, implementation %s' % (path_, doc, imp))
            bad += 1
    inst = W.instance_oracle(sw.P, sw.rows, exp)
    for key, i, p, doc, raw in inst[:10]:
        print('  INSTANCE %s #%d: %s documented %s reads %s' % (key, i, p, doc, raw))
    for sk in sw.P.skipped:
        m = re.search(r'; (\d+) of 12 operand vectors had never been requested', sk)
        if m and int(m.group(1)) >= 6:
            print('  STALE %s' % sk)
            bad += 1
    for (key, i), steps in sorted(W.parse_builder_histories(sw.out).items()):
        b = W.builder_oracle(steps)
        if b:
            print('  BUILDER %s #%d: %s' % (key, i, b[1]))
            bad += 1
    if bad or inst:
        print('VIOLATION property=C02 replay=%s' % path)
        return 1
    print('replay: property holds on this input')
    return 0
