"""C07 — scopes, overload sets and declaration sets are mutually consistent (DESIGN.md §4 C07)."""
import itertools, random, re
from . import common as C

PID = 'C07'
MANIFEST = dict(
    text='Theorems C07_* (lean/IprProps/C07.lean) prove, for every declaration history, that the code-shaped model of impl::Scope '
         '(red-black tree of overloads keyed by name address, per overload a chain of entries keyed by type address, per entry '
         'the declaration set and its master, the declaration sequence and its product type) answers exactly what the '
         'specification (the history as a list) prescribes: elements and product type in entry order after every prefix, '
         'lookup by name present iff declared, selection by type = first declaration with that name and type, master = that '
         'declaration, decl_set = the declarations sharing name and type in entry order; homogeneous scopes (parameter lists, '
         'enumerators, bases, handler regions) have singleton sets, position i = i and the same lookup rules when names are '
         'distinct. The model is tied to include/ipr/impl + src/impl.cxx by a differential run of a real impl::Lexicon/impl::Scope '
         'against the model (all histories up to a bound over 2 names x 2 types, long random histories with heavy repetition over '
         'all eight Scope::make_* kinds, scopes of 12-40 names of every name category -- identifiers, operators, conversions, constructor / '
         'destructor names, template-ids, suffixes -- whose address order contradicts their spelling order, homogeneous sequences), and the '
         'statement is evaluated directly on the real trace. Every full observation first COLLECTS the master / decl-set / overload / selection '
         'references of the whole scope and reads through them afterwards (all alive together).',
    note='Lean kernel; axioms propext/Classical.choice/Quot.sound; hand-written model tied by correspondence only on generated '
         'histories; node addresses are a parameter (the model orders names by address only: the theorems say the observations do not depend '
         'on that order; guide names are not among the generated names); the static_cast in decl_factory::redeclare is defined only when a (name,type) '
         'pair is used by one kind (generator respects it; C07_cast_safe); harness c07probe.cxx, ASan/UBSan, g++.',
    technique='Lean 4 theorems (invariant over declaration histories, refinement L1 -> L0) + differential correspondence',
    ref='§4 C07')

NAMES = ['N%d' % i for i in range(8)]          # the default universe: six identifiers, an operator, a conversion
BIG = 40                                        # the big universe: names of EVERY category (identifiers, operators, conversions,
BIGNAMES = ['N%d' % i for i in range(BIG)]      # constructor / destructor names, template-ids, suffixes), see c07probe.cxx


def universe_of(label):
    return BIG if label.startswith('many-names') else 8
PT = ['P%d' % i for i in range(8)]
FT = ['F%d' % i for i in range(4)]
AT = ['A%d' % i for i in range(4)]
TYPES = PT + FT + AT
PLAIN_KINDS = ['var', 'field', 'bitfield', 'typedecl', 'alias']
SHOWN_KIND = {'primary': 'template', 'secondary': 'template'}
HKINDS = {'param': 'parameter', 'enum': 'enumerator', 'base': 'base', 'eh': 'ehparam'}


def kinds_for(ttk):
    if ttk[0] == 'F':
        return ['fundecl', 'fundecl', 'fundecl'] + PLAIN_KINDS
    if ttk[0] == 'A':
        return ['primary', 'secondary', 'primary', 'secondary'] + PLAIN_KINDS
    return PLAIN_KINDS


# ---------------------------------------------------------------------------------------------- generators
# A "case" is a list of op lines that starts with `new` / `hnew` (its scope); `lexicon k` lines stand between cases.

def gen_exhaustive(length, rng):
    """All histories of length <= `length` over 2 names x 2 types: the 4^length maximal ones are run, and the scope is
    observed after step k only when the rest of the history is all-zero, so that each history is observed once."""
    for seq in itertools.product(range(4), repeat=length):
        names = rng.sample(NAMES, 2)
        types = rng.sample(TYPES, 2)
        pairs = [(n, t) for n in names for t in types]
        kind = {p: rng.choice(kinds_for(p[1])) for p in pairs}
        ops = ['new']
        for k, i in enumerate(seq):
            n, t = pairs[i]
            ops.append('decl %s %s %s' % (kind[(n, t)], n, t))
            if all(j == 0 for j in seq[k + 1:]):
                ops.append('full')
        yield 'exhaustive', ops


def gen_random(tier, rng, shape):
    nshort, nmid, nlong = (250, 40, 6) if tier == 'quick' else (1500, 150, 8)
    longmax = 500 if tier == 'quick' else 20000

    def history(n, nn, nt):
        names = rng.sample(NAMES, nn)
        types = rng.sample(TYPES, nt)
        pairs = [(a, b) for a in names for b in types]
        rng.shuffle(pairs)
        w = [1.0 / (i + 1) ** rng.choice([0.5, 1.0, 1.5]) for i in range(len(pairs))]     # heavy repetition
        kind = {}
        for _ in range(n):
            p = rng.choices(pairs, w)[0]
            if p not in kind:
                kind[p] = rng.choice(kinds_for(p[1]))
            yield 'decl %s %s %s' % (kind[p], p[0], p[1])

    for _ in range(nshort):                                  # observed in full after every declaration
        ops = ['new']
        for d in history(rng.randint(1, 40), rng.randint(2, 6), rng.randint(2, 6)):
            ops += [d, 'full']
        if shape:
            ops.append('shape')
        yield 'random-short', ops
    for _ in range(nmid):                                    # full observation periodically
        n = rng.randint(60, 300)
        every = rng.randint(7, 40)
        ops = ['new']
        for i, d in enumerate(history(n, rng.randint(2, 6), rng.randint(2, 6))):
            ops.append(d)
            if (i + 1) % every == 0:
                ops.append('full')
                if shape:
                    ops.append('shape')
            elif rng.random() < 0.2:
                ops.append('probe %s %s' % (rng.choice(NAMES), rng.choice(TYPES)))
        ops.append('full')
        yield 'random-mid', ops
    for j in range(nlong):                                   # long: elements + every overload and decl-set periodically
        n = longmax if j == 0 else rng.randint(longmax // 3, longmax)
        every = max(50, n // 12)
        ops = ['new']
        for i, d in enumerate(history(n, rng.randint(2, 6), rng.randint(2, 6))):
            ops.append(d)
            if (i + 1) % every == 0:
                ops += ['elems', 'sets'] + ['obs d%d' % rng.randrange(i + 1) for _ in range(4)]
                if shape:
                    ops.append('shape')
            elif rng.random() < 0.02:
                ops.append('probe %s %s' % (rng.choice(NAMES), rng.choice(TYPES)))
        ops += ['elems', 'sets', 'obs d0', 'obs d%d' % (n - 1)]
        yield 'random-long', ops


def gen_sandwich(tier, rng):
    """Single look-ups interleaved with the declarations, never a sweep: the name about to be declared is looked up
    immediately before (often a miss) and immediately after its declaration, with no other look-up in between, so that an answer
    remembered from before the declaration cannot hide behind a later full observation."""
    for _ in range(200 if tier == 'quick' else 2000):
        names = rng.sample(NAMES, rng.randint(1, 4))
        types = rng.sample(TYPES, rng.randint(1, 4))
        kind = {}
        ops = ['new']
        for _ in range(rng.randint(1, 14)):
            n, t = rng.choice(names), rng.choice(types)
            if (n, t) not in kind:
                kind[(n, t)] = rng.choice(kinds_for(t))
            if rng.random() < 0.7:
                ops.append('probe %s %s' % (n, rng.choice(types)))
            ops.append('decl %s %s %s' % (kind[(n, t)], n, t))
            if rng.random() < 0.85:
                ops.append('probe %s %s' % (n, t))
            if rng.random() < 0.3:
                ops.append('probe %s %s' % (rng.choice(names), rng.choice(types)))
        ops.append('full')
        yield 'sandwich', ops


def gen_many_types(tier, rng):
    """One or two names overloaded on MANY types (up to all 16), observed in full after every declaration and redeclared afterwards:
    an overload set must answer alike at every size (small-set representations, thresholds)."""
    for _ in range(12 if tier == 'quick' else 120):
        names = rng.sample(NAMES, rng.randint(1, 2))
        types = rng.sample(TYPES, rng.randint(7, len(TYPES)))
        kind = {}
        ops = ['new']
        order = [(n, t) for n in names for t in types]
        rng.shuffle(order)
        for n, t in order:
            kind[(n, t)] = rng.choice(kinds_for(t))
            ops += ['decl %s %s %s' % (kind[(n, t)], n, t), 'full']
            if rng.random() < 0.3:
                m, u = rng.choice(order[:order.index((n, t)) + 1])
                ops += ['decl %s %s %s' % (kind[(m, u)], m, u), 'full']
        yield 'many-types', ops


def gen_many_names(tier, rng):
    """Scopes with MANY names (12 .. 40) of every category mixed -- identifiers, operators, conversions, constructor and destructor
    names, template-ids, suffixes -- whose address order (creation order shuffled per Lexicon) contradicts their spelling order and
    their index order; entered in random order with later overloads and redeclarations, enough for the overload tree to rotate many
    times.  After every declaration the name just declared and two names declared earlier are looked up; the whole scope is
    observed every few declarations and at the end."""
    for c in range(60 if tier == 'quick' else 600):
        names = rng.sample(BIGNAMES, rng.randint(12, BIG))
        types = rng.sample(TYPES, rng.randint(1, 3))
        kind, done = {}, []
        todo = [(n, rng.choice(types)) for n in names]
        every = rng.randint(3, 9)
        ops = ['new']
        while todo:
            if done and rng.random() < 0.25:
                n, t = rng.choice(done)[0], rng.choice(types)         # another overload / a redeclaration of an earlier name
            else:
                n, t = todo.pop()
            if (n, t) not in kind:
                kind[(n, t)] = rng.choice(kinds_for(t))
            ops.append('decl %s %s %s' % (kind[(n, t)], n, t))
            done.append((n, t))
            ops.append('probe %s %s' % (n, t))
            for _ in range(2):
                m, u = rng.choice(done)
                ops.append('probe %s %s' % (m, u if rng.random() < 0.8 else rng.choice(types)))
            if len(done) % every == 0:
                ops.append('full')
        ops += ['full', 'sets']
        yield 'many-names', ops


def gen_homogeneous(tier, rng):
    per = 150 if tier == 'quick' else 1000
    for hk in ('param', 'enum', 'base', 'eh'):
        for c in range(per):
            n = rng.randint(0, 10) if c else 0
            dup = c % 5 == 4 and hk in ('param', 'enum', 'base')      # repeated names: outside the documented precondition
            ops = ['hnew ' + hk, 'hfull']
            names = rng.sample(NAMES, min(n, 8)) if not dup else [rng.choice(NAMES[:3]) for _ in range(n)]
            types = rng.sample(TYPES, min(n, 16)) if (hk == 'base' and not dup) else [rng.choice(TYPES if not dup else TYPES[:3]) for _ in range(n)]
            for i in range(min(n, len(names), len(types))):
                ops += ['hadd %s %s' % (names[i], types[i]), 'hfull']
            yield 'homogeneous-' + hk + ('-dupnames' if dup else ''), ops


def gen_one_kind(tier, rng):
    """MANY declarations of ONE kind in one scope (more than any block of a block allocator holds), all pairs different, then some
    re-declarations; the first and the latest declarations are asked again after every hundred, the whole scope at the end."""
    n = 300 if tier == 'quick' else 1500
    for kind in ('var', 'field', 'typedecl', 'alias', 'bitfield', 'fundecl', 'primary'):
        tys = FT if kind == 'fundecl' else AT if kind == 'primary' else PT
        pairs = [(a, b) for a in BIGNAMES for b in tys]
        rng.shuffle(pairs)
        pairs = pairs[:n]
        ops = ['new']
        for i, (a, b) in enumerate(pairs):
            ops.append('decl %s %s %s' % (kind, a, b))
            if (i + 1) % 100 == 0:
                ops += ['obs d0', 'obs d1', 'obs d%d' % i, 'probe %s %s' % pairs[0], 'probe %s %s' % (a, b)]
        for a, b in rng.sample(pairs, 5):
            ops.append('decl %s %s %s' % (kind, a, b))
        ops += ['elems', 'obs d0', 'obs d%d' % (len(pairs) - 1), 'probe %s %s' % pairs[0], 'probe %s %s' % pairs[-1]]
        yield 'many-names-one-kind-' + kind, ops


def gen_bulk(tier, rng):
    """Scale of the homogeneous lists: hundreds (quick) / more than 65 536 (thorough) members added at once after a few observed ones."""
    sizes = (300, 1000) if tier == 'quick' else (300, 70000)
    for hk in ('param', 'enum', 'base'):
        for n in sizes:
            ops = ['hnew ' + hk, 'hadd N0 P0', 'hfull', 'hadd N2 P1', 'hbulk %d' % n]
            yield 'homogeneous-%s-bulk' % hk, ops


def generate(tier, rng, shape):
    cases = []
    cases += gen_exhaustive(5 if tier == 'quick' else 7, rng)
    cases += gen_random(tier, rng, shape)
    cases += gen_sandwich(tier, rng)
    cases += gen_many_types(tier, rng)
    cases += gen_many_names(tier, rng)
    cases += gen_homogeneous(tier, rng)
    cases += gen_one_kind(tier, rng)
    cases += gen_bulk(tier, rng)
    # a template's (name, type) pair is declared through BOTH template factories, in either order: which of the two makes the first
    # declaration and which the later ones is drawn anew for every declaration (the other declaration kinds have one factory each)
    mixed = []
    for label, ops in cases:
        ops = [re.sub(r'^decl (primary|secondary) ', lambda m: 'decl %s ' % rng.choice(['primary', 'secondary']), op) for op in ops]
        mixed.append((label, ops))
    return mixed


def assemble(cases, rng):
    """One op stream: a fresh Lexicon (universe created in another order) every ~150 cases -- every ~12 cases for the big universe,
    whose point is the address order of the names -- and whenever the size of the universe changes."""
    ops, starts, cur, since = [], [], None, 0
    for i, (label, c) in enumerate(cases):
        nn = universe_of(label)
        if nn != cur or since >= (150 if nn == 8 else 12):
            ops.append('lexicon %d' % rng.randrange(1 << 30) + ('' if nn == 8 else ' %d' % nn))
            cur, since = nn, 0
        since += 1
        starts.append((len(ops), label))
        ops += c
    return ops, starts


# ---------------------------------------------------------------------------------------------- the statement (oracle)

class Spec:
    """L0: the scope is the list of requests; every expected observation is computed from that list only."""

    def __init__(self, names=NAMES):
        self.names = names
        self.h = []          # (shown kind, name, type)
        self.first = {}      # (name,type) -> first index
        self.sets = {}       # (name,type) -> [indices]
        self.by_name = {}    # name -> {type: first index}   (insertion order irrelevant)

    def declare(self, kind, n, t):
        i = len(self.h)
        self.h.append((SHOWN_KIND.get(kind, kind), n, t))
        self.first.setdefault((n, t), i)
        self.sets.setdefault((n, t), []).append(i)
        self.by_name.setdefault(n, {}).setdefault(t, i)
        return i

    def set_str(self, key):
        return '+'.join('d%d' % j for j in self.sets[key])

    def elems(self):
        return 'E=%s ; S=%d ; T=%s' % (','.join('d%d' % i for i in range(len(self.h))), len(self.h), ','.join(t for _, _, t in self.h))

    def lookups(self, with_sets):
        items = []
        for n in self.names:
            if n not in self.by_name:
                items.append(n + '!')
            else:
                sel = self.by_name[n]
                items.append(n + ''.join('/%s>d%d%s' % (t, sel[t], ('=' + self.set_str((n, t))) if with_sets else '') for t in TYPES if t in sel))
        return 'L=' + ','.join(items)

    def decl(self, i):
        k, n, t = self.h[i]
        return 'd%d:%s:%s:%s:m=d%d:s=%s' % (i, n, t, k, self.first[(n, t)], self.set_str((n, t)))

    def full(self):
        return '%s ; %s ; D=%s' % (self.elems(), self.lookups(False), ','.join(self.decl(i) for i in range(len(self.h))))

    def probe(self, n, t):
        if n not in self.by_name:
            return n + '!'
        return '%s/%s>%s' % (n, t, ('d%d' % self.by_name[n][t]) if t in self.by_name[n] else '-')


class HSpec:
    """Homogeneous scope: members in order, position = index, master = itself, decl_set = [itself];
    lookup by name = the first member with that name (the only one when names are distinct), selection by type = that
    member iff it has that type."""

    def __init__(self, hk, names=NAMES):
        self.names = names
        self.hk, self.groups = hk, ([[]] if hk != 'eh' else [])
        self.count = 0

    def add(self, n, t):
        if self.hk == 'enum':
            t = 'ENUM'
        if self.hk == 'base':
            n = 'nm(%s)' % t
        m = (self.count, n, t)
        self.count += 1
        if self.hk == 'eh':
            self.groups.append([m])
        else:
            self.groups[0].append(m)
        return m[0]

    def size(self):
        return len(self.groups) if self.hk == 'eh' else len(self.groups[0])

    def group_str(self, g):
        names = ['nm(%s)' % t for t in TYPES] if self.hk == 'base' else self.names
        types = TYPES + (['ENUM'] if self.hk == 'enum' else [])
        items = []
        for n in names:
            firsts = [m for m in g if m[1] == n]
            if not firsts:
                items.append(n + '!')
            else:
                m = firsts[0]
                items.append(n + ''.join('/%s>h%d' % (t, m[0]) for t in types if t == m[2]))
        ds = ','.join('h%d:%s:%s:%s:pos=%s:m=h%d:s=h%d' % (m[0], m[1], m[2], HKINDS[self.hk], '-' if self.hk == 'eh' else str(i), m[0], m[0])
                      for i, m in enumerate(g))
        return '{E=%s ; S=%d ; T=%s ; L=%s ; D=%s}' % (','.join('h%d' % m[0] for m in g), len(g), ','.join(m[2] for m in g), ','.join(items), ds)

    def full(self):
        if self.hk == 'eh':
            return ' '.join(self.group_str(g) for g in self.groups) if self.groups else '-'
        return self.group_str(self.groups[0])


def parse_impl(raw):
    """[(compared line, [assert lines], [stat lines before it])] per op."""
    out, pending = [], []
    for ln in raw.splitlines():
        if ln.startswith('#'):
            pending.append(ln)
        elif ln.startswith('@'):
            if out:
                out[-1][1].append(ln)
        else:
            out.append((ln, [], pending))
            pending = []
    return out


def field_diff(got, exp):
    a, b = got.split(' ; '), exp.split(' ; ')
    for x, y in zip(a, b):
        if x != y:
            xs, ys = x.split(','), y.split(',')
            for u, v in zip(xs, ys):
                if u != v:
                    return 'got `%s`, the statement requires `%s`' % (u[:200], v[:200])
            return 'got `%s`, the statement requires `%s`' % (x[:200], y[:200])
    return 'got `%s`, the statement requires `%s`' % (got[:200], exp[:200])


def oracle(ops, impl):
    """The statement of C07 evaluated on the implementation's trace alone.  Returns (op index, message) or None."""
    spec, hspec, names = None, None, NAMES
    for i, op in enumerate(ops):
        if i >= len(impl):
            return None
        line, asserts, _ = impl[i]
        w = op.split()
        exp = None
        if w[0] in ('lexicon', 'new', 'hnew'):
            exp = 'ok'
            if w[0] == 'lexicon':
                names = ['N%d' % k for k in range(int(w[2]) if len(w) > 2 else 8)]
            spec, hspec = (Spec(names), None) if w[0] == 'new' else (None, HSpec(w[1], names) if w[0] == 'hnew' else None)
        elif w[0] == 'decl':
            k = spec.declare(w[1], w[2], w[3])
            exp = 'd%d size=%d' % (k, k + 1)
        elif w[0] == 'full':
            exp = spec.full()
        elif w[0] == 'sets':
            exp = spec.lookups(True)
        elif w[0] == 'elems':
            exp = spec.elems()
        elif w[0] == 'probe':
            exp = spec.probe(w[1], w[2])
        elif w[0] == 'obs':
            exp = spec.decl(int(w[1][1:]))
        elif w[0] == 'hadd':
            k = hspec.add(w[1], w[2])
            exp = 'h%d size=%d' % (k, hspec.size())
        elif w[0] == 'hbulk':
            n = int(w[1])
            old = hspec.size()
            pos = ','.join('%d:%d' % (k, old + k) for k in (0, 255, 256, 65535, 65536, n - 1) if k < n)
            exp = 'bulk size=%d scope=%d arity=%d pos=%s' % (old + n, old + n, old + n, pos)
            hspec = None                      # (not tracked further: the case ends here)
        elif w[0] == 'hfull':
            exp = hspec.full()
        elif w[0] == 'shape':
            exp = None                                        # white-box: not part of the statement
        for a in asserts:
            if not a.endswith('=1') and not a.startswith('@links'):
                return i, 'implementation assertion failed: %s after `%s`' % (a, op)
        if exp is not None and line != exp:
            return i, '`%s`: %s' % (op, field_diff(line, exp))
    return None


# ---------------------------------------------------------------------------------------------- running

def model_text(ops, impl):
    """The op text for the model: the probe's node addresses (the allocator's choice) become `addr` parameter lines."""
    out = []
    for i, op in enumerate(ops):
        out.append(op)
        if op.startswith('lexicon') and i < len(impl):
            for s in impl[i][2]:
                m = re.match(r'#addr (\S+) (\d+)', s)
                if m:
                    out.append('addr %s %s' % (m.group(1), m.group(2)))
    return '\n'.join(out) + '\n'


def run_both(probe, ops, with_addr):
    text = '\n'.join(ops) + '\n'
    rc_i, out_i, err_i = C.run_exe(probe, [], text)
    impl = parse_impl(out_i)
    rc_m, out_m, err_m = C.run_model('c07', model_text(ops, impl) if with_addr else text)
    if rc_m != 0:
        raise C.BuildError('model driver failed: ' + err_m[-2000:])
    model_lines, _, stats = C.split_streams(out_m)
    return rc_i, impl, err_i, model_lines, stats


def case_of(ops, i):
    """The ops of the scope that op i belongs to, preceded by the Lexicon it lives in."""
    s = max(j for j in range(i + 1) if ops[j].split()[0] in ('new', 'hnew', 'lexicon'))
    lex = [ops[j] for j in range(s, -1, -1) if ops[j].startswith('lexicon')][:1]
    return (lex if not ops[s].startswith('lexicon') else []) + ops[s:i + 1]


def first_problem(probe, ops, with_addr, shapes=None, stats_out=None):
    """('crash'|'statement'|'correspondence', op index, message) for the first disagreement in `ops`, or None."""
    rc_i, impl, err_i, model_lines, stats = run_both(probe, ops, with_addr)
    if stats_out is not None:
        stats_out += stats
    bad = oracle(ops, impl)
    if bad and (len(impl) == len(ops) or bad[0] < len(impl) - 1):
        return ('statement',) + bad
    if rc_i != 0 or len(impl) != len(ops):
        return 'crash', min(len(impl), len(ops) - 1), 'c07probe stopped (exit %d) after %d of %d ops\n%s' % (rc_i, len(impl), len(ops), err_i[-3000:])
    if bad:
        return ('statement',) + bad
    for i, op in enumerate(ops):
        ml = model_lines[i] if i < len(model_lines) else '<none>'
        if op.startswith('hbulk'):
            continue                          # implementation-only: judged by the statement oracle above
        if op == 'shape':
            if shapes is not None:
                shapes[0] += 1
                shapes[1] += impl[i][0] == ml
            continue
        if impl[i][0] != ml:
            return 'correspondence', i, 'implementation and model disagree at `%s`\n impl : %s\n model: %s' % (op, impl[i][0][:400], ml[:400])
    return None


def shrink(probe, ops, what, with_addr):
    """ddmin over the declaration ops of a failing case, keeping the kind of failure."""
    head = [o for o in ops if o.split()[0] in ('lexicon', 'new', 'hnew')]
    body = [o for o in ops if o.split()[0] not in ('lexicon', 'new', 'hnew')]
    last = body[-1:]
    decls = [o for o in body[:-1] if o.split()[0] in ('decl', 'hadd')]

    def fails(sub):
        # obs/probe ops may refer to declarations that were removed: only the final observation is kept
        fin = last if last and last[0].split()[0] not in ('obs',) else ['full']
        if head and head[-1].startswith('hnew'):
            fin = ['hfull']
        p = first_problem(probe, head + sub + fin, with_addr)
        return p is not None and p[0] == what
    if not decls or not fails(decls):
        return ops
    small = C.ddmin(decls, fails, max_tests=80)
    fin = last if last and last[0].split()[0] not in ('obs',) else ['full']
    if head and head[-1].startswith('hnew'):
        fin = ['hfull']
    return head + small + fin


def run(tier):
    res = C.Result(PID, tier)
    rng = random.Random(C.seed() * 7919 + 7)
    ok, info, detail = C.prove(res, PID)
    thorough = tier == 'thorough'
    whitebox = False
    probe = None
    if thorough:
        try:
            probe = C.build_harness('c07probe', 'asan', extra=('-DC07_WHITEBOX',), whitebox=True)
            whitebox = True
        except C.BuildError as e:
            C.log('[C07] white-box probe does not build against this tree; tree shapes are not compared:\n' + str(e)[-600:])
    if probe is None:
        probe = C.build_harness('c07probe', 'asan', whitebox=False)

    cases = generate(tier, rng, whitebox)
    ops, starts = assemble(cases, rng)
    shapes, stats = [0, 0], []
    problem = first_problem(probe, ops, whitebox, shapes, stats)
    if problem:
        what, i, msg = problem
        seq = case_of(ops, i)
        try:
            seq = shrink(probe, seq, what, whitebox)
        except Exception as e:                               # shrinking is best effort
            C.log('[C07] shrinking failed: %r' % e)
        # A failure may depend on the ADDRESSES the allocator hands out (the order of the name / type nodes), which depend on everything
        # the process did before: when the scope alone does not fail again, the replay is the whole op stream up to the failing op.
        try:
            again = first_problem(probe, seq, whitebox)
            if not (again and again[0] == what):
                seq = ops[:i + 1]
                msg += '\n(the scope alone does not fail again in a fresh process -- the failure depends on node addresses; the replay is the whole op stream up to that op)'
        except Exception as e:
            C.log('[C07] re-running the replay failed: %r' % e)
        if what == 'correspondence':
            res.violation('correspondence:scope', msg + '\nthe implementation trace itself satisfies the statement of C07 (oracle), '
                          'so the theorems no longer speak about this code',
                          'correspondence: harness/c07probe.cxx vs lean/IprModel/Scope.lean (theorems IprProps/C07.lean)\n' + '\n'.join(seq),
                          found_input=False)
        else:
            res.violation(what, msg, '\n'.join(seq))
    if not ok:
        res.proof_broken('IprProps.C07', detail)

    # evidence: what was visited
    labels, kinds, branch, maxlen = {}, {}, {}, 0
    for _, label in starts:
        labels[label] = labels.get(label, 0) + 1
    cur = 0
    for op in ops:
        w = op.split()
        if w[0] == 'decl':
            kinds[w[1]] = kinds.get(w[1], 0) + 1
            cur += 1
            maxlen = max(maxlen, cur)
        elif w[0] == 'new':
            cur = 0
    for s in stats:
        b = s.split('case=')[-1]
        branch[b] = branch.get(b, 0) + 1
    for label, c in cases:
        if label.startswith('random-short') or label.startswith('homogeneous-param'):
            res.sample({'kind': label, 'ops': c[:14], 'n_ops': len(c)}, cap=4)
    res.cov['traces_validated_against_impl'] = len(starts)
    res.cov['ops'] = len(ops)
    res.cov['declarations_entered'] = sum(kinds.values())
    res.cov['declaration_kinds'] = dict(sorted(kinds.items()))
    res.cov['make_branches(new-name/new-type/redeclare)'] = dict(sorted(branch.items()))
    res.cov['case_kinds'] = dict(sorted(labels.items()))
    res.cov['longest_history'] = maxlen
    res.cov['full_observations'] = sum(1 for o in ops if o in ('full', 'hfull', 'sets', 'elems'))
    res.cov['exhaustive'] = False
    res.cov['exhaustive_part'] = 'all histories of length <= %d over 2 names x 2 types (kinds and nodes drawn at random per history)' % (7 if thorough else 5)
    if thorough:
        res.cov['tree_shapes_compared(white-box, evidence only)'] = shapes[0]
        res.cov['tree_shapes_equal'] = shapes[1]
    res.assumptions += [
        'each (name,type) pair is declared through one Scope::make_* kind (otherwise decl_factory::redeclare casts the entry to the wrong master_decl_data: undefined behaviour, outside the model)',
        'homogeneous scopes: the lookup rules of the general scope are claimed only for pairwise distinct member names (documented precondition, impl:582-588); '
        'sequences with repeated names are compared with the model and with the first-member rule only',
        'node addresses are a parameter of the model: observations are proved independent of them; exact tree shapes are compared in the thorough tier as evidence only',
    ]
    return res.finish(info, rule='a trace is one scope: all 4^L histories over 2 names x 2 types (each prefix observed once in full), random histories with '
                      'Zipf-like repetition over 2-6 names x 2-6 types x all eight make_* kinds (full observation after every declaration for short ones, '
                      'scopes of 12-40 names of every name category in a universe of 40 names whose creation order is shuffled per Lexicon, '
                      'periodically for long ones up to %d entries: elements, product type, every overload by name, every entry by type, master and decl_set), '
                      'and parameter-list / enumerator / base / handler sequences; the statement is evaluated on the real trace (python oracle built from the '
                      'history alone), then the real trace is diffed against the Lean model' % (20000 if thorough else 500))


def replay(path):
    """Re-run the op lines of a replay file on both sides and print what each answers."""
    ops = [l.strip() for l in open(path) if l.strip() and not l.startswith('#') and not l.startswith('correspondence:') and not l.startswith('theorem')]
    C.lean_build(['model_c07'])
    probe = C.build_harness('c07probe', 'asan', whitebox=False)
    rc_i, impl, err_i, model_lines, _ = run_both(probe, ops, False)
    for i, op in enumerate(ops):
        il = impl[i] if i < len(impl) else ('<none>', [], [])
        ml = model_lines[i] if i < len(model_lines) else '<none>'
        print('%-24s impl : %s %s\n%-24s model: %s' % (op, il[0][:600], ' '.join(il[1]), '', ml[:600]))
    p = first_problem(probe, ops, False)
    if p:
        print('VIOLATION property=C07 replay=%s' % path)
        print('%s: %s' % (p[0], p[2]))
        return 1
    print('replay: property holds on this input')
    return 0
