"""C19 — destroying a Lexicon frees all its memory; live use never touches dead storage (DESIGN.md §4 C19).  *partial*

Layer P: lean/IprProps/C19.lean over lean/IprModel/Own.lean (ownership of tables, arena pools, farms).
Layer T: harness/allocprobe.cxx (real library, ASan+UBSan, counting operator new/delete, LeakSanitizer) against the
native model driver model_c19 on random construction histories; many Lexicons per process.
"""
import random, re
from . import common as C

PID = 'C19'
MANIFEST = dict(
    text='Theorems C19_* (lean/IprProps/C19.lean) prove for the ownership model of a Lexicon (owning red-black tables with the '
         'post-order destroy_subtree of include/ipr/utility as written, the string arena\'s pool chain incl. oversize pools, farms as '
         'opaque owners): for every baseline free store and every construction history (unify-inserts with fresh or duplicate keys, '
         'arena allocations of any length, farm makes, tables/farms created on the way) destruction returns the free store to exactly '
         'the baseline with no erroneous release; a table\'s destructor releases each node exactly once and nothing else (also on the '
         'linked structure: destroy_subtree never reads or releases a dead cell and leaves all other cells untouched); ~arena '
         'releases every pool ever created. Tied to the real library by a probe with counting operator new/delete (live blocks and '
         'bytes back to the baseline after each destroyed Lexicon, per-call block deltas and white-box node/pool counts equal to the '
         'model\'s), LeakSanitizer after every Lexicon, all under ASan+UBSan. PARTIAL: that std::forward_list/deque/vector/map free '
         'what they own is trusted; "never touches dead storage" is observed by ASan on the generated histories, not proved; units '
         'destroyed while their Lexicon lives on are exercised by a separate ASan scenario (harness/unitlife.cxx), outside the model.',
    note='Lean kernel; axioms propext/Classical.choice/Quot.sound; hand-written model tied by correspondence on generated histories '
         '(about 35 factory kinds, scopes/declarations, units/modules, printing); harness allocprobe.cxx, ASan/UBSan/LSan, g++.',
    technique='Lean 4 theorems (ownership invariant over all histories) + differential correspondence of allocation counts + sanitizers',
    ref='§4 C19')

UNARY_TYPE_TABLES = ['pointers', 'references', 'refrefs', 'convs', 'ctors', 'dtors']
UNARY_EXPR_FARMS = ['nots', 'derefs', 'addresses', 'unary_minuses', 'complements', 'expr_stmts', 'returns']
BINARY_EXPR_FARMS = ['pluses', 'minuses', 'muls', 'assigns', 'commas', 'equals', 'lesses']
DECL_KINDS = ['var', 'field', 'typedecl']
SMALL_LENS = [3, 4, 5, 6, 7, 8, 9, 10, 15, 16, 17, 23, 24, 25, 31, 32, 33, 40, 100, 1000]


class Gen:
    """Generator of well-sorted construction programs for one Lexicon (shared with C20)."""

    def __init__(self, rng, prefix='h'):
        self.rng = rng
        self.prefix = prefix
        self.n = 0
        self.ops = []
        self.pool = {k: [] for k in ('type', 'expr', 'name', 'ident', 'str', 'prod', 'sum', 'fun', 'region', 'class',
                                     'enum', 'module', 'decl', 'unit', 'symF', 'forall')}
        self.wordlen = {}
        self.declkind = {}          # (region, name) -> op kind
        self.kinds = {}
        self.ment = {}              # handle -> user-defined types its construction mentions
        self.reach = {}             # user-defined type -> user-defined types reachable through what was attached to it

    def fresh(self):
        self.n += 1
        return '%s%d' % (self.prefix, self.n)

    def emit(self, op, args, sorts):
        h = self.fresh()
        self.ops.append(' '.join([h, op] + [str(a) for a in args]))
        for s in sorts:
            self.pool[s].append(h)
        m = set()
        for a in args:
            m |= self.ment.get(a, set())
        if op in ('ns', 'class', 'union', 'enum'):
            m = {h}
            self.reach[h] = set()
        self.ment[h] = m
        key = op if op not in ('u', 'm') else '%s %s' % (op, args[0])
        self.kinds[key] = self.kinds.get(key, 0) + 1
        return h

    def pick(self, sort):
        return self.rng.choice(self.pool[sort])

    def attachable(self, owner, *things):
        """May `things` be attached to the user-defined type (or region) `owner` without making the graph cyclic?
        (A class whose base or member type mentions the class itself needs a name to be printable; the programs stay
        acyclic instead.)  Records the new edges when the answer is yes."""
        if owner not in self.reach:
            return True                      # a unit's or sub-region's scope: no type can mention it
        new = set()
        for t in things:
            for u in self.ment.get(t, set()):
                new |= {u} | self.reach.get(u, set())
        if owner in new:
            return False
        self.reach[owner] |= new
        for u, r in self.reach.items():
            if owner in r:
                r |= new
        return True

    def word(self, big=None):
        rng = self.rng
        if big is not None:
            wid = 100000 + len(self.wordlen)
            self.wordlen[wid] = big
            return wid, big
        wid = rng.randrange(0, 40)
        if wid not in self.wordlen:
            self.wordlen[wid] = max(rng.choice(SMALL_LENS), len('w%d_' % wid))
        return wid, self.wordlen[wid]

    def prelude(self):
        for k in self.rng.sample(range(26), 4):
            self.emit('bt', [k], ['type', 'expr'])
        self.emit('sy', [0], ['expr', 'symF'])
        self.emit('identw', list(self.word()), ['name', 'ident'])
        self.emit('unit', [], ['region', 'unit'])

    def step(self):
        """One random well-sorted factory call (weighted choice among the calls whose operand pools are not empty)."""
        rng, P, E = self.rng, self.pool, self.emit
        pk = self.pick

        def ident_like(h):
            op = rng.choice(['ident', 'ident', 'ident', 'logo', 'link'])
            return E(op, [h], ['name', 'ident'] if op == 'ident' else [])

        def seq():
            ts = [pk('type') for _ in range(rng.choice([0, 1, 1, 2, 2, 3, 5]))]
            return E('prod', ts, ['type', 'expr', 'prod']) if rng.random() < 0.7 else E('sum', ts, ['type', 'expr', 'sum'])

        def attach(op, owner, thing):
            return E(op, [owner, thing], ['decl', 'expr']) if self.attachable(owner, thing) else None

        def declare():
            reg, nm = pk('region'), pk('name')              # a name keeps one declaration kind per region -- except that functions,
            kind = self.declkind.get((reg, nm))             # primary and secondary templates share names (`void f(int); template<class T> void f(T);`)
            if kind is None:
                kind = rng.choice(DECL_KINDS + (['fundecl'] if P['fun'] else []) + (['ptmpl'] if P.get('forall') else []))
                self.declkind[(reg, nm)] = kind
            if kind in ('fundecl', 'ptmpl', 'stmpl'):
                kind = rng.choice([k for k in ('fundecl', 'ptmpl', 'stmpl', 'stmpl') if (k == 'fundecl' and P['fun']) or (k != 'fundecl' and P.get('forall'))] or [kind])
            ty = pk('fun') if kind == 'fundecl' else pk('forall') if kind in ('ptmpl', 'stmpl') else pk('type')
            if not self.attachable(reg, nm, ty):
                return None
            return E(kind, [reg, nm, ty], ['decl', 'expr'])

        table = [
            (3, True, lambda: E('bt', [rng.randrange(26)], ['type', 'expr'])),
            (1, True, lambda: E('sy', [rng.randrange(5)], ['expr'])),
            (4, True, lambda: E('str', list(self.word()), ['str'])),
            (6, True, lambda: E('identw', list(self.word()), ['name', 'ident'])),
            (3, P['str'], lambda: ident_like(pk('str'))),
            (2, True, lambda: ident_like(E('ks', [rng.randrange(7)], ['str']))),
            (1, True, lambda: ident_like(E('es', [], ['str']))),
            (8, True, lambda: E('u', [rng.choice(UNARY_TYPE_TABLES[:3]), pk('type')], ['type', 'expr'])),
            (3, True, lambda: E('u', [rng.choice(UNARY_TYPE_TABLES[3:]), pk('type')], ['name'])),
            (5, True, lambda: E('qual', [rng.randrange(1, 8), pk('type')], ['type', 'expr'])),
            (5, True, seq),
            (4, P['prod'], lambda: E('u', ['functions', pk('prod'), pk('type'), pk('symF') if rng.random() < 0.6 else pk('expr')],
                                     ['type', 'expr', 'fun'])),
            (1, P['prod'] and P['sum'], lambda: E('u', ['tors', pk('prod'), pk('sum')], ['type', 'expr'])),
            (2, P['prod'], lambda: E('u', ['foralls', pk('prod'), pk('type')], ['type', 'expr', 'forall'])),
            (2, True, lambda: E('u', ['arrays', pk('type'), pk('expr')], ['type', 'expr'])),
            (2, True, lambda: E('u', ['member_ptrs', pk('type'), pk('type')], ['type', 'expr'])),
            (2, True, lambda: E('u', ['type_refs', pk('expr')], ['type', 'expr'])),
            (1, P['ident'], lambda: E('u', ['suffixes', pk('ident')], ['name'])),
            (1, P['ident'], lambda: E('u', ['extendeds', pk('ident')], ['type', 'expr'])),
            (1, P['str'], lambda: E('u', ['ops', pk('str')], ['name'])),
            (1, True, lambda: E('operw', list(self.word()), ['name'])),
            (3, True, lambda: E('litw', [pk('type')] + list(self.word()), ['expr'])),
            (2, P['str'], lambda: E('u', ['lits', pk('type'), pk('str')], ['expr'])),
            (2, True, lambda: E('u', ['symbols', pk('name'), pk('type')], ['expr'])),
            (1, True, lambda: E('this', [pk('type')], ['expr'])),
            (1, P['ident'], lambda: E('label', [pk('ident')], ['expr'])),
            (1, True, lambda: E('decltype', [pk('expr')], ['type', 'expr'])),
            (3, True, lambda: E('m', [rng.choice(UNARY_EXPR_FARMS), pk('expr')], ['expr'])),
            (3, True, lambda: E('m', [rng.choice(BINARY_EXPR_FARMS), pk('expr'), pk('expr')], ['expr'])),
            (1, True, lambda: E('m', [rng.choice(['phantoms', 'xlists'])], ['expr'])),
            (1, True, lambda: E('m', ['autos'], ['type', 'expr'])),
            (1, True, lambda: E('m', ['scasts', pk('type'), pk('expr')], ['expr'])),
            (1, True, lambda: E('m', ['id_exprs', pk('name')], ['expr'])),
            (1, True, lambda: E('unit', [], ['region', 'unit'])),
            (1, True, lambda: E('module', [], ['region', 'unit', 'module'])),
            (1, P['module'], lambda: E('munit', [pk('module')], ['region', 'unit'])),
            (2, True, lambda: E(rng.choice(['ns', 'union']), [pk('region')], ['region', 'type', 'expr'])),
            (2, True, lambda: E('class', [pk('region')], ['region', 'type', 'expr', 'class'])),
            (1, True, lambda: E('subregion', [pk('region')], ['region'])),
            (1, True, lambda: E('enum', [pk('region')], ['type', 'expr', 'enum'])),
            (2, P['enum'], lambda: attach('enumerator', pk('enum'), pk('name'))),
            (2, P['class'], lambda: attach('base', pk('class'), pk('type'))),
            (12, True, declare),
        ]
        table = [(w, f) for w, c, f in table if c]
        x = rng.random() * sum(w for w, _ in table)
        for w, f in table:
            x -= w
            if x < 0:
                return f()
        return table[-1][1]()

    def prints(self, k):
        rng, P = self.rng, self.pool
        for _ in range(k):
            how = rng.choice(['expr', 'type', 'decl', 'unit', 'unit'])
            src = {'expr': 'expr', 'type': 'type', 'decl': 'decl', 'unit': 'unit'}[how]
            if P[src]:
                self.ops.append('%s print %s %s' % (self.fresh(), how, self.pick(src)))
                self.kinds['print ' + how] = self.kinds.get('print ' + how, 0) + 1


def gen_program(rng, size, arena=None, prefix='h', stats=True):
    """Op lines (without `new` / `destroy`) of one Lexicon.  arena: None | 'roll' | 'oversize' | 'exact'."""
    g = Gen(rng, prefix)
    if arena == 'exact':                 # two strings that fill the first pool to the last header (65000 + 536 headers)
        g.emit('str', list(g.word(big=16 * 64999 + 1)), ['str'])
        g.emit('str', list(g.word(big=rng.choice([8553, 8560, 8568]))), ['str'])
        if stats:
            g.ops.append('stat')
    g.prelude()
    for i in range(size):
        g.step()
        if stats and i % 12 == 11:
            g.ops.append('stat')
        if i % 9 == 8:
            g.prints(1)
        if arena and i == size // 2:
            if arena == 'exact':
                pass
            elif arena == 'roll':          # more than one regular pool
                # strings of at most bufsz bytes until the head pool rolls over (a longer one would get an oversize pool)
                for k in range(rng.choice([17, 18, 34])):
                    g.emit('str', list(g.word(big=rng.choice([65000, 65536, 64000]))), ['str'])
            else:                        # fill the head pool, then strings that cannot fit a regular pool
                g.emit('str', list(g.word(big=rng.choice([1040000, 1048000, 1048560]))), ['str'])
                g.emit('str', list(g.word(big=rng.choice([65537, 70000, 200000]))), ['str'])
                g.emit('litw', [g.pick('type')] + list(g.word(big=rng.choice([65536, 65600, 3000000]))), ['expr'])
                g.emit('identw', list(g.word(big=20000)), ['name', 'ident'])
    g.prints(3)
    if stats:
        g.ops.append('stat')
    return g.ops, g.kinds


def lexicon_programs(tier, rng):
    n = 50 if tier == 'quick' else 2000
    out = []
    for i in range(n):
        arena = None
        if i % 10 == 3:
            arena = 'roll'
        elif i % 10 == 7:
            arena = 'oversize'
        elif i % 10 == 5:
            arena = 'exact'
        size = rng.choice([5, 20, 40, 80, 150, 300]) if tier == 'quick' else rng.choice([3, 10, 30, 60, 100, 200])
        if i == 0:
            size = 0
        ops, kinds = gen_program(rng, size, arena)
        out.append((['new'] + ops + ['destroy'], kinds, arena))
    return out


def build_probe(name='allocprobe', flavor='asan'):
    """The probe reads private tables (-fno-access-control).  If those members no longer exist the black-box part still
    runs (balance, sanitizers) and the broken white-box correspondence is reported (DESIGN §7)."""
    try:
        return C.build_harness(name, flavor), None
    except C.BuildError as e:
        return C.build_harness(name, flavor, extra=('-DPROBE_BLACKBOX',)), str(e)


def run_probe(probe, text, lsan=True):
    env = {'ASAN_OPTIONS': 'detect_leaks=%d:abort_on_error=0:allocator_may_return_null=1:detect_stack_use_after_return=1' % (1 if lsan else 0),
           'LSAN_OPTIONS': 'print_suppressions=0'}
    return C.run_exe(probe, ['--lsan'] if lsan else [], text, env=env)


def pair_up(ops, raw):
    """[(compared line, [@ lines], [# lines])] per op from the probe's raw output."""
    out = []
    for ln in raw.splitlines():
        if ln.startswith('@'):
            if out:
                out[-1][1].append(ln)
        elif ln.startswith('#'):
            if out:
                out[-1][2].append(ln)
        else:
            out.append((ln, [], []))
    return out


def oracle(ops, impl):
    """The statement of C19 evaluated on the implementation trace alone: (op index, key, message) or None."""
    for i, (op, (line, asserts, _)) in enumerate(zip(ops, impl)):
        if op == 'destroy':
            m = re.match(r'destroyed leak=(-?\d+) bad=0$', line)
            if not m:
                return i, 'destroy', '`destroy` answered `%s`' % line
            if m.group(1) != '0':
                return i, 'leak:blocks', 'destroying the Lexicon (and its units) left %s free-store block(s) allocated on its behalf' % m.group(1)
        for a in asserts:
            if not a.endswith('=1'):
                what = a[1:].split('=')[0]
                msg = {'bytes_back_to_baseline': 'live bytes did not return to the baseline taken before the Lexicon was constructed',
                       'lsan_clean': 'LeakSanitizer reports a leak after the Lexicon was destroyed',
                       'print_leaves_no_block': 'a printing call left free-store blocks allocated'}.get(what, what)
                return i, 'leak:' + what, '%s (after `%s`)' % (msg, op)
        if ' !L' in line or ' !X' in line:
            return i, 'exception', '`%s` raised: %s' % (op, line)
    return None


def lexicon_of(ops, i):
    """Ops of the Lexicon that contains op i: from its `new` to i (closed by `destroy`)."""
    s = max(j for j in range(i + 1) if ops[j] == 'new')
    seq = ops[s:i + 1]
    if seq[-1] != 'destroy':
        seq = seq + ['destroy']
    return seq


def sanitizer_kind(err):
    m = re.search(r'ERROR: (?:AddressSanitizer|LeakSanitizer): ([A-Za-z-]+)', err)
    if m:
        return m.group(1)
    if 'runtime error' in err:
        return 'undefined-behaviour'
    return 'exit'


def evaluate(seq, rc, out, err, model_out):
    """(kind, key, message, op index); kind in ok|crash|statement|diff."""
    impl = pair_up(seq, out)
    if len(impl) < len(seq):
        i = min(len(impl), len(seq) - 1)
        first = next((l for l in err.splitlines() if 'ERROR' in l or 'runtime error' in l), err.strip().splitlines()[-1] if err.strip() else '')
        return 'crash', 'crash:' + sanitizer_kind(err), 'allocprobe stopped (exit %d) at op %d `%s`: %s\n%s' % (
            rc, i, seq[i], first[:300], '\n'.join(err.splitlines()[:25])), i
    bad = oracle(seq, impl)
    if bad:
        return 'statement', bad[1], bad[2], bad[0]
    if rc != 0:
        return 'crash', 'crash:' + sanitizer_kind(err), 'allocprobe exited with %d after the last op: %s' % (rc, err[-1500:]), len(seq) - 1
    if model_out is None:
        return 'ok', '', '', len(seq)
    model, _, _ = C.split_streams(model_out)
    d = C.first_diff([l for l, _, _ in impl], model)
    if d is not None:
        i = min(d, len(seq) - 1)
        return 'diff', 'correspondence:ownership', 'implementation and model disagree at op %d `%s`\n impl : %s\n model: %s' % (
            d, seq[i], impl[d][0] if d < len(impl) else '<none>', model[d] if d < len(model) else '<none>'), i
    return 'ok', '', '', len(seq)


def judge(probe, seq, lsan=True):
    """Run one op sequence on both sides."""
    text = '\n'.join(seq) + '\n'
    rc, out, err = run_probe(probe, text, lsan)
    rc_m, out_m, err_m = C.run_model('c19', text)
    return evaluate(seq, rc, out, err, out_m)


def shrink(probe, seq, kind, key):
    """ddmin over the ops between `new` and `destroy`, keeping the same kind of failure."""
    if len(seq) < 4:
        return seq
    body = seq[1:-1] if seq[-1] == 'destroy' else seq[1:]
    tail = ['destroy']

    def fails(items):
        k, ky, _, _ = judge(probe, ['new'] + items + tail, lsan=(kind != 'diff'))
        return k == kind and ky == key
    if not fails(body):
        return seq
    small = C.ddmin(body, fails, max_tests=150)
    return ['new'] + small + tail


def run(tier):
    res = C.Result(PID, tier)
    rng = random.Random(C.seed() * 104729 + 19)
    ok, info, detail = C.prove(res, PID)
    probe, whitebox_error = build_probe()

    programs = lexicon_programs(tier, rng)
    ops = [o for p, _, _ in programs for o in p]
    text = '\n'.join(ops) + '\n'
    rc_i, out_i, err_i = run_probe(probe, text)
    rc_m, out_m, err_m = C.run_model('c19', text)
    if rc_m != 0:
        raise C.BuildError('model driver failed: ' + err_m[-2000:])
    impl = pair_up(ops, out_i)
    model, _, _ = C.split_streams(out_m)

    def report(i, kind, key, msg):
        seq = lexicon_of(ops, i)
        k2, key2, msg2, _ = judge(probe, seq)
        if k2 == kind and key2 == key:                      # reproduces on the one Lexicon alone: minimise it
            seq = shrink(probe, seq, kind, key)
            k3, _, msg3, _ = judge(probe, seq)
            msg = msg3 if k3 == kind else msg2
        else:                                               # needs the earlier Lexicons of the process: keep them
            seq = ops[:i + 1] + ([] if ops[i] == 'destroy' else ['destroy'])
        found = kind != 'diff'
        extra = '' if found else ('\nthe implementation trace itself satisfies the statement of C19 (balance, LeakSanitizer, '
                                  'AddressSanitizer), so the theorems no longer speak about this code')
        head = '' if found else 'correspondence: harness/allocprobe.cxx vs lean/IprModel/Own.lean (theorems IprProps/C19.lean)\n'
        res.violation(key, msg + extra, head + '\n'.join(seq), found_input=found)

    kind, key, msg, at = evaluate(ops, rc_i, out_i, err_i, None if whitebox_error else out_m)
    if kind != 'ok':
        report(at, kind, key, msg)
    if whitebox_error:
        res.violation('correspondence:whitebox', 'the white-box part of harness/allocprobe.cxx (node counts of the owning tables, pool '
                      'chain) no longer compiles against the current tree; the black-box part (block/byte balance, LeakSanitizer, '
                      'AddressSanitizer) was run%s\n%s' % (' and holds' if kind == 'ok' else '', whitebox_error[-2500:]),
                      'correspondence: harness/allocprobe.cxx (white-box reads) vs the private members of impl::Lexicon / util::rb_tree / '
                      'util::string::arena\n' + whitebox_error[-4000:], found_input=False)
    if not ok:
        res.proof_broken('IprProps.C19', detail)

    # units destroyed while their Lexicon lives on (histories the model's probe does not generate): sanitizers only
    ul_runs, ul_lines = unit_lifetimes(res, tier)

    # coverage
    kinds = {}
    for _, k, _ in programs:
        for a, b in k.items():
            kinds[a] = kinds.get(a, 0) + b
    pools = {}
    nodes_max = 0
    deltas = {}
    for (line, _, _), op in zip(impl, ops):
        if op == 'stat':
            m = re.match(r'stat tn=(\d+) tc=\d+ pools=(\S+)', line)
            if m:
                nodes_max = max(nodes_max, int(m.group(1)))
        m = re.search(r' \+(\d+|\?)$', line)
        if m:
            deltas[m.group(1)] = deltas.get(m.group(1), 0) + 1
    for i, op in enumerate(ops):
        if op == 'destroy' and i > 0 and ops[i - 1] == 'stat' and i - 1 < len(impl):
            m = re.search(r'pools=(\S+)', impl[i - 1][0])
            if m:
                sizes = m.group(1).split(',')
                key = '%d pools%s' % (len(sizes), ' incl. oversize' if any(s not in ('1048584', '-') for s in sizes) else '')
                pools[key] = pools.get(key, 0) + 1
    res.cov['traces_validated_against_impl'] = len(programs)
    res.cov['lexicons_destroyed_in_one_process'] = len(programs)
    res.cov['ops'] = len(ops)
    res.cov['op_kinds'] = dict(sorted(kinds.items()))
    res.cov['pool_chains_at_destruction'] = pools
    res.cov['max_live_table_nodes'] = nodes_max
    res.cov['blocks_left_by_a_call(distribution)'] = dict(sorted(deltas.items()))
    res.cov['leak_checks(LeakSanitizer recoverable)'] = sum(1 for _, a, _ in impl for x in a if x.startswith('@lsan_clean'))
    res.cov['exhaustive'] = False
    for p, _, arena in programs[1:4]:
        res.sample({'arena': arena, 'n_ops': len(p), 'first_ops': p[:14]})
    res.assumptions += [
        'std::forward_list / std::deque / std::vector / std::map release what they own (farms and sequences are opaque owners in the model); '
        'observed by the block/byte balance and LeakSanitizer, not proved',
        '"live use never touches dead storage" is observed by AddressSanitizer/UBSan on the generated histories (use-after-free, '
        'out-of-bounds abort the probe = violation), not proved',
        'nesting of owners is flattened in the model (a Namespace in a farm owns its Region, Scope, tables): the set of released '
        'blocks does not depend on the order',
        'units destroyed while their Lexicon lives on are exercised by harness/unitlife.cxx under AddressSanitizer only: the ownership model '
        '(IprModel/Own.lean) destroys units together with their Lexicon',
        'a std::hash collision between two generated words would change one block count (probability ~1e-13 per run)',
    ]
    return res.finish(info, rule='one process constructs and destroys 50 (quick) / 2000 (thorough) Lexicons; each history = random '
                      'well-sorted factory calls (built-ins, strings/identifiers/operators incl. reserved and empty words, unified types, '
                      'products/sums/functions, literals, symbols, generative expressions, units/modules, namespaces/classes/unions/enums, '
                      'sub-regions, declarations and redeclarations, base classes) with printing through ipr::Printer in between, 1 in 10 '
                      'with several regular pools, 1 in 10 with oversize pools, 1 in 10 filling the first pool to its last header; compared per call: node identity (first-appearance '
                      'names), free-store blocks left by the call; periodically and before destruction: white-box number of nodes of all '
                      'owning red-black tables (walked and counted), pool chain sizes, remaining headers; after destruction: block and '
                      'byte balance against the baseline, LeakSanitizer; a trace is one Lexicon')


UL_ENV = {'ASAN_OPTIONS': 'detect_leaks=1:abort_on_error=0:allocator_may_return_null=1:detect_stack_use_after_return=1',
          'LSAN_OPTIONS': 'print_suppressions=0'}


def unit_lifetimes(res, tier):
    """harness/unitlife.cxx: one Lexicon serves many units, each destroyed (at once, later, out of order) while the Lexicon is
    asked for further guide names / decltypes / as-types / pointers over declarations of live and dead units."""
    exe = C.build_harness('unitlife', 'asan', whitebox=False)
    rounds = 12 if tier == 'quick' else 80
    seeds = [C.seed() * 31 + k for k in range(4 if tier == 'quick' else 40)]
    lines = 0
    for sd in seeds:
        rc, out, err = C.run_exe(exe, [str(sd), str(rounds)], '', env=UL_ENV)
        lines += len(out.splitlines())
        if rc != 0 or not out.rstrip().splitlines()[-1:] or not out.rstrip().splitlines()[-1].startswith('done'):
            last = (out.rstrip().splitlines() or ['<nothing printed>'])[-1]
            res.violation('unit-lifetime:' + sanitizer_kind(err),
                          'harness/unitlife.cxx stopped (exit %d) after `%s`: a unit was destroyed while its Lexicon lived on and a '
                          'later request on the Lexicon failed\n%s' % (rc, last, err[max(0, err.find('ERROR:')):][:3500]),
                          'unitlife %d %d' % (sd, rounds), found_input=True)
            break
    res.cov['unit_lifetime_runs(one Lexicon, units destroyed while it lives)'] = len(seeds)
    res.cov['unit_lifetime_rounds_per_run'] = rounds
    return len(seeds), lines


def replay(path):
    lines = [l.strip() for l in open(path)]
    for l in lines:
        if l.startswith('unitlife '):
            exe = C.build_harness('unitlife', 'asan', whitebox=False)
            rc, out, err = C.run_exe(exe, l.split()[1:], '', env=UL_ENV)
            print(out[-1500:]); print(err[-3000:])
            if rc != 0:
                print('VIOLATION property=C19 replay=%s' % path)
                return 1
            print('replay: property holds on this input')
            return 0
    ops = [l for l in lines if l and not l.startswith('#') and not l.startswith('correspondence:') and not l.startswith('theorem')]
    C.lean_build(['model_c19'])
    probe = C.build_harness('allocprobe', 'asan')
    text = '\n'.join(ops) + '\n'
    rc_i, out_i, err_i = run_probe(probe, text)
    rc_m, out_m, _ = C.run_model('c19', text)
    impl = pair_up(ops, out_i)
    model, _, _ = C.split_streams(out_m)
    for i, op in enumerate(ops):
        il = impl[i] if i < len(impl) else ('<none>', [], [])
        ml = model[i] if i < len(model) else '<none>'
        print('%-34s impl: %s %s\n%-34s model: %s' % (op[:34], il[0], ' '.join(il[1]), '', ml))
    kind, key, msg, _ = judge(probe, ops)
    if kind != 'ok':
        if kind == 'crash':
            print(err_i[-3000:])
        print('VIOLATION property=C19 replay=%s%s' % (path, ' no-failing-input-found' if kind == 'diff' else ''))
        print(msg)
        return 1
    print('replay: property holds on this input')
    return 0
