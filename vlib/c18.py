"""C18 — printing terminates and leaves the stream and the printer as it found them (DESIGN.md §4 C18)."""
import random, re
from concurrent.futures import ThreadPoolExecutor
from . import common as C
from . import printer_common as P

PID = 'C18'
MANIFEST = dict(
    text='Theorems C18_* (lean/IprProps/C18.lean) prove for the model of src/io.cxx (production table for every visitor class x '
         'category, interpreted with one unit of fuel per accept): on every heap whose operands decrease a rank (a built-in type may '
         'be its own operand) fuel 8*(rank+1) is never exhausted — the outcome is text or logic_error; the measure (node rank, visitor '
         'rank on that node) is checked by kernel evaluation over the whole table, which is what fails for a fallback that re-enters '
         'on the same node (F13/F15). Every run keeps basefield and fill (width only reset by an insertion), renders every number in '
         'the base the stream had at entry, writes only newline, printable ASCII or bytes of spellings stored in the graph, and every '
         'completed print restores Printer::indent(). The model is tied to the code by a sweep of one live node per category through '
         'xpr_expr/xpr_stmt/xpr_decl/xpr_type, each in a forked child with an 8 MiB stack and a time limit (crash/timeout/other '
         'exception = violation), literals over all 256 byte values followed by a number, all delimiters, statement nestings to '
         'depth 50 and random programs on dec/hex/oct streams; flags()/fill()/precision() and indent() are read before and after.',
    note='Lean kernel; axioms propext/Classical.choice/Quot.sound; hand-written model tied by correspondence on the enumerated / '
         'generated inputs only; stack depth, std::ostream and its locale are runtime behaviour (observed in the forked children, '
         'not proved); stream width/showbase/uppercase are not modelled; harness/printprobe.cxx, ASan/UBSan, g++.',
    technique='Lean 4 theorems (well-founded measure checked over the whole production table; state relations preserved by every '
              'instruction) + crash/flags sweep over all node kinds in forked children + differential text correspondence',
    ref='§4 C18')


# ---------------------------------------------------------------------------------------------- the sweep

def parse_sweep(out):
    cases, cur = [], None
    for ln in out.splitlines():
        if ln.startswith('case '):
            cur = {'head': ln, 'kind': P.field(ln, 'kind'), 'route': P.field(ln, 'route'), 'cat': int(P.field(ln, 'cat')),
                   'outcome': ln.split('outcome=')[1], 'results': [], 'dump': []}
        elif cur is None:
            continue
        elif ln.startswith('result '):
            cur['results'].append(ln)
        elif ln.startswith('node '):
            cur['dump'].append(ln)
        elif ln == 'endcase':
            cases.append(cur)
            cur = None
    return cases


def judge_sweep_case(c):
    """Statement of C18 on one (kind, route): [(key, message)]."""
    f = []
    tag = 'kind=%s:route=%s' % (c['kind'], c['route'])
    if not c['outcome'].startswith('done'):
        return [('crash:' + tag, 'printing a %s through xpr_%s did not return (%s): unbounded recursion, crash or time-out' % (c['kind'], c['route'], c['outcome']))]
    spell = P.spellings_of(c['dump'])
    for r in c['results']:
        st = P.field(r, 'status')
        if st not in ('ok', 'logic'):
            f.append(('exception:' + tag, 'printing a %s through xpr_%s ended with %s (neither text nor std::logic_error)' % (c['kind'], c['route'], st)))
        if P.field(r, 'flags_same') != '1' or P.field(r, 'base') != '10' or P.field(r, 'fill') != '32':
            f.append(('flags:' + tag, 'printing a %s through xpr_%s changed the stream state: %s' % (c['kind'], c['route'], r.split(' status=')[1])))
        if st == 'ok' and P.field(r, 'indent') != '0':
            f.append(('indent:' + tag, 'printing a %s through xpr_%s completed and left Printer::indent() = %s' % (c['kind'], c['route'], P.field(r, 'indent'))))
        bad = P.alphabet_violation(P.text_of(r), spell)
        if bad:
            f.append(('alphabet:' + tag, 'printing a %s through xpr_%s wrote byte 0x%02x at offset %d (not printable, not newline, in no spelling of the graph)' % (c['kind'], c['route'], bad[1], bad[0])))
    return f


CYCLE_KEY = 'cycle:unnamed-class-self-base'


def run_sweep(res, probe, names, only=None, mode='sweep'):
    """mode 'sweep': one node per category; mode 'cycles': graphs cyclic along printed operands and their acyclic neighbours.
    An overflow on a `Cycle*` graph is reported under the one stable key CYCLE_KEY (a known finding: the graph is outside the
    hypothesis of theorem C18_fuel); every other crash is an ordinary violation."""
    rc, out, err = C.run_exe(probe, [mode] + ([only] if only else []), '', timeout=1800, env=P.PROBE_ENV)
    cases = parse_sweep(out)
    stats = {'cases': len(cases), 'kinds': len({c['kind'] for c in cases}), 'categories_offered': sorted({names[c['cat']] for c in cases if c['cat'] < len(names)}),
             'outcomes': {}, 'model_compared': 0}
    if rc != 0 or not cases or not out.rstrip().endswith('kinds'):
        res.violation('crash:' + mode, 'the %s driver itself stopped (exit %s)\n%s' % (mode, rc, err[-2500:]), mode)
        return stats
    requests = []
    overflow = []
    for c in cases:
        if mode == 'cycles' and c['kind'].startswith('Cycle') and not c['outcome'].startswith('done'):
            overflow.append(c)
            stats['outcomes']['CRASH'] = stats['outcomes'].get('CRASH', 0) + 1
            continue
        for r in c['results']:
            s = P.field(r, 'status')
            stats['outcomes'][s] = stats['outcomes'].get(s, 0) + 1
        if not c['outcome'].startswith('done'):
            stats['outcomes']['CRASH'] = stats['outcomes'].get('CRASH', 0) + 1
        findings = judge_sweep_case(c)
        for key, msg in findings[:1]:
            res.violation(key, msg, '%s %s' % (mode, c['kind']))
        if not findings and c['dump']:
            for r in c['results']:
                loc = P.field(r, 'loc')
                line = re.sub(r' flags_same=\d', '', re.sub(r'^result loc=\d ', '', r))
                requests.append((c['dump'], 'print n0 %s loc=%s base=10' % (c['route'], loc), line, c))
    if overflow:
        by = {}
        for c in overflow:
            by.setdefault(c['kind'], []).append('xpr_' + c['route'])
        stats['cyclic_graph_overflows'] = by
        res.violation(CYCLE_KEY,
                      'printing a class whose base type is a Forall with that class as target does not return (stack overflow in a forked '
                      'child with an 8 MiB stack). Construction: c = make_class(global region) [name set or not: both overflow]; '
                      'f = get_forall(get_product({}), c); c.declare_base(f); S = declare_type("S", class_type()) with init = c. '
                      'xpr_type_expr_visitor::visit(Forall) prints its target through xpr_type_expr (the class body), whose base list prints f '
                      'again. Overflowing (node, route): %s. Not overflowing: xpr_* of the class itself (prints its name / logic_error when '
                      'unnamed), xpr_expr of the type declaration (prints "S"), and base types product(c) / function(product(c)) -> int, where '
                      'the class is reached through xpr_type (name, or logic_error when unnamed). The graph is cyclic along printed operands: '
                      'outside the hypothesis `Ranked` of theorem C18_fuel (C18_cyclic_class_outside_hypothesis shows the model exhausts every '
                      'fuel on it).' % '; '.join('%s: %s' % (k, ', '.join(v)) for k, v in sorted(by.items())),
                      'cycles')
    if requests:
        lines, _ = P.run_model_requests('c18', requests, names)
        seen = set()
        for (dump, mcmd, line, c), ml in zip(requests, lines + ['<none>'] * (len(requests) - len(lines))):
            stats['model_compared'] += 1
            if line != ml and (c['kind'], c['route']) not in seen:
                seen.add((c['kind'], c['route']))
                if P.first_report(res, 'correspondence:printer-sweep'):
                    res.violation('correspondence:printer-sweep',
                                  'implementation and model disagree on a %s offered through xpr_%s\n impl : %r %s\n model: %r %s\n'
                                  'the implementation outcome itself satisfies the statement of C18 (text or logic_error, flags, indentation, '
                                  'alphabet), so the theorems no longer speak about this code'
                                  % (c['kind'], c['route'], P.text_of(line)[:200], line.split(' ', 1)[1], P.text_of(ml)[:200] if ml.startswith('text=') else b'', ml.split(' ', 1)[1] if ' ' in ml else ml),
                                  'correspondence: harness/printprobe.cxx (%s) vs lean/IprModel/Printer.lean (theorems IprProps/C18.lean)\n%s %s' % (mode, mode, c['kind']),
                                  found_input=False)
    return stats


# ---------------------------------------------------------------------------------------------- enumerated inputs

def literal_script(tier):
    """Literals over all 256 byte values (alone, and between other characters), then a number, on dec / hex / oct streams."""
    cmds = ['new A', 'A v0 = builtin char']
    k = 1
    bodies = [bytes([b]) for b in range(256)] + [b'a' + bytes([b]) + b'b' for b in range(256)]
    bodies += [bytes(range(0, 32)), bytes(range(120, 140)), b'\\\\\n\r\t\x0b\x0c\x08\x07\x00\x01\x02\x03', b'']
    if tier == 'thorough':
        bodies += [bytes([a, b]) for a in (0, 1, 3, 4, 9, 10, 92, 255) for b in range(256)]
    for body in bodies:
        v = 'v%d' % k
        k += 1
        cmds.append('A %s = lit v0 %s' % (v, P.hexs(body)))
        cmds.append('dump A %s' % v)
        cmds.append('pos A %s 64 base=10' % v)
        if len(body) != 1 or body[0] % 16 == 1 or tier == 'thorough':
            cmds.append('pos A %s 64 base=16' % v)
            cmds.append('level A %s 9 base=8' % v)
        cmds.append('print A %s expr loc=0 base=10' % v)
    return cmds + ['del A']


def delimiter_script():
    cmds = ['new A', 'A v0 = id 78', 'A v1 = idexpr v0', 'A v2 = id 79', 'A v3 = idexpr v2', 'A v4 = xl v1 v3', 'A v5 = builtin int', 'A v6 = lit v5 37']
    k = 7
    for inner in ('v1', 'v4', 'v6'):
        for d in range(5):
            v = 'v%d' % k
            k += 1
            cmds += ['A %s = encl %d %s' % (v, d, inner), 'dump A %s' % v]
            for route in ('expr', 'stmt', 'decl'):
                cmds.append('print A %s %s loc=0 base=10' % (v, route))
            cmds.append('pos A %s 64 base=10' % v)
    return cmds + ['del A']


SHAPES = ['if', 'ifelse', 'while', 'do', 'for', 'switch', 'labeled', 'block', 'try', 'for_in']


def nesting_script(shapes, depth, rng, with_loc=True):
    """One statement nest: shapes[i % len] at level i, innermost `x;`."""
    cmds = ['new A', 'A v0 = id 78', 'A v1 = idexpr v0', 'A v2 = expr_stmt v1', 'A v3 = builtin int']
    cur = 'v2'
    k = 4

    def new(text):
        nonlocal k
        v = 'v%d' % k
        k += 1
        cmds.append('A %s = %s' % (v, text))
        return v
    for i in range(depth):
        sh = shapes[i % len(shapes)]
        if sh == 'if':
            cur = new('if v1 %s' % cur)
        elif sh == 'ifelse':
            other = new('expr_stmt v1')
            cur = new('if v1 %s %s' % ((other, cur) if i % 2 else (cur, other)))
        elif sh == 'while':
            cur = new('while v1 %s' % cur)
        elif sh == 'do':
            cur = new('do v1 %s' % cur)
        elif sh == 'for':
            cur = new('for v1 v1 v1 %s' % cur)
        elif sh == 'switch':
            cur = new('switch v1 %s' % cur)
        elif sh == 'labeled':
            lab = new('label v0')
            cur = new('labeled %s %s' % (lab, cur))
        elif sh == 'block':
            b = new('block g')
            cmds.append('A set add %s %s' % (b, cur))
            if i % 3 == 0:
                cmds.append('A set add %s v2' % b)
            cur = b
        elif sh == 'try':
            b = new('block g')
            cmds.append('A set add %s %s' % (b, cur))
            h = new('handler %s v0 v3' % b)
            cmds.append('A set add %s v2' % h)
            cur = b
        elif sh == 'for_in':
            r = new('region g')
            var = new('var %s v0 v3' % r)
            cur = new('for_in %s v1 %s' % (var, cur))
        if with_loc and rng.random() < 0.3:
            cmds.append('A set loc %s %d %d %d' % (cur, rng.randint(1, 99), rng.randint(0, 9999), rng.choice([0, rng.randint(1, 99)])))
    cmds.append('dump A %s' % cur)
    for loc in (0, 1):
        cmds.append('print A %s stmt loc=%d base=10' % (cur, loc))
    cmds.append('print A %s expr loc=1 base=16' % cur)
    cmds.append('print A %s decl loc=0 base=10' % cur)
    return cmds + ['del A']


def program_script(prog, rng):
    cmds = ['new A'] + prog.history_a('A')
    for root, route in prog.roots:
        cmds.append('dump A %s' % root)
        base = rng.choice([10, 10, 16, 8])
        cmds.append('print A %s %s loc=1 base=%d' % (root, route, base))
        cmds.append('print A %s %s loc=0 base=10' % (root, route))
        if route == 'expr':
            cmds.append('pos A %s %d base=%d' % (root, rng.randint(0, 10 ** 6), base))
        # implementation-only variants: a start indentation of the client's own (also negative), the same printer used again after
        # the print (completed or refused midway)
        if rng.random() < 0.5:
            cmds.append('print A %s %s loc=%d base=%d ind=%d' % (root, route, rng.randint(0, 1), base, rng.choice([-9, -3, -1, 3, 6, 12])))
        if rng.random() < 0.5:
            cmds.append('print A %s again:%s loc=0 base=%d ind=%d' % (root, route, base, rng.choice([0, 0, 3, -3])))
    # the whole unit through its own inserter, with the stream in another base / fill
    cmds.append('dump A gs')
    cmds.append('print A gs unit loc=%d base=%d fill=%d' % (rng.randint(0, 1), rng.choice([10, 16, 8]), rng.choice([32, 42, 48])))
    return cmds + ['del A']


def gen_scripts(tier, rng):
    groups = {'literals': [literal_script(tier)], 'delimiters': [delimiter_script()], 'nestings': [], 'programs': []}
    for sh in SHAPES:
        groups['nestings'].append(nesting_script([sh], 50, rng))
    groups['nestings'].append(nesting_script(SHAPES, 50, rng))
    for _ in range(30 if tier == 'quick' else 1500):
        shapes = [rng.choice(SHAPES) for _ in range(rng.randint(1, 6))]
        groups['nestings'].append(nesting_script(shapes, rng.randint(1, 50), rng))
    for _ in range(400 if tier == 'quick' else 12000):
        p = P.Program(rng, rng.randint(6, 60 if tier == 'quick' else rng.choice([60, 60, 150, 300])), unprintable=0.05)
        groups['programs'].append(program_script(p, rng))
    return groups


def run(tier):
    res = C.Result(PID, tier)
    rng = random.Random(C.seed() * 7919 + 18)
    ok, info, detail = C.prove(res, PID)
    probe = C.build_harness('printprobe', 'asan')
    names = P.cat_names()

    sweep = run_sweep(res, probe, names)
    cycles = run_sweep(res, probe, names, mode='cycles')
    groups = gen_scripts(tier, rng)
    scripts = [s for g in groups.values() for s in g]
    nchunks = 4 if tier == 'quick' else 12
    bounds = [round(k * len(scripts) / nchunks) for k in range(nchunks + 1)]

    def work(k):
        return P.check_scripts(res, scripts[bounds[k]:bounds[k + 1]], names, probe, relevant=P.C18_KEYS)
    with ThreadPoolExecutor(min(nchunks, max(2, C.NCPU // 2))) as ex:
        stats = list(ex.map(work, range(nchunks)))
    if not ok:
        res.proof_broken('IprProps.C18', detail)

    status = {}
    for s in stats:
        for k, v in s['status'].items():
            status[k] = status.get(k, 0) + v
    fnd = {}
    for s_ in stats:
        for k, v in s_.get('findings', {}).items():
            fnd[k] = fnd.get(k, 0) + v
    res.cov['traces_validated_against_impl'] = sweep['model_compared'] + cycles['model_compared'] + sum(s['model_compared'] for s in stats)
    res.cov['cyclic_graph_cases'] = cycles['cases']
    res.cov['cyclic_graph_outcomes'] = cycles['outcomes']
    res.cov['cyclic_graph_overflows(known finding %s)' % CYCLE_KEY] = cycles.get('cyclic_graph_overflows', {})
    res.cov['sweep_kind_route_pairs'] = sweep['cases']
    res.cov['sweep_kinds'] = sweep['kinds']
    res.cov['sweep_outcomes'] = sweep['outcomes']
    res.cov['sweep_categories_offered'] = sweep['categories_offered']
    res.cov['categories_never_offered'] = sorted(set(names) - set(sweep['categories_offered']) - {'last_code_cat'})
    res.cov['command_groups'] = {k: len(v) for k, v in groups.items()}
    res.cov['prints_on_the_implementation'] = sum(s['prints'] for s in stats)
    res.cov['print_outcomes'] = status
    res.cov['groups_with_findings'] = fnd
    res.cov['exhaustive'] = False
    res.sample({'sweep_case': 'kind=Promotion route=expr -> "(" then std::logic_error (strict second visit)'})
    res.sample({'literal': literal_script('quick')[2:8]})
    res.sample({'nesting': nesting_script(['if', 'try'], 3, random.Random(0))})
    res.assumptions += [
        'theorem C18_fuel assumes the graph is acyclic along printed operands (a rank decreasing along every stored address; only a built-in '
        'type may be its own operand). A class whose base type is a Forall targeting that class (named or not), or a member type declaration '
        'whose initializer is the enclosing class, violates that hypothesis: the real printer overflows its stack and the model exhausts every '
        'fuel (C18_cyclic_class_outside_hypothesis). The first is run in a forked child and reported as known finding ' + CYCLE_KEY + '; a cycle that '
        'passes through xpr_type of a NAMED class is cut (the name is printed), through an unnamed one it ends in logic_error',
        'categories_never_offered are not expressions and cannot be passed to xpr_* (Annotation, Region, Comment, String, Unit; the name categories, which the sweep prints as names of Id_expr nodes) or have no factory (Deduction_guide, Unknown)',
        'stack depth is observed in forked children with an 8 MiB stack (ASan build: larger frames than production), not proved; the theorem bounds the number of nested accepts',
        'std::ostream is trusted; only basefield / fill / precision / flags are read back; width, showbase, uppercase, locale are not modelled',
        'the heap given to the model is the dump of the real graph made by harness/printprobe.cxx through the public accessors io.cxx uses',
    ]
    return res.finish(info, rule='sweep: one live node per category (plus variants: every delimiter, try-blocks, empty loops, declarations without data, names '
                      'of every kind) x xpr_expr/xpr_stmt/xpr_decl/xpr_type, each pair in a forked child with an 8 MiB stack and an alarm, with and '
                      'without locations, outcome + text + flags + indentation compared with the model; literals: every byte value alone and '
                      'embedded, followed by Decl_position / Mapping_level on dec, hex and oct streams; every delimiter x 3 operands x 3 routes; '
                      'statement nests to depth 50 of every shape and random mixtures; random programs of the C17 generator printed on dec/hex/oct '
                      'streams with locations; a trace is one print compared with the model')


def replay(path):
    lines = [l.strip() for l in open(path) if l.strip() and not l.startswith('#') and not l.startswith('correspondence:') and not l.startswith('theorem')]
    C.lean_build(['model_c18'])
    probe = C.build_harness('printprobe', 'asan')
    names = P.cat_names()
    bad = False
    sweeps = [l for l in lines if l.split()[0] in ('sweep', 'cycles')]
    cmds = [l for l in lines if l.split()[0] not in ('sweep', 'cycles')]
    for sw in sweeps:
        w = sw.split()
        rc, out, err = C.run_exe(probe, w[0:2], '', timeout=1800, env=P.PROBE_ENV)
        cases = parse_sweep(out)
        reqs = []
        for c in cases:
            f = judge_sweep_case(c)
            print('%s %s via xpr_%s: %s' % (c['kind'], names[c['cat']], c['route'], c['outcome']))
            for r in c['results']:
                print('    %r %s' % (P.text_of(r)[:200], r.split(' status=')[1]))
                if c['dump'] and not f:
                    reqs.append((c['dump'], 'print n0 %s loc=%s base=10' % (c['route'], P.field(r, 'loc')), re.sub(r' flags_same=\d', '', re.sub(r'^result loc=\d ', '', r)), c))
            for k, m in f:
                print('  %s: %s' % (k, m))
                bad = True
        if reqs:
            ml, _ = P.run_model_requests('c18', reqs, names)
            for r, m in zip(reqs, ml):
                if r[2] != m:
                    print('  model DISAGREES on %s/%s: %r %s' % (r[3]['kind'], r[3]['route'], P.text_of(m)[:200], m.split(' ', 1)[1] if ' ' in m else m))
                    bad = True
    if cmds:
        (answers, crash), = P.run_probe_groups(probe, [cmds], timeout=300)
        findings, requests = P.judge_group(cmds, answers, crash, names)
        for c, a in zip(cmds, answers):
            if a and a['kind'] == 'print':
                print('%-40s %r %s' % (c, P.text_of(a['line'])[:200], a['line'].split(' ', 1)[1]))
        for k, m in findings:
            if k in P.C18_KEYS:
                print('%s: %s' % (k, m))
                bad = True
        if requests:
            ml, _ = P.run_model_requests('c18', requests, names)
            for r, m in zip(requests, ml):
                same = r[2] == m
                print('model %-34s %s %r' % (r[3], 'agrees' if same else 'DISAGREES:', b'' if same else P.text_of(m)[:200]))
                bad = bad or not same
    if bad:
        print('VIOLATION property=C18 replay=%s' % path)
        return 1
    print('replay: property holds on this input')
    return 0
