"""C13 — Lexicon constants are distinct, correctly spelled, self-describing, process-wide (DESIGN.md §4 C13).

T-regen: harness/c13probe.cxx creates several Lexicon instances in one process (one is destroyed and another created
later), surrounds the reserved spellings with look-alike nodes, and observes every constant through every public route
(accessor, identifier -> as-type, word/String -> linkage, identifier -> label, expression -> decltype).  The
observations, with nodes renamed canonically, are written to lean/Generated/Constants.lean; the theorems of
lean/IprProps/C13.lean (distinctness, documented spelling, self-description, same node from every instance, every route
returns the constant) are re-checked over the whole table.  The documented spellings are written once, by hand, in
IprProps/C13.lean; this file reads them from there to know which words to send through the routes.
"""
import os, random, re
from . import common as C
from . import c06 as C06

PID = 'C13'
MANIFEST = dict(
    text='Theorems C13_* (lean/IprProps/C13.lean), by kernel evaluation over a table regenerated on every run from >= 4 Lexicon instances '
         'in one process (one destroyed, one created afterwards): the 26 built-in type accessors return pairwise distinct nodes (325 '
         'pairs; 27 with `auto`), each an As_type naming itself with the documented C++ spelling, its own underlying expression, of type '
         '`typename`, with the natural C++ transfer; the five symbolic constants and the two standard linkages are distinct, spelled and '
         'typed as documented; every instance returns the same nodes; identifier -> as-type, word/String -> linkage, identifier -> '
         'label, expression -> decltype return the constant (look-alike nodes are created first); plus the general lemma that a '
         'first-match scan over duplicate-free names cannot return a neighbour.',
    note='Lean kernel; axioms propext/Classical.choice/Quot.sound; table produced by harness/c13probe.cxx (ASan/UBSan) and vlib/c13.py; '
         'documented spellings hand-written in IprProps/C13.lean from include/ipr/interface and src/builtin.def.',
    technique='Lean 4 theorems by kernel evaluation over tables regenerated from the implementation + general lemmas',
    ref='§4 C13')

GEN = os.path.join(C.LEAN, 'Generated', 'Constants.lean')
PROPS = os.path.join(C.LEAN, 'IprProps', 'C13.lean')
CATS = ('As_type', 'Identifier', 'Symbol', 'Decltype')


def hexs(s):
    return s.encode().hex() or '-'


def unhex(h):
    return '' if h in ('-', '?') else bytes.fromhex(h).decode('utf-8', 'replace')


def documented():
    """The hand-written tables of IprProps/C13.lean: (types, symbols, linkages)."""
    txt = C.strip_lean_comments(open(PROPS).read())

    def table(name, arity):
        m = re.search(r'def %s\b[^\n]*:=\s*\[(.*?)\]' % name, txt, re.S)
        if not m:
            raise C.BuildError('cannot find `%s` in IprProps/C13.lean' % name)
        return re.findall(r'\(' + r',\s*'.join([r'"([^"]*)"'] * arity) + r'\)', m.group(1))
    return table('documentedTypes', 2), table('documentedSymbols', 3), table('documentedLinkages', 2)


def interface_accessors():
    """Constant accessors declared by ipr::Lexicon (source side), to notice an accessor the probe does not know."""
    txt = open(os.path.join(C.REPO, 'include', 'ipr', 'interface')).read()
    m = re.search(r'struct Lexicon\s*\{(.*?)\n   \};', txt, re.S)
    body = m.group(1) if m else ''
    return (re.findall(r'virtual\s+const\s+Type&\s+(\w+)\(\)\s*const\s*=\s*0', body),
            re.findall(r'virtual\s+const\s+Symbol&\s+(\w+)\(\)\s*const\s*=\s*0', body),
            re.findall(r'virtual\s+const\s+Linkage&\s+(\w+)\(\)\s*const\s*=\s*0', body))


def builtin_def_rows():
    """(enumerator, spelling) rows of src/builtin.def through the preprocessor: the source-side list of built-ins."""
    import subprocess
    src = '#define BUILTIN_TYPE(S, N) @ROW S N\n#include "builtin.def"\n'
    r = subprocess.run(['g++', '-E', '-P', '-x', 'c++', '-std=c++20', '-I' + os.path.join(C.REPO, 'src'), '-'],
                       input=src, stdout=subprocess.PIPE, stderr=subprocess.PIPE, text=True)
    if r.returncode != 0:
        raise C.BuildError('g++ -E over src/builtin.def failed:\n' + r.stderr[-2000:])
    return re.findall(r'@ROW\s+(\w+)\s+u8"((?:[^"\\]|\\.)*)"', r.stdout)


def gen_ops(tier, rng, doc):
    """Op script: several live Lexicons, look-alikes, every accessor and every route on every instance, one instance
    destroyed and a fresh one created afterwards.  The *set* of observations is the same for every seed; the order,
    the noise and the victim vary."""
    types, syms, links = doc
    n0 = 3 if tier == 'quick' else 6
    late = 1 if tier == 'quick' else 2
    ops = ['new'] * n0
    words = [s for _, s in types] + ['auto'] + [s for _, s, _ in syms] + [s for _, s in links]

    def block(i):
        b = []
        noise = rng.sample(words, 6 if tier == 'quick' else len(words))
        routes = ['route %d as_type %s' % (i, hexs(s)) for _, s in types] + ['route %d as_type %s' % (i, hexs('auto'))]
        routes += ['route %d ident %s' % (i, hexs(s)) for s in words if s not in ('C', 'C++')]
        routes += ['route %d linkage %s' % (i, hexs(s)) for _, s in links]
        routes += ['route %d label %s' % (i, hexs(s)) for _, s, _ in syms]
        routes += ['route %d decltype_nullptr' % i]
        acc = ['types %d' % i, 'auto %d' % i, 'symbols %d' % i, 'linkages %d' % i]
        rng.shuffle(routes)
        rng.shuffle(acc)
        b += ['noise %d %s' % (i, hexs(w)) for w in noise[:len(noise) // 2]]
        # look-alikes named like the symbolic constants (ordinary symbols `default : void`, `true : bool` ...) and like the two linkages always
        # exist BEFORE the routes are asked: a legal earlier request must not capture a route
        b += ['noise %d %s' % (i, hexs(w)) for w in [s for _, s, _ in syms] + [s for _, s in links] if w not in noise[:len(noise) // 2]]
        if rng.random() < 0.5:
            b += routes + acc
        else:
            b += acc + routes
        b += ['noise %d %s' % (i, hexs(w)) for w in noise[len(noise) // 2:]]
        if tier == 'thorough':                      # ask again after the noise
            b += routes[: len(routes) // 2] + acc
        return b

    order = list(range(n0))
    rng.shuffle(order)
    for i in order:
        ops += block(i)
    victims = rng.sample(range(n0), late)
    for k, v in enumerate(victims):
        ops += ['destroy %d' % v, 'new']
        ops += block(n0 + k)
    # the survivors once more, after the destruction
    for i in order:
        if i not in victims:
            ops += ['types %d' % i, 'symbols %d' % i, 'linkages %d' % i]
    return ops, n0 + late


class Obs:
    def __init__(self, ops, ninst, doc, cats):
        self.ops, self.ninst, self.doc, self.cats = ops, ninst, doc, cats
        probe = C.build_harness('c13probe', 'asan')
        self.rc, out, self.err = C.run_exe(probe, [], '\n'.join(ops) + '\n')
        self.lines = out.splitlines()
        self.T, self.S, self.L, self.R = {}, {}, {}, {}       # (accessor, lex) -> [dict,...] ; routes (kind, spelling, lex) -> [dict]
        self.bad_ops = [l for l in self.lines if l.startswith('bad-op')]
        self.failed_asserts = [l for l in self.lines if l.startswith('assert-failed')]
        self.early_diff = [l for l in self.lines if l.startswith('early ') and ' differs ' in l]
        self.linkage_values = [l for l in self.lines if l.startswith('linkage-values-disagree ')]
        self.shutdown = [l for l in self.lines if l.startswith('shutdown-audit ')]
        self.early_checked = next((int(l.split('checked=')[1].split()[0]) for l in self.lines if l.startswith('early-constants ')), 0)
        for ln in self.lines:
            f = ln.split()
            if not f or f[0] not in 'TSLR' or len(f[0]) != 1:
                continue
            lex = int(f[1])
            kv = dict(x.split('=', 1) for x in f[3:] if '=' in x) if f[0] != 'R' else dict(x.split('=', 1) for x in f[4:])
            if f[0] == 'R':
                self.R.setdefault((f[2], unhex(f[3]), lex), []).append(kv)
            else:
                {'T': self.T, 'S': self.S, 'L': self.L}[f[0]].setdefault((f[2], lex), []).append(kv)
        self.addr = {'@0': 0}

    def n(self, a):
        """Canonical node number of an address (order of first request, which follows the fixed order of `table`)."""
        if a not in self.addr:
            self.addr[a] = len(self.addr)
        return self.addr[a]

    def col(self, store, key_of, field, conv=None):
        """One entry per Lexicon instance; several observations of one instance must agree (else both are kept)."""
        out = []
        for lex in range(self.ninst):
            vals = []
            for kv in store.get(key_of(lex), []):
                v = kv.get(field)
                if v not in vals:
                    vals.append(v)
            if not vals:
                vals = [None]
            out.append(vals)
        return out

    def table(self):
        """Rows in the fixed order of the documented tables; every address is renamed on the way."""
        types, syms, links = self.doc
        flat = lambda cols, f: [f(v) for vals in cols for v in vals]
        node = lambda v: 10 ** 9 if v is None else self.n(v)
        num = lambda v: 10 ** 9 if v is None else int(v)
        spell = lambda v: '<missing>' if v is None else unhex(v)
        rows = {'types': [], 'syms': [], 'links': []}
        for acc, s in list(types) + [('default_value.type', 'auto')]:
            k = lambda lex: (acc, lex)
            r = lambda kind: (lambda lex: (kind, s, lex))
            rows['types'].append(dict(
                accessor=acc, ids=flat(self.col(self.T, k, 'id'), node), cats=flat(self.col(self.T, k, 'cat'), num),
                nameIds=flat(self.col(self.T, k, 'name'), node), nameCats=flat(self.col(self.T, k, 'namecat'), num),
                spellings=flat(self.col(self.T, k, 'spelling'), spell), exprIds=flat(self.col(self.T, k, 'expr'), node),
                typeIds=flat(self.col(self.T, k, 'type'), node), natural=flat(self.col(self.T, k, 'natural'), lambda v: v == '1'),
                asked=s, viaWord=flat(self.col(self.R, r('as_type'), 'word'), node), viaString=flat(self.col(self.R, r('as_type'), 'string'), node),
                identWord=flat(self.col(self.R, r('ident'), 'word'), node), identString=flat(self.col(self.R, r('ident'), 'string'), node)))
        for acc, s, _ in syms:
            k = lambda lex: (acc, lex)
            r = lambda kind: (lambda lex: (kind, s, lex))
            rows['syms'].append(dict(
                accessor=acc, ids=flat(self.col(self.S, k, 'id'), node), cats=flat(self.col(self.S, k, 'cat'), num),
                nameIds=flat(self.col(self.S, k, 'name'), node), nameCats=flat(self.col(self.S, k, 'namecat'), num),
                spellings=flat(self.col(self.S, k, 'spelling'), spell), typeIds=flat(self.col(self.S, k, 'type'), node),
                typeCats=flat(self.col(self.S, k, 'typecat'), num), typeOperandIds=flat(self.col(self.S, k, 'typeoperand'), node),
                typeTypeIds=flat(self.col(self.S, k, 'typetype'), node), asked=s,
                identWord=flat(self.col(self.R, r('ident'), 'word'), node), identString=flat(self.col(self.R, r('ident'), 'string'), node),
                labelWord=flat(self.col(self.R, r('label'), 'word'), node), labelString=flat(self.col(self.R, r('label'), 'string'), node)))
        for acc, s in links:
            k = lambda lex: (acc, lex)
            r = lambda kind: (lambda lex: (kind, s, lex))
            rows['links'].append(dict(
                accessor=acc, ids=flat(self.col(self.L, k, 'id'), node), spellings=flat(self.col(self.L, k, 'spelling'), spell), asked=s,
                viaWord=flat(self.col(self.R, r('linkage'), 'word'), node), viaString=flat(self.col(self.R, r('linkage'), 'string'), node)))
        r = lambda lex: ('decltype_nullptr', '', lex)
        rows['decltype'] = flat(self.col(self.R, r, 'word'), node) + flat(self.col(self.R, r, 'string'), node)
        return rows


def same(l, n):
    """The value if the column has n entries, all equal; else None."""
    return l[0] if len(l) == n and all(x == l[0] for x in l) else None


def oracle(rows, n, doc, cats):
    """The statement of C13 evaluated on the observations.  Returns [(key, message)]."""
    types, syms, links = doc
    bad = []
    T = {r['accessor']: r for r in rows['types']}
    typename = same(T['typename_type']['ids'], n) if 'typename_type' in T else None

    def uniform(kind, r, fields):
        """Complain about every field that is not one value repeated once per instance; True if all are."""
        good = True
        for f in fields:
            if same(r[f], n) is None:
                good = False
                bad.append(('%s:%s' % (kind, r['accessor']), '%s: `%s` is not the same for every Lexicon instance (%d observations for %d instances): %s' % (
                    r['accessor'], f, len(r[f]), n, r[f])))
        return good

    def first(r, f):
        return r[f][0] if r[f] else None

    for r in rows['types']:
        key = 'type:' + r['accessor']
        uniform('type', r, ['ids', 'cats', 'nameIds', 'nameCats', 'spellings', 'exprIds', 'typeIds', 'natural', 'viaWord', 'viaString', 'identWord', 'identString'])
        me, nm = first(r, 'ids'), first(r, 'nameIds')
        if me is None:
            continue
        if first(r, 'spellings') != r['asked']:
            bad.append((key, '%s() names itself `%s`; the documented spelling is `%s`' % (r['accessor'], first(r, 'spellings'), r['asked'])))
        if first(r, 'cats') != cats['As_type'] or first(r, 'exprIds') != me:
            bad.append((key, '%s() is not its own underlying expression (category %s, expr() is node %s, the type is node %d)' % (r['accessor'], first(r, 'cats'), first(r, 'exprIds'), me)))
        if first(r, 'nameCats') != cats['Identifier']:
            bad.append((key, '%s().name() is not an Identifier (category %s)' % (r['accessor'], first(r, 'nameCats'))))
        if typename is None or first(r, 'typeIds') != typename:
            bad.append((key, '%s().type() is node %s, not typename_type() (node %s)' % (r['accessor'], first(r, 'typeIds'), typename)))
        if not first(r, 'natural'):
            bad.append((key, '%s().transfer() is not the natural C++ transfer' % r['accessor']))
        if first(r, 'viaWord') != me or first(r, 'viaString') != me:
            bad.append((key, 'get_as_type(get_identifier("%s")) returns node %s / %s (word / String route), not %s() = node %d' % (r['asked'], first(r, 'viaWord'), first(r, 'viaString'), r['accessor'], me)))
        if first(r, 'identWord') != nm or first(r, 'identString') != nm:
            bad.append((key, 'get_identifier("%s") returns node %s / %s, not %s().name() = node %s' % (r['asked'], first(r, 'identWord'), first(r, 'identString'), r['accessor'], nm)))
    ids = [(r['accessor'], r['ids'][0]) for r in rows['types'] if r['ids']]
    for i in range(len(ids)):
        for j in range(i + 1, len(ids)):
            if ids[i][1] == ids[j][1]:
                bad.append(('type:%s' % ids[j][0], '%s() and %s() return the same node' % (ids[i][0], ids[j][0])))
    S = {r['accessor']: r for r in rows['syms']}
    for (acc, s, ty), r in zip(syms, rows['syms']):
        key = 'symbol:' + acc
        fields = ['ids', 'cats', 'nameIds', 'nameCats', 'spellings', 'typeIds', 'typeCats', 'typeOperandIds', 'typeTypeIds', 'identWord', 'identString']
        if acc == 'default_value':            # the only spelling that denotes a label constant; other labels are per-Lexicon symbols
            fields += ['labelWord', 'labelString']
        uniform('symbol', r, fields)
        me = first(r, 'ids')
        if me is None:
            continue
        if first(r, 'spellings') != s or first(r, 'cats') != cats['Symbol'] or first(r, 'nameCats') != cats['Identifier']:
            bad.append((key, '%s() is spelled `%s` (category %s); documented: the symbol `%s`' % (acc, first(r, 'spellings'), first(r, 'cats'), s)))
        if ty == 'decltype(nullptr)':
            want = same(rows['decltype'], 2 * n)
            if first(r, 'typeCats') != cats['Decltype'] or first(r, 'typeOperandIds') != me:
                bad.append((key, '%s().type() is not decltype of the constant itself' % acc))
            if want != first(r, 'typeIds'):
                bad.append((key, 'get_decltype(nullptr_value()) returns node(s) %s, not nullptr_value().type() = node %s' % (sorted(set(rows['decltype'])), first(r, 'typeIds'))))
        else:
            tr = T.get('default_value.type' if ty == 'auto' else ty)
            want = same(tr['ids'], n) if tr else None
            if ty == 'auto' and tr and same(tr['viaWord'], n) is not None:
                want = tr['viaWord'][0] if tr['viaWord'][0] == want else None
            if want is None or first(r, 'typeIds') != want:
                bad.append((key, '%s().type() is node %s; documented type `%s` is node %s' % (acc, first(r, 'typeIds'), ty, want)))
        if typename is None or first(r, 'typeTypeIds') != typename:
            bad.append((key, '%s().type().type() is not typename' % acc))
        if first(r, 'identWord') != first(r, 'nameIds') or first(r, 'identString') != first(r, 'nameIds'):
            bad.append((key, 'get_identifier("%s") is not %s().name()' % (s, acc)))
        if acc == 'default_value' and (first(r, 'labelWord') != me or first(r, 'labelString') != me):
            bad.append((key, 'get_label(get_identifier("default")) returns node %s / %s, not default_value() = node %s' % (first(r, 'labelWord'), first(r, 'labelString'), me)))
    sids = [(r['accessor'], first(r, 'ids')) for r in rows['syms'] if r['ids']]
    for i in range(len(sids)):
        for j in range(i + 1, len(sids)):
            if sids[i][1] == sids[j][1]:
                bad.append(('symbol:%s' % sids[j][0], '%s() and %s() return the same node' % (sids[i][0], sids[j][0])))
    for (acc, s), r in zip(links, rows['links']):
        key = 'linkage:' + acc
        uniform('linkage', r, ['ids', 'spellings', 'viaWord', 'viaString'])
        if not r['ids']:
            continue
        if first(r, 'spellings') != s:
            bad.append((key, '%s() is the language `%s`; documented `%s`' % (acc, first(r, 'spellings'), s)))
        if first(r, 'viaWord') != first(r, 'ids') or first(r, 'viaString') != first(r, 'ids'):
            bad.append((key, 'get_linkage("%s") returns object %s / %s (word / String route), not %s() = %s' % (s, first(r, 'viaWord'), first(r, 'viaString'), acc, first(r, 'ids'))))
    if len(rows['links']) == 2 and rows['links'][0]['ids'][:1] == rows['links'][1]['ids'][:1]:
        bad.append(('linkage:cxx_linkage', 'c_linkage() and cxx_linkage() are the same object'))
    return bad


# ------------------------------------------------------------------------------------------------ Lean table

def lstr(s):
    return '"' + s.replace('\\', '\\\\').replace('"', '\\"') + '"'


def lval(v):
    if isinstance(v, bool):
        return 'true' if v else 'false'
    if isinstance(v, str):
        return lstr(v)
    if isinstance(v, list):
        return '[' + ', '.join(lval(x) for x in v) + ']'
    return str(v)


def lrow(r):
    return '  { ' + ', '.join('%s := %s' % (k, lval(v)) for k, v in r.items()) + ' }'


def lean_table(rows, n, cats):
    L = ['import IprModel.Constants',
         '/-! GENERATED on every run by vlib/c13.py from harness/c13probe.cxx run against the library built from the current tree.',
         '    Nodes carry canonical numbers (0 = none); one column per Lexicon instance.  Do not edit. -/',
         'namespace Ipr.Gen.C13', 'open Ipr.Const', '',
         '/-- Number of Lexicon instances observed in the one process (the last ones were created after another was destroyed). -/',
         'def instances : Nat := %d' % n, '']
    for c in CATS:
        L += ['def cat%s : Nat := %d' % (''.join(w.capitalize() for w in c.split('_')), cats[c])]
    L += ['', '/-- The 26 built-in type accessors, in the order of `documentedTypes`. -/',
          'def typeRows : List TypeRow := [', ',\n'.join(lrow(r) for r in rows['types'][:-1]) + ']', '',
          '/-- The 27th built-in, `auto`, reachable as `default_value().type()`. -/',
          'def autoRow : TypeRow :=', lrow(rows['types'][-1]), '',
          'def symRows : List SymRow := [', ',\n'.join(lrow(r) for r in rows['syms']) + ']', '',
          'def linkRows : List LinkRow := [', ',\n'.join(lrow(r) for r in rows['links']) + ']', '',
          '/-- Spellings of the rows of src/builtin.def (preprocessed), in file order: the source-side list of built-ins. -/',
          'def builtinDef : List String := ' + lval([sp for _, sp in builtin_def_rows()]), '',
          '/-- `get_decltype(nullptr_value())`, asked twice on every instance. -/',
          'def decltypeNullptr : List Nat := ' + lval(rows['decltype']), '',
          'end Ipr.Gen.C13', '']
    return '\n'.join(L)


# ------------------------------------------------------------------------------------------------ the check

def category_codes():
    names, _ = C06.category_names()
    missing = [c for c in CATS if c not in names]
    if missing:
        raise C.BuildError('node-category has no enumerator %s' % missing)
    return {c: names.index(c) for c in CATS}


def observe(tier, rng):
    doc = documented()
    cats = category_codes()
    ops, n = gen_ops(tier, rng, doc)
    o = Obs(ops, n, doc, cats)
    return o, o.table()


def run(tier):
    res = C.Result(PID, tier)
    rng = random.Random(C.seed() * 104729 + 13)
    box = {}

    def regen():
        o, rows = observe(tier, rng)
        box['o'], box['rows'] = o, rows
        C.write_if_changed(GEN, lean_table(rows, o.ninst, o.cats))

    ok, info, detail = C.prove(res, PID, regen=regen)
    o, rows = box['o'], box['rows']
    script = '\n'.join(o.ops) + '\n'
    if o.rc != 0 or o.bad_ops:
        where = ' (no output at all: the probe died before main(), while a Lexicon was used during the static initialisation of a client translation unit)' if not o.lines else ''
        res.violation('crash', 'c13probe stopped (exit %d) after %d output lines%s %s\n%s' % (o.rc, len(o.lines), where, o.bad_ops[:3], o.err[-3000:]), script)
    else:
        for ln in o.failed_asserts[:3]:
            w = ln.split()
            if w[1].startswith('route-'):
                res.violation('route:' + w[1][6:], 'the route %s answers ANOTHER node for the spelling `%s` than the same request made on the Lexicon '
                              'itself (each of these spellings denotes one node by every route)' % (w[1][6:].replace('-', ' '), unhex(w[3])), '# %s\n' % ln + script)
            elif w[1].startswith('identifier-of'):
                res.violation('route:' + w[1], 'get_identifier(String) answers one node for the pool\'s String spelled `%s` and another for a String node with '
                              'the same characters made by the client' % unhex(w[3]), '# %s\n' % ln + script)
            else:
                res.violation('lookalike:' + w[1], 'an ordinary symbol named `%s` (typed int) is treated like the constant: get_decltype of it is the constant\'s '
                              'type, or does not have it as operand' % unhex(w[3]), '# %s\n' % ln + script)
        for ln in o.linkage_values[:3]:
            w = ln.split()
            res.violation('linkage:values', 'as values, the linkages spelled `%s` and `%s` compare %s: linkages are equal exactly when spelled the same '
                          '(the two standard ones are distinct, and a built-in type has the C++ one)' % (unhex(w[2].strip('`')), unhex(w[4].strip('`')), w[3]),
                          '# %s\n' % ln + script)
        for ln in o.shutdown[:1]:
            kv = dict(x.split('=', 1) for x in ln.split()[1:])
            if kv.get('failed') != '0':
                res.violation('shutdown:' + kv.get('first', '?'), 'after main() has returned, the destructor of a client object with static storage duration (constructed '
                              'before main, owning its own Lexicon) asked for the type / label / linkage denoted by each reserved spelling: %s of %s answers were not '
                              'the constants (first: %s) -- the constants are process-wide for the whole life of the process' % (kv.get('failed'), kv.get('checked'), kv.get('first')),
                              '# shutdown-audit: run the probe with any op script and read its last line\n# %s\n' % ln)
        if not o.shutdown and o.rc == 0:
            res.violation('shutdown:missing', 'the probe ended without its shutdown audit line', '# shutdown-audit missing\n')
        for ln in o.early_diff[:4]:
            what = ln.split()[1]
            res.violation('static-init:' + what, 'the constant `%s()` answered by a Lexicon that a client translation unit (linked before the library) uses during '
                          'static initialisation is not the node / name / spelling / type a Lexicon answers in main(): %s' % (what, ln),
                          '# static-init %s\n# %s\n' % (what, ln))
        bad = oracle(rows, o.ninst, o.doc, o.cats)
        seen = set()
        for key, msg in bad:
            if key in seen or len(seen) >= 6:
                continue
            seen.add(key)
            allmsg = [m for k, m in bad if k == key]
            res.violation(key, '; '.join(allmsg), '# failing constant: %s\n' % key + ''.join('# %s\n' % m for m in allmsg) + script)
        acc_t, acc_s, acc_l = interface_accessors()
        known = ([a for a, _ in o.doc[0]], [a for a, _, _ in o.doc[1]], [a for a, _ in o.doc[2]])
        drift = [a for a in acc_t + acc_s + acc_l if a not in known[0] + known[1] + known[2]]
        defrows = sorted(sp for _, sp in builtin_def_rows())
        if not bad and defrows != sorted(r['asked'] for r in rows['types']):
            drift = drift + ['src/builtin.def rows %s vs built-ins covered %s' % (defrows, sorted(r['asked'] for r in rows['types']))]
        if not bad and drift:
            res.violation('correspondence:accessors', 'the inventory of constants in the source is not the one the check covers (accessors of ipr::Lexicon / rows of builtin.def): %s' % drift,
                          'correspondence: constant accessors of ipr::Lexicon vs documentedTypes/Symbols/Linkages in IprProps/C13.lean\n%s\n' % drift, found_input=False)
        elif not bad and not ok:
            res.proof_broken('IprProps.C13', detail)

    nt = len(rows['types'])
    res.cov['traces_validated_against_impl'] = o.ninst
    res.cov['exhaustive'] = True
    res.cov['lexicon_instances_in_one_process'] = o.ninst
    res.cov['constants_compared_with_their_state_during_static_initialisation'] = o.early_checked
    res.cov['ops'] = len(o.ops)
    res.cov['op_kinds'] = {k: sum(1 for x in o.ops if x.split()[0] == k) for k in ('new', 'destroy', 'noise', 'types', 'auto', 'symbols', 'linkages', 'route')}
    res.cov['route_kinds'] = {k: sum(1 for x in o.ops if x.startswith('route') and x.split()[2] == k) for k in ('as_type', 'ident', 'linkage', 'label', 'decltype_nullptr')}
    res.cov['type_accessors'] = nt - 1
    res.cov['distinct_pairs_of_type_accessors'] = (nt - 1) * (nt - 2) // 2
    res.cov['symbols'] = len(rows['syms'])
    res.cov['linkages'] = len(rows['links'])
    res.cov['distinct_nodes_seen'] = len(o.addr) - 1
    for r in rows['types'][:3]:
        res.sample({'accessor': r['accessor'], 'node_per_instance': r['ids'], 'spelling': r['spellings'][0] if r['spellings'] else None,
                    'as_type_route': r['viaWord'], 'identifier_route': r['identWord']})
    for r in rows['syms'][2:4]:
        res.sample({'accessor': r['accessor'], 'node_per_instance': r['ids'], 'spelling': r['spellings'][0] if r['spellings'] else None, 'label_route': r['labelWord']})
    res.assumptions += [
        'documented spellings: include/ipr/interface:1913-1947 (comments of the accessors) and src/builtin.def, written by hand in IprProps/C13.lean; '
        'the interface comment of ushort_type() says "unsigned char", an evident slip: the C++ name `unsigned short` is required',
        'types of default_value() (`auto`) and delete_value() (`void`) are documented only in src/impl.cxx:248-252',
        'only the routes named by the property are required to return the constant; get_symbol(name, type) with a reserved name builds an '
        'ordinary unified Symbol and is not a route to the constants',
    ]
    return res.finish(info, rule='complete: every constant accessor x every Lexicon instance x every route (word and String overloads), instances '
                      'interleaved in a seeded order with look-alike nodes created around the reserved spellings, one instance destroyed and a '
                      'fresh one observed afterwards; a trace is one Lexicon instance')


def replay(path):
    ops = [l.strip() for l in open(path) if l.strip() and not l.startswith('#') and not l.startswith(('theorem', 'correspondence'))]
    doc = documented()
    cats = category_codes()
    n = sum(1 for x in ops if x == 'new')
    if n == 0:
        print('replay: the file holds no op script (it names a theorem or a correspondence)')
        return 1
    o = Obs(ops, n, doc, cats)
    rows = o.table()
    for ln in o.lines:                                   # what the library answered, nodes renamed canonically
        if ln[:1] in 'TSLR' and ln[1:2] == ' ':
            print(re.sub(r'@[0-9a-f]+', lambda m: 'n%d' % o.n(m.group(0)), ln)[:260])
    if o.rc != 0 or o.bad_ops:
        print('c13probe stopped (exit %d)\n%s' % (o.rc, o.err[-2000:]))
        print('VIOLATION property=C13 replay=%s' % path)
        return 1
    bad = oracle(rows, n, doc, cats)
    for key, msg in bad:
        print('VIOLATED %s: %s' % (key, msg))
    if bad:
        print('VIOLATION property=C13 replay=%s' % path)
        return 1
    print('replay: property holds on this input')
    return 0
