"""C17 — printed text depends only on graph structure and printer options (DESIGN.md §4 C17)."""
import os, random, re, threading
from concurrent.futures import ThreadPoolExecutor
from . import common as C
from . import printer_common as P

PID = 'C17'
MANIFEST = dict(
    text='Theorems C17_* (lean/IprProps/C17.lean) prove for the model of src/io.cxx (a production table for every visitor class x '
         'category, interpreted over a heap with explicit fuel): the result of a print is unchanged by every injective renaming of '
         'addresses and by every change of the heap outside the operands reachable from the root; the run with print_locations and '
         'the run without agree after removing location tokens and identifier-padding blanks, no location token is written when the '
         'option is off, and with the option on there is one token per statement/declaration entry on a node with a non-zero file index. '
         'The model is tied to the code by text equality on generated programs of the printable fragment, each built twice (two '
         'Lexicons, shuffled construction order, unrelated allocations interleaved) and printed with fresh printers with and without '
         'locations; the graph is re-observed after printing. Purity (no heap in the result) is by the type of the model. '
         'Kinds outside the generated fragment are listed in the evidence as not exercised by this check (C18 sweeps all kinds).',
    note='Lean kernel; axioms propext/Classical.choice/Quot.sound; hand-written model tied by correspondence on generated programs '
         'only; the heap given to the model is read from the real graph through the public interface by harness/printprobe.cxx '
         '(trusted); ASan/UBSan, g++.',
    technique='Lean 4 theorems (parametricity of an interpreter under address renaming; lock-step simulation of the two option '
              'settings) + differential text-equality correspondence over two construction histories',
    ref='§4 C17')

TIERS = {
    # (programs, budget distribution [(weight, max nodes)], chunks)
    'quick': (2000, [(1.0, 60)], 6),
    'thorough': (20000, [(0.70, 60), (0.25, 160), (0.05, 400)], 16),
}


def gen_programs(tier, rng):
    n, dist, _ = TIERS[tier]
    progs = []
    for _ in range(n):
        x = rng.random()
        acc = 0.0
        for wgt, mx in dist:
            acc += wgt
            if x <= acc:
                break
        progs.append(P.Program(rng, rng.randint(6, mx)))
    return progs


def make_shrinker(progs, scripts_of, names, probe):
    """ddmin over the ops of a failing program (both histories keep their relative order)."""
    def shrink(gi, key):
        prog = progs[gi]
        if len(prog.ops) > 400:
            return None
        idx = list(range(len(prog.ops)))

        def fails(sub):
            keep = set(sub)
            cmds = scripts_of(prog, keep)
            (answers, crash), = P.run_probe_groups(probe, [cmds], timeout=120)
            findings, _ = P.judge_group(cmds, answers, crash, names)
            return any(k == key for k, _ in findings) and not any(k == 'probe-error' for k, _ in findings)
        try:
            best = C.ddmin(idx, fails, max_tests=150)
            return scripts_of(prog, set(best))
        except Exception:
            return None
    return shrink


def run(tier):
    res = C.Result(PID, tier)
    rng = random.Random(C.seed() * 7919 + 17)
    ok, info, detail = C.prove(res, PID)
    probe = C.build_harness('printprobe', 'asan')
    names = P.cat_names()

    progs = gen_programs(tier, rng)
    b_rngs = [random.Random(rng.getrandbits(64)) for _ in progs]
    # in the second Lexicon of the first few programs the string storage is brought to within a few slots of the end of its current block
    # before the graph is built (its words are then spread over two blocks); the first Lexicon of each is fresh
    b_hist = [p.history_b('B', r, fill=(3 + 5 * i if i < 8 else None)) for i, (p, r) in enumerate(zip(progs, b_rngs))]

    def script(i, keep=None):
        p = progs[i]
        a = p.history_a('A')
        b = b_hist[i]
        if keep is not None:
            texts = {p.ops[k][0] for k in keep}
            a = [c for c in a if c[2:] in texts]
            b = [c for c in b if ' junk ' in c or ' scramble ' in c or ' fill ' in c or c[2:] in texts]
        cmds = ['new A'] + a + ['new B'] + b + ['links A', 'links B']
        for root, route in p.roots:
            cmds.append('dump A %s' % root)
            cmds.append('dumpeq A %s B %s' % (root, root))
            for loc in (0, 1):
                cmds += ['print A %s %s loc=%d base=10' % (root, route, loc)] * 2
                cmds.append('print B %s %s loc=%d base=10' % (root, route, loc))
            cmds.append('dump A %s' % root)
        return cmds + ['links A', 'links B', 'del A', 'del B']

    scripts = [script(i) for i in range(len(progs))]
    index = {id(p): i for i, p in enumerate(progs)}
    shrink = make_shrinker(progs, lambda p, keep: script(index[id(p)], keep), names, probe)

    # the same printing during static initialisation of a client translation unit (before the library's own initialisers) and in main()
    n_early = 0
    for k, p in enumerate(sorted(progs, key=lambda p: -len(p.kinds))[:6 if tier == 'quick' else 40]):
        early_path = os.path.join(C.CACHE, 'c17-early-%d-%d.txt' % (os.getpid(), k))
        with open(early_path, 'w') as f:
            f.write('\n'.join(p.history_a('E')) + '\n')
            for root, route in p.roots:
                f.write('root %s %s\n' % (root, route))
        rc_e, out_e, err_e = C.run_exe(probe, ['early'], '', env=dict(os.environ, PRINTPROBE_EARLY=early_path))
        script_text = open(early_path).read()
        os.unlink(early_path)
        early_lines = [l for l in out_e.splitlines() if l.startswith('early ')]
        early_bad = [l for l in early_lines if l.endswith('same=0')]
        n_early += max(0, len(early_lines) - 1)
        if rc_e != 0 or not early_lines or 'failure' in early_lines[0]:
            res.violation('static-init:crash', 'printing a program during the static initialisation of a client translation unit (linked before the library) '
                          'failed (exit %d): %s\n%s' % (rc_e, out_e[:300], err_e[-1500:]), '# static-init printing (PRINTPROBE_EARLY script)\n' + script_text)
            break
        if early_bad:
            res.violation('static-init:text', 'a program printed during the static initialisation of a client translation unit and printed again from main() with a '
                          'fresh printer gives two different texts: %s\n%s' % (early_bad[0], '\n'.join(l for l in out_e.splitlines() if l.startswith(('early-then', 'early-now')))[:600]),
                          '# static-init printing (PRINTPROBE_EARLY script)\n' + script_text)
            break
    res.cov['prints_during_static_initialisation_compared_with_main'] = n_early

    nchunks = TIERS[tier][2]
    bounds = [round(k * len(scripts) / nchunks) for k in range(nchunks + 1)]

    def work(k):
        lo, hi = bounds[k], bounds[k + 1]
        return P.check_scripts(res, scripts[lo:hi], names, probe,
                             describe=lambda gi: 'program %d of this run (VERIF_SEED=%d): %d ops, roots %s' % (lo + gi, C.seed(), len(progs[lo + gi].ops), progs[lo + gi].roots),
                             shrink=lambda gi, key: shrink(lo + gi, key))
    with ThreadPoolExecutor(min(nchunks, max(2, C.NCPU // 2))) as ex:
        stats = list(ex.map(work, range(nchunks)))
    if not ok:
        res.proof_broken('IprProps.C17', detail)

    kinds = {}
    for p in progs:
        for k, v in p.kinds.items():
            kinds[k] = kinds.get(k, 0) + v
    tot = lambda key: sum(s[key] for s in stats)
    status = {}
    for s in stats:
        for k, v in s['status'].items():
            status[k] = status.get(k, 0) + v
    res.cov['traces_validated_against_impl'] = tot('model_compared')
    res.cov['programs'] = len(progs)
    res.cov['construction_ops'] = sum(len(p.ops) for p in progs)
    res.cov['max_ops_in_a_program'] = max(len(p.ops) for p in progs)
    res.cov['prints_on_the_implementation'] = tot('prints')
    res.cov['print_outcomes'] = status
    res.cov['location_tokens_printed'] = tot('nlocs')
    res.cov['located_nodes_generated'] = sum(p.nloc for p in progs)
    res.cov['graph_pairs_not_isomorphic'] = tot('dumpeq0')
    res.cov['factory_distribution'] = dict(sorted(kinds.items()))
    res.cov['routes'] = {r: sum(1 for p in progs for _, rt in p.roots if rt == r) for r in ('expr', 'stmt', 'decl', 'declsemi', 'type')}
    res.cov['exhaustive'] = False
    fnd = {}
    for s_ in stats:
        for k, v in s_.get('findings', {}).items():
            fnd[k] = fnd.get(k, 0) + v
    res.cov['programs_with_findings'] = fnd
    res.cov['unmodelled_or_not_generated'] = (
        'not generated by this check (covered by the C18 sweep, one node per kind, through all four routes): Lambda, Requires, Where, '
        'Instantiation, Binary_fold, Coercion/Narrow/Pretend/Widen, Qualification, Rewrite, Eclipsis, Asm, Static_assert, directives, '
        'Template, Tor, Auto, Closure, Sum, Forall, Guide_name, Overload; width/fill/showbase/uppercase of the stream are not modelled '
        '(printing is only exercised on streams in their default state, and with basefield = hex/oct in C18)')
    p0 = progs[0]
    res.sample({'program': p0.history_a('A')[:25], 'n_ops': len(p0.ops), 'roots': p0.roots})
    res.assumptions += [
        'the heap given to the model is the dump of the real graph made by harness/printprobe.cxx through the public accessors io.cxx uses',
        'both construction histories are produced by the same generator; isomorphism of the two graphs is checked by comparing canonical dumps',
        'stream in its default format state (width 0); std::ostream itself is trusted',
    ]
    return res.finish(info, rule='typed random programs of the printable fragment (declarations with specifiers and initializers, functions with '
                      'parameters / bodies / ctor bodies / missing parameter data, classes-unions-namespaces-enums with bases and members, all '
                      'statement kinds incl. try-blocks and labels, classic expressions over all 18 precedence levels, names, literals over '
                      'all byte values, built-in and compound types, a few kinds without production); each program is built in Lexicon A in '
                      'generation order and in Lexicon B in a random topological order with unrelated allocations interleaved; every root '
                      '(translation unit + a declaration, a statement/expression, a type) is dumped, printed 2x in A and 1x in B with and '
                      'without locations, dumped again; a trace is one (program, root, options) print compared with the model')


def replay(path):
    cmds = [l.strip() for l in open(path) if l.strip() and not l.startswith('#') and not l.startswith('correspondence:') and not l.startswith('theorem')]
    C.lean_build(['model_c17'])
    probe = C.build_harness('printprobe', 'asan')
    names = P.cat_names()
    (answers, crash), = P.run_probe_groups(probe, [cmds], timeout=300)
    findings, requests = P.judge_group(cmds, answers, crash, names)
    for c, a in zip(cmds, answers):
        if a and a['kind'] == 'print':
            print('%-40s %r %s' % (c, P.text_of(a['line'])[:300], a['line'].split(' ', 1)[1]))
    bad = bool(findings)
    for k, m in findings:
        print('%s: %s' % (k, m))
    if requests:
        lines, _ = P.run_model_requests('c17', requests, names)
        for r, ml in zip(requests, lines):
            same = r[2] == ml
            print('model %-34s %s %r' % (r[3], 'agrees' if same else 'DISAGREES:', b'' if same else P.text_of(ml)[:300]))
            bad = bad or not same
    if bad:
        print('VIOLATION property=C17 replay=%s' % path)
        return 1
    print('replay: property holds on this input')
    return 0
