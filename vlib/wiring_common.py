"""Shared by C02 and C09: the factory-wiring table regenerated from the implementation by execution.

probe (harness/c02probe.cxx) -> calls with distinguishable operands + universal-observer text
      -> parse -> flatten every result to (accessor path -> value) -> classify each path over all instances of a factory
      -> rows  -> lean/Generated/Wiring.lean (rewritten each run) + a canonical text form compared row by row with the
         hand-written table dumped by the model driver (`model_c02 expected`).
"""
import os, re
from . import common as C

GEN_PATH = os.path.join(C.LEAN, 'Generated', 'Wiring.lean')
HOPS = ['type', 'name', 'region', 'level', 'main_variant', 'qualifiers', 'bindings', 'enclosing', 'body', 'characters']
DEPTH = 2
NODE = re.compile(r'^[nv]\d+$')


def probe_exe():
    return C.build_harness('c02probe', 'asan', extra=('-O0',))


def reserved_words_of_tree():
    """The reserved spellings of the tree under test (the `known_words[]` initialiser of src/impl.cxx), hex-encoded and comma-separated,
    handed to the probe in addition to the ones it knows; '' when the initialiser is not found."""
    try:
        src = open(os.path.join(C.REPO, 'src', 'impl.cxx'), encoding='utf-8', errors='replace').read()
    except OSError:
        return ''
    m = re.search(r'known_words\s*\[\s*\]\s*(?:=\s*)?\{(.*?)\}\s*;', src, re.S)
    if not m:
        return ''
    ws = re.findall(r'u8"((?:[^"\\]|\\.)*)"', re.sub(r'//.*', '', m.group(1)))
    return ','.join(w.encode('utf-8').hex() for w in ws if w and '\\' not in w and len(w) <= 24)


def run_probe(ops, rounds=1, seed=None):
    exe = probe_exe()
    rc, out, err = C.run_exe(exe, [str(C.seed() if seed is None else seed), str(rounds), reserved_words_of_tree()], '\n'.join(ops) + '\n')
    return rc, out, err


# ------------------------------------------------------------------------------------------------ parsing

class Call:
    __slots__ = ('key', 'inst', 'sorts', 'args', 'result', 'w', 'obs', 'unified', 'line')

    def __init__(self):
        self.obs = {}
        self.unified = None


def parse_obs(line):
    """'n7 Cast f=v ...' -> (name, kind, [(field, value)])"""
    parts = line.split(' ')
    fields = []
    for p in parts[2:]:
        i = p.find('=')
        fields.append((p[:i], p[i + 1:]))
    return parts[0], parts[1], fields


class Parsed:
    def __init__(self):
        self.consts = {}        # node name -> constant name
        self.pool = []          # (sort, value)
        self.obs = {}           # name -> (kind, fields)   latest global observation
        self.calls = []
        self.growth = []        # raw G lines (split)
        self.entries = []
        self.builtins = []      # (accessor, node, its type)
        self.errors = []
        self.skipped = []       # entries the probe could not exercise: every operand choice gave a node that existed before the call
        self.late = []          # late re-observations (`recheck`): Call-like records with key, inst, result, obs
        self.stats = {}         # counters printed by the probe (`# stat <n> <what>`)
        self.scale = []         # `Z scale ...` lines: {n, wrong_names, wrong_strings, not_unified, first}
        self.complete = False


def parse_probe(text):
    P = Parsed()
    cur = None
    for ln in text.splitlines():
        if not ln:
            continue
        if ln.startswith('# skipped '):
            P.skipped.append(ln[len('# skipped '):])
            continue
        if ln.startswith('# stat '):
            n, what = ln[len('# stat '):].split(' ', 1)
            P.stats[what] = int(n)
            continue
        tag, _, rest = ln.partition(' ')
        if tag == 'K':
            cname, node = rest.split(' ')
            P.consts[node] = cname
        elif tag == 'P':
            sort, val = rest.split(' ', 1)
            P.pool.append((sort, val))
        elif tag == 'O':
            name, kind, fields = parse_obs(rest)
            if cur is not None:
                cur.obs[name] = (kind, fields)
            else:
                P.obs[name] = (kind, fields)
        elif tag == 'C':
            m = re.match(r'(\S+) (\d+) sorts=(\S+) args=(.*) => (\S+) w=(\d+)$', rest)
            c = Call()
            c.key, c.inst = m.group(1), int(m.group(2))
            c.sorts = [] if m.group(3) == '-' else split_top(m.group(3))
            c.args = [] if m.group(4) == '-' else m.group(4).split(' ')
            c.result, c.w, c.line = m.group(5), int(m.group(6)), ln
            P.calls.append(c)
            cur = c
        elif tag == 'L':
            key, inst, result = rest.rsplit(' ', 2)
            c = Call()
            c.key, c.inst, c.result, c.args, c.sorts, c.w, c.line = key, int(inst), result, [], [], 0, ln
            P.late.append(c)
            cur = c
        elif tag == 'LEND':
            cur = None
        elif tag == 'U':
            key, inst, what = rest.split(' ')
            if cur is not None and cur.key == key and cur.inst == int(inst):
                cur.unified = (what == 'same')
            cur = None
        elif tag == 'G':
            P.growth.append(rest.split(' '))
            cur = None
        elif tag == 'Z':
            P.scale.append(dict(x.split('=', 1) for x in rest.split(' ')[1:]))
            cur = None
        elif tag == 'E':
            P.entries.append(rest)
        elif tag == 'B':
            P.builtins.append(tuple(rest.split(' ')))
        elif tag == 'X':
            P.errors.append(rest)
        elif tag == 'END':
            P.complete = True
        elif tag == 'POOLS-END':
            cur = None
    return P


def split_top(s):
    """split at commas that are not inside <> or () or []"""
    out, depth, cur = [], 0, ''
    for ch in s:
        if ch in '<([':
            depth += 1
        elif ch in '>)]':
            depth -= 1
        if ch == ',' and depth == 0:
            out.append(cur)
            cur = ''
        else:
            cur += ch
    if cur or out:
        out.append(cur)
    return out


def lookup(P, call, name):
    return call.obs.get(name) or P.obs.get(name)


# ------------------------------------------------------------------------------------------------ flattening

def flatten(P, call):
    """Result of a call as an ordered list of (path, raw value).  Objects first named during the call (other than
    operands) are expanded in place, to depth DEPTH, as `own` + their fields under a dotted prefix."""
    out = []
    seen = {}                                 # fresh object -> path where it was first reached
    args = set(a for a in call.args if NODE.match(a))

    rawargs = set(call.args)

    def value(path, v, depth):
        if v in rawargs and not NODE.match(v):
            out.append((path, v))
            return
        if v.startswith('[') or ('|[' in v and v.startswith('[')):
            if '|' in v and not v.endswith(']|'):
                # iterator / position(i) disagreement: keep raw, it will not classify
                out.append((path, v))
                return
            elems = split_top(v[1:-1]) if v != '[]' else []
            out.append((path + '.size', '#%d' % len(elems)))
            for i, e in enumerate(elems):
                value('%s.%d' % (path, i), e, depth)
            return
        m = re.match(r'^D\((\w+),(#-?\d+)\)$', v)
        if m:
            value(path + '.path', m.group(1), depth)
            out.append((path + '.mode', m.group(2)))
            return
        if NODE.match(v):
            if v == call.result:
                out.append((path, 'self'))
                return
            if v in args:
                out.append((path, v))
                return
            if v[0] == 'n' and int(v[1:]) >= call.w:
                if v in seen:
                    out.append((path, 'same:' + seen[v]))
                    return
                seen[v] = path
                out.append((path, 'own'))
                o = call.obs.get(v)
                if o is not None and depth < DEPTH:
                    out.append((path + '.kind', '$' + o[0]))
                    for f, fv in o[1]:
                        f = _field(o[0], f)
                        if f != 'category':           # the category of a part is implied by its kind (property C06)
                            value(path + '.' + f, fv, depth + 1)
                return
        out.append((path, v))

    o = lookup(P, call, call.result)
    if o is None:
        return None, []
    kind, fields = o
    seen[call.result] = ''
    for f, v in fields:
        value(_field(kind, f), v, 0)
    return kind, out


def _field(kind, f):
    """A token's `category()` is its TokenCategory, an operand like any other -- not the category code of a node."""
    return 'token_category' if kind == 'Token' and f == 'category' else f


# ------------------------------------------------------------------------------------------------ classification

def candidates(P, call, raw):
    """All descriptions of `raw` in terms of this call's operands, in priority order."""
    c = []
    if raw == 'self':
        return ['self']
    if raw == 'own':
        return ['own']
    if raw.startswith('same:'):
        return [raw]
    if raw.startswith('$'):
        return ['val:' + raw]
    for i, a in enumerate(call.args):
        if a == raw:
            c.append('arg%d' % i)
    if raw == '-':
        c.append('absent')
    if raw == '!L':
        c.append('unset')
    if raw in P.consts:
        c.append('const:' + P.consts[raw])
    for i, a in enumerate(call.args):
        if NODE.match(a):
            o = lookup(P, call, a)
            if o:
                d = dict(o[1])
                for h in HOPS:
                    if d.get(h) == raw:
                        c.append('via%d:%s' % (i, h))
    m = re.match(r'^#(\d+)$', raw)
    if m:
        n = int(m.group(1))
        for i, a in enumerate(call.args):
            ma = re.match(r'^#(\d+)$', a)
            if not ma:
                continue
            for j, b in enumerate(call.args):
                if NODE.match(b):
                    o = lookup(P, call, b)
                    q = dict(o[1]).get('qualifiers') if o else None
                    mq = re.match(r'^#(\d+)$', q or '')
                    if mq and n == int(ma.group(1)) | int(mq.group(1)):
                        c.append('qmerge%d:%d' % (i, j))
        for i, a in enumerate(call.args):
            if a.startswith('"') and n == (len(a) - 1) // 2:
                c.append('len%d' % i)
            elif a.startswith('[') and a.endswith(']') and n == (len(split_top(a[1:-1])) if a != '[]' else 0):
                c.append('len%d' % i)
            elif NODE.match(a):
                o = lookup(P, call, a)
                ch = dict(o[1]).get('characters') if o else None
                if ch is not None and ch.startswith('"') and n == (len(ch) - 1) // 2:
                    c.append('len%d' % i)
    m = re.match(r'^L\((\w*)\)$', raw)
    if m:
        for i, a in enumerate(call.args):
            if re.match(r'^X\(%s,\w*\)$' % m.group(1), a):
                c.append('linkof%d' % i)
    if not NODE.match(raw):
        c.append('val:' + raw)
    return c


def classify_key(P, calls):
    """One row from all instances of one entry.  Returns dict(key, kind, cat, storage, sorts, typ, acc=[(path, src)], detail)"""
    flats = []
    kinds = set()
    for c in calls:
        k, fl = flatten(P, c)
        kinds.add(k)
        flats.append(fl)
    c0 = calls[0]
    row = {'key': c0.key, 'sorts': c0.sorts, 'calls': calls}
    row['kind'] = kinds.pop() if len(kinds) == 1 else 'MIXED(%s)' % ','.join(sorted(str(k) for k in kinds))
    uni = set(c.unified for c in calls)
    row['storage'] = 'unified' if uni == {True} else ('generative' if uni == {False} else 'mixed')
    paths = [p for p, _ in flats[0]]
    same_shape = all([p for p, _ in f] == paths for f in flats)
    acc = []
    cat = None
    if not same_shape:
        # describe the union of paths; a path missing somewhere cannot be classified
        allp = []
        for f in flats:
            for p, _ in f:
                if p not in allp:
                    allp.append(p)
        paths = allp
    for p in paths:
        cands = None
        raws = []
        for c, f in zip(calls, flats):
            d = dict(f)
            if p not in d:
                cands = []
                raws.append('<missing>')
                continue
            raws.append(d[p])
            cs = candidates(P, c, d[p])
            cands = cs if cands is None else [x for x in cands if x in cs]
        src = cands[0] if cands else 'other:%s|%s' % (raws[0], next((r for r in raws if r != raws[0]), raws[0]))
        if p == 'category':
            cat = src
            continue
        acc.append((p, src))
    row['cat'] = cat
    row['typ'] = dict(acc).get('type')
    row['acc'] = [(p, s) for p, s in acc if p != 'type']
    return row


def build_table(P):
    by_key = {}
    order = []
    for c in P.calls:
        if c.key not in by_key:
            by_key[c.key] = []
            order.append(c.key)
        by_key[c.key].append(c)
    return [classify_key(P, by_key[k]) for k in order]


# ------------------------------------------------------------------------------------------------ category codes

def category_names():
    """numeric category code -> name, from include/ipr/node-category of the CURRENT tree"""
    names = []
    for ln in open(os.path.join(C.REPO, 'include', 'ipr', 'node-category')):
        ln = ln.split('//')[0].strip()
        for tok in ln.split(','):
            tok = tok.strip()
            if re.match(r'^[A-Za-z_]\w*$', tok):
                names.append(tok)
    return names


def kind_ctor(k):
    k = k.replace('::', '_')
    if not re.match(r'^[A-Za-z_]\w*$', k):
        return 'Unknown_kind'
    return {'Type': 'Type_'}.get(k, k)


def cat_of(row, cats):
    s = row['cat']
    if s is None:
        return 'NotANode'
    m = re.match(r'^val:#(\d+)$', s)
    if m and int(m.group(1)) < len(cats):
        return cats[int(m.group(1))]
    return 'Unknown_kind'


# ------------------------------------------------------------------------------------------------ text / Lean forms

def lean_str(s):
    return '"' + s.replace('\\', '\\\\').replace('"', '\\"') + '"'


def lean_src(s):
    if s is None:
        return 'none'
    m = re.match(r'^arg(\d+)$', s)
    if m:
        return '.arg ' + m.group(1)
    if s in ('absent', 'unset', 'self', 'own'):
        return '.' + s
    if s.startswith('const:'):
        return '.const .k_' + s[6:]
    if s.startswith('val:'):
        return '.val ' + lean_str(s[4:])
    m = re.match(r'^via(\d+):(\w+)$', s)
    if m:
        return '.via %s .h_%s' % (m.group(1), m.group(2))
    if s.startswith('same:'):
        return '.same ' + lean_str(s[5:])
    m = re.match(r'^qmerge(\d+):(\d+)$', s)
    if m:
        return '.qmerge %s %s' % (m.group(1), m.group(2))
    m = re.match(r'^(len|linkof)(\d+)$', s)
    if m:
        return '.%s %s' % (m.group(1), m.group(2))
    return '.other ' + lean_str(s)


def row_text(row, cats):
    """Canonical one-line form, identical to what `model_c02 expected` prints for the hand-written table."""
    return '%s kind=%s cat=%s storage=%s sorts=%s type=%s | %s' % (
        row['key'], kind_ctor(row['kind']), cat_of(row, cats), row['storage'], ','.join(row['sorts']) or '-',
        row['typ'] or 'none', ' '.join('%s=%s' % (p, s) for p, s in row['acc']))


def builtin_types(P):
    return [(acc, P.consts.get(t, 'unknown')) for acc, _, t in P.builtins]


def lean_table(rows, cats, const_types=None, builtins=None):
    out = ['import IprModel.Graph',
           '/-! Factory wiring of the implementation, REGENERATED ON EVERY RUN by vlib/wiring_common.py from the output of',
           '    harness/c02probe.cxx (every factory called with distinguishable operands; see that file).  Do not edit. -/',
           'namespace Ipr.Generated', 'open Ipr.Graph', '', 'def wiring : List Row := [']
    items = []
    for r in rows:
        acc = ', '.join('(%s, %s)' % (lean_str(p), lean_src(s)) for p, s in r['acc'])
        # the key of an operand form is the key of its entry followed by the name of the form (written as such: the kernel then
        # compares the entry's key once, not once more per form)
        bk = base_key(r['key'])
        key = lean_str(r['key']) if bk == r['key'] else '%s ++ %s' % (lean_str(bk), lean_str(r['key'][len(bk):]))
        items.append('  { key := %s, kind := .%s, cat := .%s, storage := .%s,\n    sorts := [%s], typ := %s,\n    acc := [%s] }' % (
            key, kind_ctor(r['kind']), cat_of(r, cats), r['storage'],
            ', '.join(lean_str(s) for s in r['sorts']),
            'none' if r['typ'] is None else 'some (%s)' % lean_src(r['typ']), acc))
    out.append(',\n'.join(items))
    out += [']', '', '/-- type() of the Lexicon constants, as observed (constant, its type) -/',
            'def constTypes : List (Konst × Konst) := [' + ', '.join('(.k_%s, .k_%s)' % ct for ct in (const_types or [])) + ']',
            '', '/-- type() of every built-in type accessor of the Lexicon -/',
            'def builtinTypes : List (String × Konst) := [' + ', '.join('(%s, .k_%s)' % (lean_str(a), t) for a, t in (builtins or [])) + ']',
            '', 'end Ipr.Generated', '']
    return '\n'.join(out)


def parse_row_text(line):
    head, _, accs = line.partition(' | ')
    parts = head.split(' ')
    d = {'key': parts[0]}
    for p in parts[1:]:
        k, _, v = p.partition('=')
        d[k] = v
    d['acc'] = []
    for a in accs.split(' '):
        if a:
            p, _, s = a.partition('=')
            d['acc'].append((p, s))
    return d


# ------------------------------------------------------------------------------------------------ header coverage

FACTORY_CLASSES = ['form_factory', 'attr_factory', 'capture_spec_factory', 'type_factory', 'name_factory', 'expr_factory', 'dir_factory',
                   'stmt_factory', 'Lexicon', 'Region', 'Scope', 'Udt', 'Class', 'Enum', 'Parameter_list', 'Mapping', 'Block', 'handler_block',
                   'Expr_list', 'Module', 'General_substitution', 'Warehouse', 'decl_factory', 'Closure', 'Union', 'Namespace', 'Lambda', 'Requires']
FACTORY_NAME = re.compile(r'^(make_\w+|get_\w+|new_\w+|add_\w+|declare_\w+|\w+_capture|push_back|param|subst|redeclare|declare)$')
UNLINKABLE = {'Scope::add_member(T)': 'private helper, reached through every Scope::make_* entry',
              'decl_factory::declare(Overload,Type)': 'internal, reached through every Scope::make_* entry',
              'decl_factory::redeclare(overload_entry)': 'internal, reached through Scope::make_var(Name,Type)#redeclaration',
              'Warehouse::push_back(T)': 'exercised while building the operand pools; observable only through get_product/get_sum',
              'expr_factory::make_annotation(String,Literal)': 'declared but never defined in the repository',
              'Lexicon::make_token(String,Source_location,TokenValue,TokenCategory)': 'declared but never defined in the repository'}


def norm_type(t):
    t = re.sub(r'=.*$', '', t).strip()
    t = re.sub(r'\bconst\b', '', t)
    t = re.sub(r'\b(ipr|impl|cxx_form|util)::', '', t)
    t = t.replace('&', ' ').replace('*', ' ').strip()
    m = re.match(r'^(.*[\w>])\s+(\w+)$', t)
    if m and not re.match(r'^(unsigned|signed|long|short)$', m.group(1)):
        t = m.group(1)
    return re.sub(r'\s+', '', t)


def header_factories():
    """{'class::name(T1,T2)': line number} for every factory-like member declared in include/ipr/impl"""
    src = open(os.path.join(C.REPO, 'include', 'ipr', 'impl')).read()
    text = re.sub(r'//.*', '', src)
    text = re.sub(r'=\s*\{\s*\}', '', text)
    found = {}
    # walk struct bodies by brace matching
    for m in re.finditer(r'\bstruct\s+(\w+)[^;{]*\{', text):
        cls = m.group(1)
        if cls not in FACTORY_CLASSES:
            continue
        i, depth = m.end(), 1
        body_start = i
        while i < len(text) and depth:
            depth += {'{': 1, '}': -1}.get(text[i], 0)
            i += 1
        body = text[body_start:i - 1]
        # drop nested bodies (inline definitions) so that only declarations at member level remain
        flat, d = '', 0
        for ch in body:
            if ch == '{':
                d += 1
                if d == 1:
                    flat += ';'
            elif ch == '}':
                d -= 1
            elif d == 0:
                flat += ch
        for decl in flat.split(';'):
            dm = re.search(r'(\w+)\s*\(([^()]*(?:\([^()]*\))?[^()]*)\)\s*(const)?\s*$', decl.strip(), re.S)
            if not dm or not FACTORY_NAME.match(dm.group(1)):
                continue
            if re.search(r'\b(using|friend|typedef|return|operator)\b', decl):
                continue
            params = [norm_type(p) for p in split_top(dm.group(2).replace('\n', ' '))] if dm.group(2).strip() else []
            key = '%s::%s(%s)' % (cls, dm.group(1), ','.join(params))
            found[key] = src[:m.start()].count('\n') + 1
    return found


def coverage(entry_keys):
    hdr = header_factories()
    exercised = set(re.sub(r'(/\d+|#[\w-]+)+$', '', k) for k in entry_keys)
    uncovered, reasons = [], {}
    for k in sorted(hdr):
        if k in exercised:
            continue
        if k in UNLINKABLE:
            reasons[k] = UNLINKABLE[k]
        uncovered.append(k)
    unknown = sorted(k for k in exercised if k not in hdr)
    return hdr, uncovered, reasons, unknown


def const_types(P):
    """[(constant, constant that is its type() or 'unknown')] for every Lexicon constant that is an expression"""
    out = []
    for node, cname in P.consts.items():
        o = P.obs.get(node)
        if not o:
            continue
        t = dict(o[1]).get('type')
        if t is None:
            continue
        out.append((cname, P.consts.get(t, 'unknown')))
    return out


# ------------------------------------------------------------------------------------------------ shared steps of the two checks

class Sweep:
    """One run of the probe over every factory (+ optional growth histories), parsed and classified."""

    def __init__(self, rounds=1, seed=None, extra_ops=(), only=None):
        ops = (['call ' + k for k in only] if only else ['all']) + list(extra_ops)
        self.ops = ops
        self.rc, self.out, self.err = run_probe(ops, rounds=rounds, seed=seed)
        self.P = parse_probe(self.out)
        self.cats = category_names()
        self.rows = build_table(self.P)
        self.crashed = self.rc != 0 or not self.P.complete

    def lean_text(self):
        return lean_table(self.rows, self.cats, const_types(self.P), builtin_types(self.P))

    def regen(self):
        return C.write_if_changed(GEN_PATH, self.lean_text())

    def last_key(self):
        return self.P.calls[-1].key if self.P.calls else None


def late_differences(P):
    """[(call, node, field, first value, late value)]: what a node returned by a factory (or an object created with it) reports when
    it is read again after every other factory call of the sweep, against what it reported right after its own call."""
    first = {(c.key, c.inst): c for c in P.calls}
    out = []
    for l in P.late:
        c = first.get((l.key, l.inst))
        if c is None or c.result != l.result:
            continue
        for name, (kind, fields) in c.obs.items():
            if name not in l.obs:
                continue
            kind2, fields2 = l.obs[name]
            if kind2 != kind:
                out.append((c, name, '<kind>', kind, kind2))
                continue
            d2 = dict(fields2)
            for f, v in fields:
                if f in d2 and d2[f] != v and not _grew(v, d2[f]):
                    out.append((c, name, f, v, d2[f]))
    return out


def _grew(a, b):
    """a member sequence that gained members at its end (the one change the statement allows)"""
    if not (a.startswith('[') and a.endswith(']') and b.startswith('[') and b.endswith(']')):
        return False
    ea, eb = split_top(a[1:-1]) if a != '[]' else [], split_top(b[1:-1]) if b != '[]' else []
    return len(ea) < len(eb) and eb[:len(ea)] == ea


# ------------------------------------------------------------------------------------------------ builder calls after creation

FORM_SUFFIXES = ('#nested', '#resolved-operand', '#reserved-spelling', '#list-filled-later', '#near-equal', '#lists-filled')


def base_key(key):
    """the entry a row belongs to (the key of an operand form names its entry)"""
    for sfx in FORM_SUFFIXES:
        if key.endswith(sfx):
            return key[:-len(sfx)]
    return key


def function_name(key):
    """`expr_factory::make_cast(Type,Expr)#qualified-type` -> `make_cast` (as the probe groups the entries of one function)"""
    f = key.split('(')[0]
    return f.rsplit('::', 1)[-1]


def parse_builder_histories(out):
    """{(key, inst): [dict(step, action, type, want, val, obs={field: value})]} from the probe's M / N lines: the node made by the repeated
    call of every factory entry receives, one at a time and in a seeded order, every client action its implementation class allows --
    every setter twice, with different values -- and is observed in full after each."""
    hs = {}
    for ln in out.splitlines():
        if ln.startswith('M '):
            m = re.match(r'M (\S+) (\d+) (\d+) (\S+) type=(\S+) want=(\S+) val=(\S+)$', ln)
            if m:
                hs.setdefault((m.group(1), int(m.group(2))), []).append(
                    {'step': int(m.group(3)), 'action': m.group(4), 'type': m.group(5), 'want': m.group(6), 'val': m.group(7), 'obs': None})
        elif ln.startswith('N '):
            m = re.match(r'N (\S+) (\d+) (\d+) (.*)$', ln)
            if m:
                h = hs.get((m.group(1), int(m.group(2))))
                if h and h[-1]['step'] == int(m.group(3)):
                    _, kind, fields = parse_obs(m.group(4))
                    h[-1]['obs'] = dict(fields)
                    h[-1]['kind'] = kind
    return hs


def setter_of(action):
    """`init=Expr#2` -> `init`, `specifiers()#2` -> `specifiers()`"""
    return re.sub(r'#\d+$', '', action).split('=')[0]


def builder_oracle(steps):
    """The statement of C02 for parts supplied through the builder interface AFTER creation, on one history of client actions: a part
    reads as the value it was given LAST.  What a setter is read back under is learnt from its first call (the accessors whose value
    became the value assigned); from then on these accessors must read the latest value assigned by that setter after EVERY later
    action (another setter, the same setter again, a container growing).  Returns None or (step, message)."""
    learnt = {}         # setter -> accessors it is read back under
    latest = {}         # accessor -> (value, action)
    prev = None
    done = []
    for st in steps:
        obs = st['obs']
        if obs is None:
            continue
        if st['step'] > 0 and st['val'] != '-' and prev is not None:
            k = setter_of(st['action'])
            if not learnt.get(k):
                learnt[k] = [f for f, v in obs.items() if v == st['val'] and prev.get(f) != v]
            for f in learnt[k]:
                latest[f] = (st['val'], st['action'])
        if st['step'] > 0:
            done.append(st['action'])
        for f, (v, act) in latest.items():
            if obs.get(f) != v:
                return st['step'], 'after %s: `%s` reads `%s`; the last builder call that supplied it was `%s` with value `%s`' % (
                    ' -> '.join(done), f, obs.get(f), act, v)
        prev = obs
    return None


def builder_coverage(hs):
    """{setter: [times called, times its first call was observable]} over all histories (evidence)"""
    cov = {}
    for steps in hs.values():
        seen = set()
        prev = None
        for st in steps:
            if st['obs'] is None:
                continue
            if st['step'] > 0 and st['val'] != '-':
                k = setter_of(st['action'])
                c = cov.setdefault(k, [0, 0])
                c[0] += 1
                if k not in seen:
                    seen.add(k)
                    if prev is not None and any(v == st['val'] and prev.get(f) != v for f, v in st['obs'].items()):
                        c[1] += 1
            prev = st['obs']
    return cov


def expected_rows():
    """The documented table as printed by the model driver: {key: row dict} and the key order; None if the driver is unavailable."""
    try:
        rc, out, err = C.run_model('c02', 'expected\n')
    except C.BuildError:
        return None, None
    if rc != 0:
        return None, None
    rows = [parse_row_text(l) for l in out.splitlines() if ' | ' in l or l.endswith(' |')]
    return {r['key']: r for r in rows}, [r['key'] for r in rows]


def generated_row_dict(row, cats):
    return parse_row_text(row_text(row, cats))


def diff_rows(exp, gen):
    """[(what, documented, implementation)] between two row dicts (same key)."""
    d = []
    for f in ('kind', 'cat', 'storage', 'sorts', 'type'):
        if exp.get(f) != gen.get(f):
            d.append((f if f != 'type' else 'type()', exp.get(f), gen.get(f)))
    ea, ga = dict(exp['acc']), dict(gen['acc'])
    for p, s in gen['acc']:
        if ea.get(p) != s:
            d.append((p, ea.get(p, '<not documented>'), s))
    for p, s in exp['acc']:
        if p not in ga:
            d.append((p, s, '<not reported>'))
    if not d and [p for p, _ in exp['acc']] != [p for p, _ in gen['acc']]:
        d.append(('<order of accessors>', ','.join(p for p, _ in exp['acc']), ','.join(p for p, _ in gen['acc'])))
    return d


def describe_instances(P, row, path, limit=4, doc=None):
    """The argument vectors and what was observed under `path`, per instance (the replay of a wiring difference); when the documented
    source `doc` is given, the instances it does not explain come first and are marked."""
    out = []
    for c in row['calls']:
        _, fl = flatten(P, c)
        d = dict(fl)
        raw = d.get(path)
        if raw is None and path == 'type()':
            raw = d.get('type')
        off = doc is not None and raw is not None and doc not in ('none', '<not documented>') and doc not in candidates(P, c, raw)
        out.append((not off, c.inst, 'instance %d: args=[%s] result=%s observed %s=%s%s' % (
            c.inst, ' '.join(c.args), c.result, path, raw, '   <-- not `%s`' % doc if off else '')))
    out.sort(key=lambda x: (x[0], x[1]))
    return [x[2] for x in out[:limit]]


def instance_oracle(P, rows, exp):
    """The statement of C02 evaluated on every single call of the implementation trace: the documented source of every
    accessor must explain the value observed for exactly these operands.  Returns [(key, inst, path, documented, raw)]."""
    bad = []
    for row in rows:
        e = exp.get(row['key'])
        if e is None:
            continue
        doc = dict(e['acc'])
        doc['type'] = e['type']
        for c in row['calls']:
            _, fl = flatten(P, c)
            for p, raw in fl:
                if p == 'category' or p not in doc:
                    continue
                if doc[p] == 'none':
                    continue
                if doc[p] not in candidates(P, c, raw):
                    bad.append((row['key'], c.inst, p, doc[p], raw))
    return bad


def model_ops(P, rows):
    """Driver input replaying every call on the model + what the implementation reported, per call:
       [(call, [(path, value)])] with values in the driver's vocabulary."""
    ops, expect = [], []
    known_env = {}
    for row in rows:
        for c in row['calls']:
            if not NODE.match(c.result) or c.result[0] != 'n' or int(c.result[1:]) < c.w:
                continue                       # by-value results and nodes that existed before the call are not replayed
            for a in c.args:
                if NODE.match(a):
                    o = lookup(P, c, a)
                    if o is None:
                        continue
                    fields = ['%s=%s' % (f, const_or(P, v)) for f, v in o[1] if f in HOPS and ' ' not in v]
                    line = 'env %s %s %s' % (a, o[0], ' '.join(fields))
                    if known_env.get(a) != line:
                        known_env[a] = line
                        ops.append(line)
            ops.append('call %s %s %s' % (c.key, c.result, ' '.join(const_or(P, a) for a in c.args)))
            # the name of the result now stands for the record just made: when that node is used as an operand later (`#nested`), what
            # the implementation reports for it is stated again (parts created with it have names on this side only)
            known_env.pop(c.result, None)
            _, fl = flatten(P, c)
            expect.append((c, [(p, const_or(P, v)) for p, v in fl if p != 'category']))
    return ops, expect


def const_or(P, v):
    return 'const:' + P.consts[v] if v in P.consts else v


def parse_model_R(line):
    parts = line.split(' ')
    out = []
    for p in parts[2:]:
        i = p.find('=')
        out.append((p[:i], p[i + 1:]))
    return parts[1], out


def src_histogram(rows):
    h = {}
    for r in rows:
        for _, s in r['acc'] + ([('type', r['typ'])] if r['typ'] else []):
            k = re.sub(r'[\d:].*$', '', s)
            h[k] = h.get(k, 0) + 1
    return dict(sorted(h.items()))
