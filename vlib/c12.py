"""C12 — regions form a tree rooted at the global region; owners and positions are right (DESIGN.md §4 C12)."""
import random, re
from . import common as C

PID = 'C12'
MANIFEST = dict(
    text='Theorems C12_* (lean/IprProps/C12.lean) prove, for every construction history of the region model (any nesting, any '
         'interleaving, valid or invalid arguments): the enclosing region was created strictly earlier, the outward walk from any '
         'region takes exactly depth <= index steps and ends in the global region of its unit, a region reports global() iff it is '
         'a unit root, class/union/enum/namespace/closure/block/mapping/lambda regions name their entity as owner and are enclosed '
         'by the region they were made in, the handler shape (body region inside a region binding exactly the exception parameter, '
         'inside the region enclosing the guarded block), position i = i / home region / level for parameters, enumerators and '
         'bases, the unit clauses (unnamed global namespace typed namespace; module units link back), and that no observation ever '
         'changes later. The model is tied to impl::Region / Udt / Block / Handler / Parameter_list / unit_base / Module by a '
         'differential run of random nesting programs (all region-opening constructs, shuffled creation orders, deep chains) on a '
         'real impl::Lexicon, with the statement also evaluated directly on the implementation trace.',
    note='Lean kernel; axioms propext/Classical.choice/Quot.sound; hand-written model tied by correspondence only on generated '
         'programs; harness c12probe.cxx (reads through the ipr:: interface; impl:: members only to call constructors and for the '
         'region of a Where), ASan/UBSan, g++. Destruction of deep region chains is not exercised.',
    technique='Lean 4 theorems (invariant over all construction histories, strong induction on the region index) + differential '
              'correspondence + statement oracle on the implementation trace',
    ref='§4 C12')

UDT = ('class', 'union', 'enum', 'ns', 'closure')
CALL = ('mapping', 'lambda', 'requires')
UCAT = {'class': 'Class', 'union': 'Union', 'enum': 'Enum', 'ns': 'Namespace', 'closure': 'Closure'}
CCAT = {'mapping': 'Mapping', 'lambda': 'Lambda', 'requires': 'Requires', 'morphism': 'Morphism'}
MCAT = {'param': 'Parameter', 'enumerator': 'Enumerator', 'base': 'Base_type'}


# ------------------------------------------------------------------------------------------------ symbolic programs

class Prog:
    """A program of symbolic operations.  A reference is (prefix, op index, slot); `render` numbers them r<k>/n<k>/u<k>/m<k>
    in creation order, exactly as both drivers do.  `slice_for` keeps only what an operation depends on."""

    def __init__(self):
        self.ops = []            # (verb, args, creates, extra deps)
        self.home_ops = {}       # region ref -> indices of member ops that appended to it
        self.cont_home = {}      # container node ref -> the region its members go to
        self.info = {}           # region ref -> dict(depth=, hetero=, kind=, unit=)

    def add(self, verb, args=(), creates=(), deps=()):
        i = len(self.ops)
        refs = [(p, i, s) for (p, s) in creates]
        self.ops.append((verb, list(args), refs, list(deps)))
        return refs

    def render(self, keep=None):
        num, cnt, lines = {}, {'r': 0, 'n': 0, 'u': 0, 'm': 0}, []
        for i, (verb, args, creates, _) in enumerate(self.ops):
            if keep is not None and i not in keep:
                continue
            for ref in creates:
                num[ref] = cnt[ref[0]]
                cnt[ref[0]] += 1
            lines.append(' '.join([verb] + [('%s%d' % (a[0], num[a])) if isinstance(a, tuple) else str(a) for a in args]))
        return lines

    def slice_for(self, idx):
        creator = {}
        for i, (_, _, creates, _) in enumerate(self.ops):
            for ref in creates:
                creator[ref] = i
        keep, todo = set(), [idx]
        while todo:
            i = todo.pop()
            if i in keep:
                continue
            keep.add(i)
            verb, args, _, deps = self.ops[i]
            for a in args:
                if isinstance(a, tuple):
                    todo.append(creator[a])
                    if verb in ('obs', 'obsn'):
                        todo += [j for j in self.home_ops.get(self.cont_home.get(a, a), []) if j < idx]
            todo += deps
        return keep

    # -- constructors of the generator: each returns the references it creates
    def region_info(self, ref, parent, kind, hetero):
        d = self.info[parent]['depth'] + 1 if parent is not None else 0
        u = self.info[parent]['unit'] if parent is not None else ref
        self.info[ref] = dict(depth=d, hetero=hetero, kind=kind, unit=u, parent=parent)

    def unit(self):
        u, n, g = self.add('unit', (), [('u', 'unit'), ('n', 'ns'), ('r', 'global')])
        self.region_info(g, None, 'root', True)
        return u, n, g

    def module(self):
        m, u, n, g = self.add('module', (), [('m', 'module'), ('u', 'iface'), ('n', 'ns'), ('r', 'global')])
        self.region_info(g, None, 'root', True)
        return m, u, n, g

    def munit(self, m):
        u, n, g = self.add('munit', (m,), [('u', 'unit'), ('n', 'ns'), ('r', 'global')])
        self.region_info(g, None, 'root', True)
        return u, n, g

    def sub(self, r):
        (x,) = self.add('sub', (r,), [('r', 'sub')])
        self.region_info(x, r, 'sub', True)
        return x

    def udt(self, kind, r):
        if kind == 'class':
            n, body, bases = self.add('class', (r,), [('n', 'class'), ('r', 'body'), ('r', 'bases')])
            self.region_info(body, r, 'classBody', True)
            self.region_info(bases, r, 'classBases', False)
            return n, body, bases
        n, body = self.add(kind, (r,), [('n', kind), ('r', 'body')])
        self.region_info(body, r, kind + 'Body', kind != 'enum')
        return n, body, None

    def block(self, r):
        n, rg = self.add('block', (r,), [('n', 'block'), ('r', 'region')])
        self.region_info(rg, r, 'block', True)
        return n, rg

    def handler(self, blk, blk_region):
        exc, body, h, eh, rg = self.add('handler', (blk,), [('n', 'exc'), ('n', 'hbody'), ('n', 'handler'), ('r', 'eh'), ('r', 'region')])
        self.region_info(eh, self.info[blk_region]['parent'], 'eh', False)
        self.region_info(rg, eh, 'handlerBody', True)
        return exc, body, h, eh, rg

    def callable(self, kind, r, lvl, rf=None):
        if kind == 'morphism':
            pl, n, parms = self.add('morphism', (rf, r, lvl), [('n', 'plist'), ('n', kind), ('r', 'parms')])
        else:
            pl, n, parms = self.add(kind, (r, lvl), [('n', 'plist'), ('n', kind), ('r', 'parms')])
        self.region_info(parms, r, kind + 'Parms', False)
        return pl, n, parms

    def where(self, r):
        n, rg = self.add('where', (r,), [('n', 'where'), ('r', 'region')])
        self.region_info(rg, r, 'whereBody', True)
        return n, rg

    def member(self, verb, cont, home):
        prev = self.home_ops.setdefault(home, [])
        self.cont_home[cont] = home
        (x,) = self.add(verb, (cont,), [('n', verb)], deps=list(prev))
        prev.append(len(self.ops) - 1)
        return x

    def obs(self, verb, ref):
        self.add(verb, (ref,))


class World:
    """What the generator knows about the program built so far (to pick valid arguments)."""

    def __init__(self, prog, rng):
        self.p, self.rng = prog, rng
        self.regions, self.hetero, self.blocks, self.plists, self.enums, self.classes = [], [], [], [], [], []
        self.nodes, self.units, self.modules = [], [], []
        self.matrix = {}

    def reg(self, r):
        self.regions.append(r)
        if self.p.info[r]['hetero']:
            self.hetero.append(r)

    def new_unit(self, how):
        if how == 'tu' or (how == 'munit' and not self.modules):
            u, n, g = self.p.unit()
        elif how == 'module':
            m, u, n, g = self.p.module()
            self.modules.append(m)
        else:
            u, n, g = self.p.munit(self.rng.choice(self.modules))
        self.units.append(u); self.nodes.append(n); self.reg(g)
        return g

    def construct(self, what, r):
        """Open construct `what` inside region r; returns the innermost new region."""
        p, rng = self.p, self.rng
        key = (p.info[r]['kind'], what)
        self.matrix[key] = self.matrix.get(key, 0) + 1
        if what == 'sub':
            x = p.sub(r); self.reg(x); return x
        if what in UDT:
            n, body, bases = p.udt(what, r)
            self.nodes.append(n); self.reg(body)
            if bases is not None:
                self.reg(bases); self.classes.append((n, bases))
            if what == 'enum':
                self.enums.append((n, body))
            return body
        if what == 'block':
            n, rg = p.block(r); self.nodes.append(n); self.reg(rg); self.blocks.append((n, rg)); return rg
        if what == 'handler':
            n, rg = p.block(r); self.nodes.append(n); self.reg(rg); self.blocks.append((n, rg))
            return self.add_handler((n, rg))
        if what in CALL or what == 'morphism':
            rf = rng.choice(self.hetero) if what == 'morphism' else None
            pl, n, parms = p.callable(what, r, rng.randrange(0, 6), rf)
            self.nodes += [pl, n]; self.reg(parms); self.plists.append((pl, parms)); return parms
        if what == 'where':
            n, rg = p.where(r); self.nodes.append(n); self.reg(rg); return rg
        raise ValueError(what)

    def add_handler(self, blk):
        exc, body, h, eh, rg = self.p.handler(blk[0], blk[1])
        self.nodes += [exc, body, h]; self.reg(eh); self.reg(rg)
        return rg

    def add_member(self):
        rng = self.rng
        pools = [(v, pool) for v, pool in (('param', self.plists), ('enumerator', self.enums), ('base', self.classes)) if pool]
        if not pools:
            return
        verb, pool = rng.choice(pools)
        cont, home = rng.choice(pool[-8:]) if rng.random() < 0.6 else rng.choice(pool)
        self.nodes.append(self.p.member(verb, cont, home))

    def applicable(self, r):
        c = ['class', 'union', 'enum', 'ns', 'closure', 'block', 'handler', 'mapping', 'lambda', 'requires', 'morphism', 'where']
        if self.p.info[r]['hetero']:
            c.append('sub')
        return c

    def observe_some(self, k):
        rng = self.rng
        for _ in range(k):
            t = rng.random()
            if t < 0.5 and self.regions:
                self.p.obs('obs', rng.choice(self.regions))
            elif t < 0.85 and self.nodes:
                self.p.obs('obsn', rng.choice(self.nodes))
            elif t < 0.95 and self.regions:
                self.p.obs('walk', rng.choice(self.regions))
            elif self.units:
                self.p.obs('obsu', rng.choice(self.units))

    def observe_all(self, walk_sample=None):
        for r in self.regions:
            self.p.obs('obs', r)
        for n in self.nodes:
            self.p.obs('obsn', n)
        for u in self.units:
            self.p.obs('obsu', u)
        for m in self.modules:
            self.p.add('obsm', (m,))
        rs = self.regions if walk_sample is None or len(self.regions) <= walk_sample else \
            self.rng.sample(self.regions, walk_sample) + self.regions[-3:]
        for r in rs:
            self.p.obs('walk', r)


def gen_program(tier, rng):
    """One program (one Lexicon): several units; random nesting with shuffled creation orders; deep chains; interleaved
    siblings and member lists; boundary cases.  Returns (Prog, World, labels)."""
    p = Prog()
    w = World(p, rng)
    quick = tier == 'quick'
    labels = {}
    # -- units: a translation unit, a module with its interface unit, implementation units
    roots = [w.new_unit('tu'), w.new_unit('module'), w.new_unit('munit'), w.new_unit('munit'), w.new_unit('tu')]
    # -- boundary cases first (short replays)
    g = roots[0]
    blk = p.block(g); w.nodes.append(blk[0]); w.reg(blk[1]); w.blocks.append(blk)       # try-block directly in the global region
    for _ in range(3):
        w.add_handler(blk)                                                                 # several handlers on one block
    inner = w.construct('handler', w.regions[-1])                                          # handler inside a handler body
    w.construct('class', w.construct('mapping', inner))                                    # class inside a parameter region
    w.construct('requires', w.construct('lambda', w.construct('enum', g)))                 # nesting through homogeneous regions
    pl, n, parms = p.callable('morphism', roots[3], 4, rf=roots[0])                        # declarator made by another unit's factory
    w.nodes += [pl, n]; w.reg(parms); w.plists.append((pl, parms))
    w.observe_all()
    labels['boundary'] = len(p.ops)
    # -- random nesting, parents chosen anywhere (siblings interleaved), members appended in between
    n_rand = 900 if quick else 40000
    for i in range(n_rand):
        t = rng.random()
        if t < 0.22:
            w.add_member()
        elif t < 0.27 and w.blocks:
            w.add_handler(rng.choice(w.blocks))
        elif t < 0.28:
            w.new_unit(rng.choice(['tu', 'module', 'munit']))
        else:
            r = w.regions[-1 - rng.randrange(min(4, len(w.regions)))] if rng.random() < 0.35 else rng.choice(w.regions)
            w.construct(rng.choice(w.applicable(r)), r)
        if rng.random() < 0.3:
            w.observe_some(2)
    labels['random'] = len(p.ops)
    # -- interleaved siblings: K parents, children and members added round-robin in shuffled order
    parents = [w.construct('ns', roots[1]) for _ in range(6)]
    lists = [p.callable(rng.choice(CALL), q, k) for k, q in enumerate(parents)]
    for pl, n, parms in lists:
        w.nodes += [pl, n]; w.reg(parms); w.plists.append((pl, parms))
    turns = [(i, j) for i in range(6) for j in range(12 if quick else 60)]
    rng.shuffle(turns)
    for i, _ in turns:
        if rng.random() < 0.5:
            w.nodes.append(p.member('param', lists[i][0], lists[i][2]))
        else:
            parents[i] = w.construct(rng.choice(['block', 'class', 'where', 'sub', 'closure', 'union']), parents[i]) \
                if p.info[parents[i]]['hetero'] else w.construct('block', parents[i])
    labels['interleaved'] = len(p.ops)
    # -- long member lists (positions at the far end)
    long_n = 1100 if quick else 5000
    en, ebody, _ = p.udt('enum', roots[4]); w.nodes.append(en); w.reg(ebody); w.enums.append((en, ebody))
    cl, cbody, cbases = p.udt('class', roots[4]); w.nodes.append(cl); w.reg(cbody); w.reg(cbases); w.classes.append((cl, cbases))
    lpl, ln, lparms = p.callable('mapping', cbody, 1); w.nodes += [lpl, ln]; w.reg(lparms); w.plists.append((lpl, lparms))
    last = []
    for i in range(long_n):
        last = [p.member('enumerator', en, ebody), p.member('base', cl, cbases), p.member('param', lpl, lparms)]
        if i % 97 == 0:
            w.nodes += last
    w.nodes += last
    labels['long-lists'] = len(p.ops)
    # -- deep chains: every level a random construct, siblings created on the way down
    depth = 200 if quick else 20000
    for chain in range(2 if quick else 1):
        r = rng.choice(roots)
        for d in range(depth):
            r = w.construct(rng.choice(w.applicable(r)), r)
            if rng.random() < 0.05:
                w.construct(rng.choice(w.applicable(r)), r)       # a sibling that is not continued
            if rng.random() < 0.05:
                w.add_member()
    # a chain of pure sub-regions (ownership recursion in the library) and one of blocks with handlers
    r = roots[2]
    for d in range(depth):
        r = w.construct('sub', r)
    r = roots[4]
    for d in range(depth // 2):
        r = w.construct('handler', r)
    labels['deep'] = len(p.ops)
    w.observe_all(walk_sample=None if quick else 1500)
    labels['final-observation'] = len(p.ops)
    return p, w, labels


# ------------------------------------------------------------------------------------------------ the statement, evaluated on a trace

def parse_fields(line):
    toks = line.split()
    d = {'_head': toks[0] if toks else '', '_kind': None}
    for t in toks[1:]:
        if '=' in t:
            k, v = t.split('=', 1)
            d[k] = v
        elif d['_kind'] is None:
            d['_kind'] = t
    return d


class Oracle:
    """Evaluates the statement of C12 on the implementation's answers alone.  It keeps, from the op lines, what the statement
    requires of every region / node (a few dictionaries), and compares only the fields the statement constrains."""

    OWNED = {'classBody': 'Class', 'classBases': 'Class', 'unionBody': 'Union', 'enumBody': 'Enum', 'nsBody': 'Namespace',
             'closureBody': 'Closure', 'root': 'Namespace', 'block': 'Block', 'handlerBody': 'Block',
             'mappingParms': 'Mapping', 'lambdaParms': 'Lambda'}

    def __init__(self):
        self.R, self.N, self.U, self.M = [], [], [], []      # expected records, index = number in the name
        self.impl_parent = {}                                # from the implementation's own obs lines
        self.impl_global = {}
        self.stats = {'max_depth': 0, 'max_walk': 0, 'walks': 0, 'checked_fields': 0}

    # -- expected store
    def new_region(self, parent, kind, owner, hetero, binds=None):
        depth = self.R[parent]['depth'] + 1 if parent is not None else 0
        root = self.R[parent]['root'] if parent is not None else len(self.R)
        self.R.append(dict(parent=parent, kind=kind, owner=owner, hetero=hetero, binds=list(binds or []), depth=depth, root=root))
        self.stats['max_depth'] = max(self.stats['max_depth'], depth)
        return len(self.R) - 1

    def new_node(self, **kw):
        self.N.append(kw)
        return len(self.N) - 1

    def new_unit(self, kind, module):
        n = self.new_node(kind='ns', unit=True, region=len(self.R))
        g = self.new_region(None, 'root', n, True)
        self.U.append(dict(kind=kind, ns=n, region=g, module=module))
        return len(self.U) - 1

    @staticmethod
    def ref(s, prefix, table):
        if len(s) >= 2 and s[0] == prefix and s[1:].isdigit() and int(s[1:]) < len(table):
            return int(s[1:])
        return None

    def expect(self, op, got, want, what):
        self.stats['checked_fields'] += 1
        if got != want:
            return '`%s`: %s is `%s`, the statement requires `%s`' % (op, what, got, want)
        return None

    def check_fields(self, op, f, wants):
        for k, v in wants.items():
            e = self.expect(op, f.get(k), v, k)
            if e:
                return e
        return None

    def step(self, op, line, asserts):
        """Returns an error message when the implementation's answer `line` to `op` violates the statement."""
        for a in asserts:
            if not a.endswith('=1'):
                return 'implementation assertion failed: %s after `%s`' % (a, op)
        w = op.split()
        v = w[0]
        f = parse_fields(line)
        bad = (lambda: self.expect(op, line, 'bad-ref', 'answer'))
        if v == 'unit' and len(w) == 1:
            u = self.new_unit('tu', None)
            return self.check_unit(op, f, u, f['_head'])
        if v == 'module' and len(w) == 1:
            self.M.append(dict(iface=len(self.U)))
            u = self.new_unit('iface', len(self.M) - 1)
            e = self.expect(op, f['_head'], 'm%d' % (len(self.M) - 1), 'module name')
            if e:
                return e
            iface = f.get('iface')
            return self.check_unit(op, f, u, iface)
        if v == 'munit' and len(w) == 2:
            m = self.ref(w[1], 'm', self.M)
            if m is None:
                return bad()
            u = self.new_unit('impl', m)
            return self.check_unit(op, f, u, f['_head'])
        if v == 'sub' and len(w) == 2:
            r = self.ref(w[1], 'r', self.R)
            if r is None or not self.R[r]['hetero']:
                return bad()
            k = self.new_region(r, 'sub', None, True)
            return self.expect(op, line, 'r%d' % k, 'new region (must be one never seen before)')
        if v in UDT and len(w) == 2:
            r = self.ref(w[1], 'r', self.R)
            if r is None:
                return bad()
            n = self.new_node(kind=v, unit=False, region=len(self.R))
            body = self.new_region(r, {'class': 'classBody', 'union': 'unionBody', 'enum': 'enumBody', 'ns': 'nsBody',
                                       'closure': 'closureBody'}[v], n, v != 'enum')
            wants = {'_head': 'n%d' % n, 'body': 'r%d' % body}
            if v == 'class':
                self.N[n]['bases'] = self.new_region(r, 'classBases', n, False)
                wants['bases'] = 'r%d' % self.N[n]['bases']
            return self.check_fields(op, f, wants)
        if v == 'block' and len(w) == 2:
            r = self.ref(w[1], 'r', self.R)
            if r is None:
                return bad()
            n = self.new_node(kind='block', region=len(self.R), can_handle=True)
            rg = self.new_region(r, 'block', n, True)
            return self.check_fields(op, f, {'_head': 'n%d' % n, 'region': 'r%d' % rg})
        if v == 'handler' and len(w) == 2:
            b = self.ref(w[1], 'n', self.N)
            if b is None or self.N[b]['kind'] != 'block' or not self.N[b].get('can_handle'):
                return bad()
            encl = self.R[self.N[b]['region']]['parent']           # the region that encloses the guarded block
            exc = self.new_node(kind='ehparam')
            hb = self.new_node(kind='block', region=len(self.R) + 1, can_handle=False)
            h = self.new_node(kind='handler', exc=exc, body=hb, block=b)
            eh = self.new_region(encl, 'eh', None, False, [exc])
            rg = self.new_region(eh, 'handlerBody', hb, True)
            return self.check_fields(op, f, {'_head': 'n%d' % h, 'exc': 'n%d' % exc, 'body': 'n%d' % hb, 'eh': 'r%d' % eh,
                                             'region': 'r%d' % rg})
        if (v in CALL and len(w) == 3) or (v == 'morphism' and len(w) == 4):
            if not w[-1].isdigit():
                return self.expect(op, line, 'bad-op', 'answer')
            r = self.ref(w[-2], 'r', self.R)
            if r is None:
                return bad()
            if v == 'morphism':
                rf = self.ref(w[1], 'r', self.R)
                if rf is None or not self.R[rf]['hetero']:
                    return bad()
            pl = self.new_node(kind='plist', region=len(self.R), level=int(w[-1]), host=len(self.N) + 1)
            n = self.new_node(kind=v, plist=pl)
            parms = self.new_region(r, v + 'Parms', n if v in ('mapping', 'lambda') else None, False)
            return self.check_fields(op, f, {'_head': 'n%d' % n, 'plist': 'n%d' % pl, 'parms': 'r%d' % parms})
        if v == 'where' and len(w) == 2:
            r = self.ref(w[1], 'r', self.R)
            if r is None:
                return bad()
            n = self.new_node(kind='where', region=len(self.R))
            rg = self.new_region(r, 'whereBody', None, True)
            return self.check_fields(op, f, {'_head': 'n%d' % n, 'region': 'r%d' % rg})
        if v in MCAT and len(w) == 2:
            c = self.ref(w[1], 'n', self.N)
            want_kind = {'param': 'plist', 'enumerator': 'enum', 'base': 'class'}[v]
            if c is None or self.N[c]['kind'] != want_kind:
                return bad()
            home = self.N[c]['bases'] if v == 'base' else self.N[c]['region']
            pos = len(self.R[home]['binds'])                       # zero-based position = number of earlier members
            n = self.new_node(kind=v, cont=c, home=home, pos=pos)
            self.R[home]['binds'].append(n)
            wants = {'_head': 'n%d' % n, 'pos': str(pos), 'home': 'r%d' % home}
            if v == 'param':
                wants['level'] = str(self.N[c]['level'])
            return self.check_fields(op, f, wants)
        if v == 'obs' and len(w) == 2:
            r = self.ref(w[1], 'r', self.R)
            if r is None:
                return bad()
            return self.check_region(op, f, r)
        if v == 'obsn' and len(w) == 2:
            n = self.ref(w[1], 'n', self.N)
            if n is None:
                return bad()
            return self.check_node(op, f, n)
        if v == 'obsu' and len(w) == 2:
            u = self.ref(w[1], 'u', self.U)
            if u is None:
                return bad()
            return self.check_unit(op, f, u, f['_head'])
        if v == 'obsm' and len(w) == 2:
            m = self.ref(w[1], 'm', self.M)
            if m is None:
                return bad()
            return self.check_fields(op, f, {'_head': 'm%d' % m, 'iface': 'u%d' % self.M[m]['iface']})
        if v == 'walk' and len(w) == 2:
            r = self.ref(w[1], 'r', self.R)
            if r is None:
                return bad()
            self.stats['walks'] += 1
            self.stats['max_walk'] = max(self.stats['max_walk'], self.R[r]['depth'])
            # finitely many steps, at most depth, ending in the global region of the unit
            return self.check_fields(op, f, {'_head': 'r%d' % r, 'steps': str(self.R[r]['depth']), 'root': 'r%d' % self.R[r]['root']})
        return self.expect(op, line, 'bad-op', 'answer')

    def check_unit(self, op, f, u, head):
        U = self.U[u]
        e = self.expect(op, head, 'u%d' % u, 'unit name')
        if e:
            return e
        # every unit owns a global namespace (a node of its own) whose region is a root; module units link back
        return self.check_fields(op, f, {'ns': 'n%d' % U['ns'], 'region': 'r%d' % U['region'],
                                         'module': '-' if U['module'] is None else 'm%d' % U['module']})

    def check_region(self, op, f, r):
        R = self.R[r]
        wants = {'_head': 'r%d' % r, 'global': '1' if R['parent'] is None else '0'}
        if R['parent'] is not None:
            wants['enc'] = 'r%d' % R['parent']                     # enclosed by the region it was created in
        if R['kind'] in self.OWNED:
            wants['owner'] = '%s:n%d' % (self.OWNED[R['kind']], R['owner'])
        if R['kind'] == 'eh' or R['binds']:
            wants['bind'] = ','.join('n%d' % x for x in R['binds'])    # EH region: exactly the exception parameter
        e = self.check_fields(op, f, wants)
        if e:
            return e
        self.impl_parent[r] = f.get('enc')
        self.impl_global[r] = f.get('global')
        return None

    def check_node(self, op, f, n):
        N = self.N[n]
        k = N['kind']
        wants = {'_head': 'n%d' % n}
        if k in UDT:
            wants.update(_kind=UCAT[k], region='r%d' % N['region'])
            if k == 'ns':
                wants['type'] = 'namespace'
                if N.get('unit'):
                    wants['name'] = '[]'                           # the global namespace is unnamed
        elif k == 'block':
            wants.update(_kind='Block', region='r%d' % N['region'])
        elif k == 'handler':
            wants.update(_kind='Handler', exc='n%d' % N['exc'], body='n%d' % N['body'])
        elif k == 'ehparam':
            wants.update(_kind='EH_parameter')
        elif k in CCAT:
            wants.update(_kind=CCAT[k], plist='n%d' % N['plist'])
        elif k == 'plist':
            wants.update(_kind='Parameter_list', region='r%d' % N['region'], level=str(N['level']),
                         size=str(len(self.R[N['region']]['binds'])))
        elif k == 'where':
            wants.update(_kind='Where')
        elif k in MCAT:
            wants.update(_kind=MCAT[k], pos=str(N['pos']), home='r%d' % N['home'])
            if k == 'param':
                wants['level'] = str(self.N[N['cont']]['level'])
        return self.check_fields(op, f, wants)

    def mask(self, op, line):
        """Blank the fields of an observation line about which the statement says nothing: the owner of sub-regions, EH
        regions, requires / declarator parameter regions and Where regions; what enclosing() does on a global region; the
        home of an EH parameter; name and type of entities other than a unit's global namespace."""
        w = op.split()
        if len(w) != 2 or w[0] not in ('obs', 'obsn'):
            return line
        toks = line.split()

        def blank(keys):
            return ' '.join(t.split('=', 1)[0] + '=*' if '=' in t and t.split('=', 1)[0] in keys else t for t in toks)
        if w[0] == 'obs':
            r = self.ref(w[1], 'r', self.R)
            if r is None:
                return line
            keys = set()
            if self.R[r]['kind'] not in self.OWNED:
                keys.add('owner')
            if self.R[r]['parent'] is None:
                keys.add('enc')
            return blank(keys)
        n = self.ref(w[1], 'n', self.N)
        if n is None:
            return line
        k = self.N[n]['kind']
        if k == 'ehparam':
            return blank({'home'})
        if k in UDT and not self.N[n].get('unit'):
            return blank({'type', 'name'})
        return line

    def tree_check(self):
        """Tree-ness from the implementation's own answers: following the reported `enc` links from every observed region
        reaches, without repetition, a region that reported global=1, and no region on the way did."""
        memo = {}
        for start in self.impl_parent:
            path, cur = [], start
            while cur not in memo:
                if self.impl_global.get(cur) == '1':
                    memo[cur] = cur
                    break
                path.append(cur)
                nxt = self.impl_parent.get(cur)
                if nxt is None or not nxt.startswith('r') or not nxt[1:].isdigit():
                    return 'region r%d reports enclosing `%s` and global=0: the outward walk does not reach a global region' % (cur, nxt)
                nxt = int(nxt[1:])
                if nxt >= cur:
                    return 'region r%d reports the later or same region r%d as enclosing: not well-founded' % (cur, nxt)
                if nxt not in self.impl_parent:
                    break                                          # never observed: nothing to say
                cur = nxt
            root = memo.get(cur)
            for x in path:
                memo[x] = root
            if root is not None and self.R[start]['root'] != root:
                return 'walking outward from r%d ends in r%d, not in the global region r%d of its unit' % (start, root, self.R[start]['root'])
        return None


def parse_impl(raw):
    """[(compared line, [assert lines])] per op; '@' lines follow the answer they belong to."""
    out, stats = [], []
    for ln in raw.splitlines():
        if ln.startswith('@'):
            if out:
                out[-1][1].append(ln)
        elif ln.startswith('#'):
            stats.append(ln)
        else:
            out.append((ln, []))
    return out, stats


def judge(ops, out_i, rc_i, err_i, out_m):
    """-> (kind, op index, message) or None.  kind: crash | statement | correspondence."""
    impl, _ = parse_impl(out_i)
    model_lines, _, _ = C.split_streams(out_m)
    orc = Oracle()
    for i, op in enumerate(ops):
        if i >= len(impl):
            return ('crash', i, 'c12probe stopped (exit %s) after %d of %d ops\n%s' % (rc_i, len(impl), len(ops), err_i[-3000:])), orc
        e = orc.step(op, impl[i][0], impl[i][1])
        if e:
            return ('statement', i, e), orc
    if rc_i != 0:
        return ('crash', len(ops) - 1, 'c12probe exited with %s\n%s' % (rc_i, err_i[-3000:])), orc
    e = orc.tree_check()
    if e:
        return ('statement', len(ops) - 1, e), orc
    # the diff is over what the statement constrains; fields it is silent about are masked on both sides (and counted)
    impl_lines = [l for l, _ in impl]
    mi = [orc.mask(op, l) for op, l in zip(ops, impl_lines)] + impl_lines[len(ops):]
    mm = [orc.mask(op, l) for op, l in zip(ops, model_lines)] + model_lines[len(ops):]
    orc.stats['unconstrained_differences'] = sum(1 for a, b, c, e in zip(impl_lines, model_lines, mi, mm) if a != b and c == e)
    d = C.first_diff(mi, mm)
    if d is not None:
        return ('correspondence', d, 'implementation and model disagree at op %d `%s`\n impl : %s\n model: %s\n'
                'the implementation trace satisfies every clause of C12 that the oracle evaluates, so the theorems no longer '
                'speak about this code' % (d, ops[d] if d < len(ops) else '<end>', impl_lines[d][:300] if d < len(impl_lines) else '<none>',
                                           model_lines[d][:300] if d < len(model_lines) else '<none>')), orc
    return None, orc


def run_both(probe, ops):
    text = '\n'.join(ops) + '\n'
    rc_i, out_i, err_i = C.run_exe(probe, [], text)
    rc_m, out_m, err_m = C.run_model('c12', text)
    if rc_m != 0:
        raise C.BuildError('model driver failed: ' + err_m[-2000:])
    return rc_i, out_i, err_i, out_m


def run(tier):
    res = C.Result(PID, tier)
    rng = random.Random(C.seed() * 7919 + 12)
    ok, info, detail = C.prove(res, PID)
    probe = C.build_harness('c12probe', 'asan')

    n_prog = 3
    verbs, matrix, labels_all, traces = {}, {}, {}, 0
    stats = {'max_depth': 0, 'max_walk': 0, 'walks': 0, 'checked_fields': 0, 'unconstrained_differences': 0}
    for k in range(n_prog):
        prog, world, labels = gen_program(tier, rng)
        ops = prog.render()
        rc_i, out_i, err_i, out_m = run_both(probe, ops)
        verdict, orc = judge(ops, out_i, rc_i, err_i, out_m)
        traces += 1
        for op in ops:
            v = op.split()[0]
            verbs[v] = verbs.get(v, 0) + 1
        for (pk, what), c in world.matrix.items():
            matrix['%s<-%s' % (pk, what)] = matrix.get('%s<-%s' % (pk, what), 0) + c
        for a, b in labels.items():
            labels_all[a] = labels_all.get(a, 0) + b
        for s in stats:
            stats[s] = max(stats[s], orc.stats.get(s, 0)) if s.startswith('max') else stats[s] + orc.stats.get(s, 0)
        if k == 0:
            res.sample({'first_ops': ops[:14], 'n_ops': len(ops)})
            impl, _ = parse_impl(out_i)
            j = next((i for i, o in enumerate(ops) if o.startswith('handler')), 0)
            res.sample({'op': ops[j], 'impl': impl[j][0] if j < len(impl) else None})
        if verdict:
            kind, i, msg = verdict
            # keep only what the failing operation depends on, if that still fails the same way
            keep = prog.slice_for(min(i, len(prog.ops) - 1))
            small = prog.render(keep)
            replay_ops = ops[:i + 1]
            if len(small) < len(replay_ops):
                rc2, out2, err2, outm2 = run_both(probe, small)
                v2, _ = judge(small, out2, rc2, err2, outm2)
                if v2 and v2[0] == kind:
                    replay_ops, msg = small, v2[2]
            if kind == 'correspondence':
                res.violation('correspondence:region-store', msg,
                              'correspondence: harness/c12probe.cxx vs lean/IprModel/Region.lean (theorems IprProps/C12.lean)\n'
                              + '\n'.join(replay_ops), found_input=False)
            else:
                res.violation(kind, msg, '\n'.join(replay_ops))
            break
    if not ok:
        res.proof_broken('IprProps.C12', detail)

    res.cov['traces_validated_against_impl'] = traces
    res.cov['ops_by_verb'] = dict(sorted(verbs.items()))
    res.cov['construct_by_enclosing_region_kind'] = dict(sorted(matrix.items()))
    res.cov['program_sections(cumulative op index)'] = labels_all
    res.cov['max_depth'] = stats['max_depth']
    res.cov['walks'] = stats['walks']
    res.cov['longest_walk'] = stats['max_walk']
    res.cov['statement_fields_checked_on_impl_trace'] = stats['checked_fields']
    res.cov['differences_in_fields_the_statement_does_not_constrain'] = stats['unconstrained_differences']
    if stats['unconstrained_differences']:
        C.log('[C12] note: %d observation lines differ from the model only in fields the statement does not constrain' % stats['unconstrained_differences'])
    res.cov['exhaustive'] = False
    res.assumptions += [
        'an owner is required only where the statement names one (class, union, enum, namespace, closure, block, mapping, lambda); '
        'for sub-regions, EH regions, requires / declarator parameter regions and Where regions the model mirrors the code (no owner) and a difference there is counted, not reported',
        'EH_parameter::home_region(), enclosing() of a global region, and name/type of entities other than a unit\'s global namespace are not constrained by the statement; the model mirrors the code and differences are counted, not reported',
        'destruction of the Lexicon is not exercised (the probe exits without running destructors)',
    ]
    return res.finish(info, rule='each trace is one program on one impl::Lexicon: 5+ units (translation, interface, implementation), '
                      'boundary cases, random nesting with parents chosen anywhere among the existing regions (siblings interleaved), '
                      'interleaved member lists, long member lists, chains of depth %d; every region / node / unit is observed at the end '
                      'and many in between; answers compared line by line with the model and field by field with the statement'
                      % (200 if tier == 'quick' else 20000))


def replay(path):
    """Re-run the op lines of a replay file on both sides and print what each answers."""
    ops = [l.strip() for l in open(path) if l.strip() and not l.startswith('#') and not l.startswith('correspondence:')
           and not l.startswith('theorem') and re.match(r'^[a-z_]+( |$)', l.strip())]
    C.lean_build(['model_c12'])
    probe = C.build_harness('c12probe', 'asan')
    rc_i, out_i, err_i, out_m = run_both(probe, ops)
    impl, _ = parse_impl(out_i)
    model_lines, _, _ = C.split_streams(out_m)
    for i, op in enumerate(ops):
        il = impl[i] if i < len(impl) else ('<none>', [])
        ml = model_lines[i] if i < len(model_lines) else '<none>'
        bad = [a for a in il[1] if not a.endswith('=1')]
        print('%-22s impl : %s %s\n%-22s model: %s' % (op, il[0], ' '.join(bad), '', ml))
    verdict, _ = judge(ops, out_i, rc_i, err_i, out_m)
    if verdict:
        print('VIOLATION property=C12 replay=%s' % path)
        print('%s at op %d: %s' % verdict)
        return 1
    print('replay: property holds on this input')
    return 0
