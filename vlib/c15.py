"""C15 — derived interface operations agree with the primitives they are defined from (DESIGN.md §4 C15)."""
import os, random, re
from . import common as C

PID = 'C15'
MANIFEST = dict(
    text='Theorems C15_* prove, for EVERY state of the node store (hence every history), that each convenience operation of '
         '<ipr/interface>/<ipr/ancillary>/<ipr/traversal>, written the way the header composes it, equals its definition from primitive '
         'accessors: Sequence empty/begin/end/position/iteration (forward and backward visit exactly size() members, the i-th being get(i)), '
         'size/indexing/begin/end of Product, Sum, Expr_list, Scope, Parameter_list, Udt::scope/members vs region, Block::body and '
         'try_block (true exactly when handlers were added, over all histories of additions), Template::parameters/result vs mapping, '
         'default_value vs initializer, lexical_region vs home_region, Base_type::name, Type::linkage vs transfer, the named operand '
         'aliases, type() forwards, Optional helpers; and that == on Logogram, Linkage, Calling_convention, Transfer, Basic_specifier, '
         'Basic_qualifier is an equivalence that holds exactly for equal spellings after every history of interning requests. The model '
         'is tied to the real headers by a probe that builds nodes of every relevant kind on a real impl::Lexicon (empty / singleton / '
         'many members, with / without handlers, defaults, mappings, non-natural transfers) and prints every derived operation next to '
         'its primitives, both evaluated on the same object, plus all pairs of >= 40 values per equality; the definition is checked on '
         'the implementation trace alone, then the trace is compared with the model.',
    note='Lean kernel; axioms propext/Classical.choice/Quot.sound; hand-written model tied by correspondence on generated scenarios; '
         'private members read with -fno-access-control; ASan/UBSan.',
    technique='Lean 4 theorems (all states / induction over histories) + differential correspondence with a statement-level oracle',
    ref='§4 C15')

KNOWN_WORDS = ['static', 'const', 'C', 'C++', 'int', 'volatile', 'extern', 'inline', 'virtual', 'restrict', 'export', 'this', 'typedef']


def hx(s):
    return s.encode().hex() if s else '-'


# ------------------------------------------------------------------------------------------------ specification tables
def lean_tables():
    """The alias / type-forward tables are written once, in the Lean model; the oracle reads them from there."""
    text = open(os.path.join(C.LEAN, 'IprModel', 'Derived.lean')).read()
    m = re.search(r'def aliasTable .*?:= \[(.*?)\]\n\n', text, re.S)
    alias = {}
    for k, body in re.findall(r'\("(\w+)", \[((?:\("\w+", "\w+"\)(?:, )?)+)\]\)', m.group(1)):
        alias[k] = re.findall(r'\("(\w+)", "(\w+)"\)', body)
    m = re.search(r'def typeForwardTable .*?:= \[(.*?)\]\n', text, re.S)
    fwd = dict(re.findall(r'\("(\w+)", "(\w+)"\)', m.group(1)))
    return alias, fwd


# ------------------------------------------------------------------------------------------------ generator
class Scenario:
    """One self-contained op list on a fresh Lexicon (starts with `reset`); mirrors the naming of both drivers."""

    def __init__(self, rng, consts, name):
        self.rng, self.consts, self.name = rng, consts, name
        self.ops, self.expect = [], []          # expect[i]: the exact answer both sides must give for a creation op, or None
        self.n, self.strs, self.logos, self.nv, self.nc = 0, {}, {}, 0, 0
        self.fresh = 0
        self.types, self.exprs, self.idents, self.lits = [], [], [], []
        self.pointed = set()
        self.products = set()
        self.families = set()
        self.emit('reset', 'ok')
        self.emit('init %s %s %s' % (hx(consts['cxx']), hx(consts['natural_cc']), hx(consts['c'])), 'ok')
        for w in (consts['cxx'], consts['natural_cc'], consts['c']):
            self.logo_of(self.intern(w))
        self.glob = self.nodes('global', 3)     # namespace, region, scope
        self.builtin = {}
        for w in ['int', 'bool', 'char', 'double', 'void', 'long']:
            t, _ = self.nodes('btype ' + w, 2)
            self.builtin[w] = t
            self.types.append(t)
        for _ in range(3):
            self.lit()
        for _ in range(3):
            self.named_pointer()

    # -- bookkeeping mirrored from the drivers
    def emit(self, op, expect=None):
        self.ops.append(op)
        self.expect.append(expect)
        return len(self.ops) - 1

    def nodes(self, op, count, extra=''):
        toks = ['n%d' % (self.n + i) for i in range(count)]
        self.n += count
        self.emit(op, ' '.join(toks) + extra)
        return toks

    def intern(self, w):
        if w not in self.strs:
            self.strs[w] = len(self.strs)
        return self.strs[w]

    def logo_of(self, s):
        if s not in self.logos:
            self.logos[s] = len(self.logos)
        return self.logos[s]

    def word(self, prefix='w'):
        self.fresh += 1
        return '%s%d_%d' % (prefix, self.fresh, self.rng.randrange(1000))

    # -- operand pools
    def ident(self, w=None):
        w = w or self.word('x')
        s = self.intern(w)
        (t,) = self.nodes('ident ' + hx(w), 1, ' s%d' % s)
        self.idents.append(t)
        return t

    def lit(self, ty=None):
        ty = ty or self.rng.choice(self.types[:6])
        w = self.word('l')
        s = self.intern(w)
        (t,) = self.nodes('lit %s %s' % (ty, hx(w)), 1, ' s%d' % s)
        self.lits.append(t)
        return t

    def phantom(self):
        return self.nodes('phantom', 1)[0]

    def string(self, w=None):
        w = self.word('s') if w is None else w
        s = self.intern(w)
        self.emit('str ' + hx(w), 's%d' % s)
        return 's%d' % s

    def fresh_type(self):
        """A type node nobody else has: Decltype nodes are not unified, every call makes a new one (it has no registered name)."""
        return self.nodes('mk Decltype ' + self.expr(), 1)

    def named_pointer(self):
        """A pointer to a fresh type, registered together with the Type_id that names it."""
        t, nm = self.nodes('ptr ' + self.fresh_type()[0], 2)
        self.types.append(t)
        return t, nm

    def product(self, tys, kind='product'):
        key = (kind, tuple(tys))
        if key in self.products:
            return None
        self.products.add(key)
        return self.nodes(kind + (' ' if tys else '') + ' '.join(tys), 1)[0]

    def fresh_product(self, size=None, kind='product'):
        size = self.rng.choice([1, 2, 3]) if size is None else size
        while True:
            tys = [self.fresh_type()[0] if i == 0 and size else self.rng.choice(self.types) for i in range(size)]
            p = self.product(tys, kind)
            if p:
                return p, tys

    def expr(self):
        r = self.rng.random()
        if r < 0.15 or not self.lits:
            return self.lit()
        return self.rng.choice(self.lits)

    # -- values
    def value(self, op, logos=(), suffix=True):
        v = 'v%d' % self.nv
        self.nv += 1
        self.emit(op, v + (''.join(' g%d' % g for g in logos) if suffix else ''))
        return v

    def link(self, w):
        g = self.logo_of(self.intern(w))
        return self.value('link ' + hx(w), [g])

    def cc(self, w):
        g = self.logo_of(self.intern(w))
        return self.value('cc ' + hx(w), [g])

    def logo(self, w):
        s = self.string(w)
        g = self.logo_of(int(s[1:]))
        self.emit('logo ' + s, 'g%d' % g)
        return 'g%d' % g

    def obs(self, tok):
        self.emit('obs ' + tok)

    def seq(self, tok, field):
        self.emit('seq %s %s' % (tok, field))


SIZES = [0, 1, 2, 5]


def decl_in(sc, region, rng, kinds=('var', 'field', 'bitfield', 'typedecl', 'alias')):
    k = rng.choice(kinds)
    # a name may be declared more than once in a scope (here: with another type, an overload): the scope then holds more declarations
    # than names
    prev = sc.__dict__.setdefault('declared', {}).setdefault(region, [])
    same_kind = [p for p in prev if p[0] == k]
    same_kind = [p for p in same_kind if k != 'alias']
    others = None
    if same_kind and rng.random() < 0.35:
        _, x, t0 = rng.choice(same_kind)
        taken = {p[2] for p in prev if p[1] == x}
        others = [u for u in sc.types if u not in taken]
    if others:
        t = rng.choice(others)                  # (the same name with another type: an overload, one more declaration under one name)
    else:
        x = sc.ident()
        t = sc.expr() if k == 'alias' else rng.choice(sc.types)
    prev.append((k, x, t))
    (d,) = sc.nodes('%s %s %s %s' % (k, region, x, t), 1)
    return k, d


def sc_udt(rng, consts, kind, nmembers, nextra, where):
    """A user-defined type observed after every addition of a member (Udt::scope, members, Scope::size/begin/end)."""
    sc = Scenario(rng, consts, '%s/%d' % (kind, nmembers))
    sc.families |= {'udt', 'scope', 'sequence', 'type-linkage'}
    parent = sc.glob[1]
    if where == 'sub':
        parent = sc.nodes('subregion ' + parent, 2)[0]
    elif where == 'class':
        parent = sc.nodes('class ' + parent, 3)[1]
    # a sibling with other members: a forward to the wrong region shows
    sib = sc.nodes('namespace ' + parent, 3)
    for _ in range(rng.choice([1, 3])):
        decl_in(sc, sib[1], rng)
    u, r, s = sc.nodes(kind + ' ' + parent + (' #%d' % rng.randrange(2) if kind == 'enum' else ''), 3)
    for _ in range(rng.choice([0, 2])):
        decl_in(sc, parent, rng)
    sc.obs(u); sc.obs(s); sc.seq(s, 'elements'); sc.seq(r, 'body')
    decls = []
    for i in range(nmembers):
        if kind == 'enum':
            (d,) = sc.nodes('enumerator %s %s' % (u, sc.ident()), 1)
            if rng.random() < 0.5:
                sc.emit('setinit %s %s' % (d, sc.expr()), 'ok')
        else:
            k, d = decl_in(sc, r, rng)
            decls.append((k, d))
        if i < 2 or rng.random() < 0.4:
            sc.obs(u); sc.obs(s)
    if kind == 'class':
        for i in range(nextra):
            sc.obs(sc.nodes('base %s %s' % (u, rng.choice(sc.types)), 1)[0])     # Base_type::name() := type().name()
            sc.families.add('base-type')
        sc.seq(u, 'bases')
    if kind == 'closure':
        outer = [decl_in(sc, parent, rng, ('var',))[1] for _ in range(max(nextra, 1))]
        for i in range(nextra):
            sc.emit('capture %s %s #%d' % (u, outer[i], rng.randrange(2)), 'c%d' % sc.nc)
            sc.nc += 1
        sc.seq(u, 'members')
    if kind == 'enum':
        sc.seq(u, 'members')
    sc.obs(u); sc.obs(s); sc.seq(s, 'elements'); sc.seq(r, 'body'); sc.obs(sib[0]); sc.obs(sib[2])
    # declarations: lexical_region := home_region for alias / field / bitfield, with and without a home
    for k, d in decls:
        sc.families.add('decl')
        sc.obs(d)
        if rng.random() < 0.7:
            sc.emit('sethome %s %s' % (d, rng.choice([r, parent, sib[1]])), 'ok')
            sc.obs(d)
        if k in ('var', 'field', 'bitfield') and rng.random() < 0.5:
            sc.emit('setinit %s %s' % (d, sc.expr()), 'ok')
            sc.obs(d)
    return sc


def sc_block(rng, consts, nstmts, nhandlers):
    sc = Scenario(rng, consts, 'block/%d/%d' % (nstmts, nhandlers))
    sc.families |= {'block', 'sequence', 'eh-parameter'}
    parent = sc.glob[1] if rng.random() < 0.5 else sc.nodes('subregion ' + sc.glob[1], 2)[0]
    other = sc.nodes('block ' + parent, 3)
    sc.emit('stmt %s %s' % (other[0], sc.lit()), 'ok')
    sc.nodes('handler %s %s %s' % (other[0], sc.ident(), rng.choice(sc.types)), 5)
    b, r, s = sc.nodes('block ' + parent, 3)
    sc.obs(b); sc.seq(b, 'handlers'); sc.seq(r, 'body')
    todo = ['s'] * nstmts + ['h'] * nhandlers
    rng.shuffle(todo)
    handlers = []
    for t in todo:
        if t == 's':
            sc.emit('stmt %s %s' % (b, sc.expr()), 'ok')
        else:
            handlers.append(sc.nodes('handler %s %s %s' % (b, sc.ident(), rng.choice(sc.types)), 5))
        sc.obs(b)
    if rng.random() < 0.5:
        decl_in(sc, r, rng, ('var', 'typedecl'))
    sc.obs(b); sc.obs(s); sc.seq(b, 'handlers'); sc.seq(r, 'body'); sc.obs(other[0])
    for h in handlers:
        hb = h[2]
        sc.obs(hb); sc.obs(h[1])
        for _ in range(rng.choice([0, 1, 3])):
            sc.emit('stmt %s %s' % (hb, sc.expr()), 'ok')
        sc.obs(hb); sc.seq(hb, 'handlers'); sc.seq(h[3], 'body')
    return sc


def sc_mapping(rng, consts, nparams, op):
    """Parameter lists, parameters with / without default, templates and function declarations with / without mapping."""
    sc = Scenario(rng, consts, '%s/%d' % (op, nparams))
    sc.families |= {'parameter-list', 'parameter', 'template', 'sequence', 'product'}
    region = sc.glob[1]
    other = sc.nodes('mapping %s #%d' % (region, 3), 4)
    sc.nodes('param %s %s %s' % (other[0], sc.ident(), rng.choice(sc.types)), 1)
    sc.emit('setresult %s %s' % (other[0], sc.lit()), 'ok')
    m, pl, pr, ps = sc.nodes('%s %s #%d' % (op, region, rng.randrange(4)), 4)
    sc.obs(pl); sc.obs(ps); sc.seq(pl, 'elements'); sc.seq(pr, 'body')
    params = []
    for i in range(nparams):
        (p,) = sc.nodes('param %s %s %s' % (m, sc.ident(), rng.choice(sc.types)), 1)
        params.append(p)
        sc.obs(pl); sc.obs(p)
        if rng.random() < 0.6:
            # the default argument may be any expression node, a phantom (typed by nothing) included
            init = sc.expr() if rng.random() < 0.7 else sc.nodes('phantom', 1)[0]
            sc.emit('setinit %s %s' % (p, init), 'ok')
            sc.obs(p)
            if rng.random() < 0.3:
                sc.emit('setinit %s -' % p, 'ok')
                sc.obs(p)
    sc.obs(pl); sc.obs(ps); sc.seq(pl, 'elements'); sc.seq(ps, 'elements'); sc.seq(pr, 'body')
    for p in params[:2]:
        sc.seq(p, 'decl_set')
    (pt,) = sc.nodes('plist_type ' + pl, 1)
    sc.obs(pt); sc.seq(pt, 'operand')
    if op == 'mapping':
        prod, _ = sc.fresh_product()
        (fa,) = sc.nodes('mk Forall %s %s' % (prod, rng.choice(sc.types)), 1)
        (t,) = sc.nodes('template %s %s %s' % (region, sc.ident(), fa), 1)
        sc.obs(t)                                              # no mapping yet: everything throws
        sc.emit('settmap %s %s' % (t, m), 'ok')
        sc.obs(t)                                              # mapping without result
        # the result of a mapping may be any expression -- another Mapping (a curried template: member template of a class template), a
        # Lambda, the mapping's own parameter list included: result() is that node, whatever it is
        inner = sc.nodes('mapping %s #%d' % (region, 1 + rng.randrange(3)), 4)
        sc.emit('setresult %s %s' % (inner[0], sc.lit()), 'ok')
        lam = sc.nodes('lambda %s #%d' % (region, rng.randrange(3)), 4)
        results = [sc.expr(), inner[0], lam[0], other[0], inner[1]]
        sc.emit('setresult %s %s' % (m, results[sc.fresh % len(results)]), 'ok')
        sc.obs(t)
        for r in rng.sample(results, 2):
            sc.emit('setresult %s %s' % (m, r), 'ok')
            sc.obs(t)
        if rng.random() < 0.5:
            sc.emit('settmap %s %s' % (t, other[0]), 'ok')
            sc.obs(t)
        sc.emit('sethome %s %s' % (t, region), 'ok')
        sc.obs(t)
        # a REDECLARATION of the primary template (same name, same type) and a secondary template, each with a mapping of its own:
        # parameters() / result() are those of the node's own mapping
        tname = sc.ident()
        same = []
        for top in ('template', 'template', 'template2'):
            (t2,) = sc.nodes('%s %s %s %s' % (top, region, tname, fa), 1)
            same.append(t2)
            m2 = sc.nodes('mapping %s #%d' % (region, rng.randrange(4)), 4)[0]
            for _ in range(rng.randint(0, 3)):
                sc.nodes('param %s %s %s' % (m2, sc.ident(), rng.choice(sc.types)), 1)
            sc.obs(t2)
            sc.emit('settmap %s %s' % (t2, m2), 'ok')
            sc.obs(t2)
            sc.emit('setresult %s %s' % (m2, rng.choice(results)), 'ok')
            sc.obs(t2)
        # one of the declarations is recorded as THE definition of the set (shared by all of them): every declaration still answers
        # with its own mapping's parameters and result
        for d in (same[1], same[0], same[2]):
            sc.emit('setdef %s %s' % (same[0], d), 'ok')
            for t2 in same:
                sc.obs(t2)
        (ft,) = sc.nodes('mk Function %s %s %s' % (prod, rng.choice(sc.types), sc.lit()), 1)
        (f,) = sc.nodes('fundecl %s %s %s' % (region, sc.ident(), ft), 1)
        sc.obs(f)
        sc.emit('setfmap %s %s' % (f, rng.choice([m, other[0]])), 'ok')
        sc.obs(f)
        sc.families.add('fundecl')
    return sc


def sc_products(rng, consts, size):
    sc = Scenario(rng, consts, 'product/%d' % size)
    sc.families |= {'product', 'sum', 'expr-list', 'sequence', 'type-linkage', 'optional', 'traversal'}
    for kind in ('product', 'sum'):
        tys = [sc.fresh_type()[0] if i % 2 else rng.choice(sc.types) for i in range(size)]
        p = sc.product(tys, kind)
        sc.obs(p); sc.seq(p, 'operand')
    (xl,) = sc.nodes('xlist', 1)
    sc.obs(xl)
    for i in range(size):
        sc.emit('xpush %s %s' % (xl, sc.expr()), 'ok')
        sc.obs(xl)
    sc.seq(xl, 'operand')
    for t in rng.sample(sc.types, min(3, len(sc.types))):
        sc.emit('opt ' + t)
        sc.obs(t)
    sc.emit('opt -')
    a, b = rng.sample(sc.types, 2)
    sc.emit('same %s %s' % (a, b)); sc.emit('same %s %s' % (a, a))
    return sc


def transfers(sc, rng):
    consts = sc.consts
    links = [sc.value('const cxx_linkage ' + hx(consts['cxx'])), sc.link('C'), sc.link('Java'), sc.link(sc.word('L')), sc.link('C++')]
    ccs = [sc.value('const natural_cc ' + hx(consts['natural_cc'])), sc.cc('stdcall'), sc.cc(sc.word('cc')), sc.cc('')]
    out = []
    for l in links:
        for c in ccs:
            out.append(sc.value('xfer %s %s' % (l, c)))
    return out


MK_ARGS = {
    # kind: operand sorts in primitive order, then extras.  E expression, T type, FT fresh type, S fresh string, I fresh identifier,
    # N name, PR fresh product, SM fresh sum, XL fresh expression list, Q qualifiers, OE/OS/OXL optional, EN enclosure, CN construction,
    # BK block, TD template, V transfer, R region, D delimiter, PH phases, LIT literal
    'Identifier': 'S', 'Suffix': 'I', 'Operator': 'S', 'Conversion': 'FT', 'Ctor_name': 'FT', 'Dtor_name': 'FT', 'Guide_name': 'TD',
    'Template_id': 'E XL', 'Comment': 'S', 'Annotation': 'S LIT', 'Array': 'FT E', 'As_type': 'NE', 'As_type_x': 'NE V', 'Decltype': 'E',
    'Tor': 'PR SM', 'Function': 'PR T NE', 'Function_x': 'PR T NE V', 'Pointer': 'UT', 'Ptr_to_member': 'FT T', 'Qualified': 'Q FT',
    'Reference': 'FT', 'Rvalue_reference': 'FT', 'Forall': 'PR T', 'Symbol': 'I T', 'Array_delete': 'E', 'Delete': 'E', 'Throw': 'E',
    'Asm': 'S', 'Enclosure': 'E D', 'Id_expr': 'N', 'Label': 'I', 'Construction': 'EN T', 'Pragma': '', 'Expr_stmt': 'TE', 'Goto': 'TE',
    'Return': 'E', 'Rewrite': 'E TE', 'Array_ref': 'E E', 'Arrow': 'E E', 'Arrow_star': 'E E', 'Dot': 'E E', 'Dot_star': 'E E',
    'Cast': 'T E', 'Const_cast': 'T E', 'Dynamic_cast': 'T E', 'Reinterpret_cast': 'T E', 'Static_cast': 'T E', 'Scope_ref': 'E E',
    'Call': 'E XL', 'Coercion': 'E T T', 'Member_init': 'E E', 'Narrow': 'E T T', 'Pretend': 'E T T', 'Widen': 'E T T',
    'Qualification': 'E Q T', 'Where': 'TE E', 'Where_decl': 'TE R', 'Static_assert': 'E OS', 'New': 'OXL CN', 'Labeled_stmt': 'E TE',
    'Ctor_body': 'XL BK', 'Switch': 'E E', 'While': 'E E', 'Do': 'E E', 'Conditional': 'E E E', 'If': 'E E OE',
    'Instantiation': 'E', 'Phased_evaluation': 'TE PH',
    # <ipr/attribute>: K token, AT attribute, ATS a sequence of attributes
    'BasicAttribute': 'K', 'ScopedAttribute': 'K K', 'LabeledAttribute': 'K AT', 'CalledAttribute': 'AT ATS', 'ExpandedAttribute': 'K AT',
    'FactoredAttribute': 'K ATS', 'ElaboratedAttribute': 'E',
}
MK_COUNT = {'Where_decl': 2}


def mk_arg(sc, rng, sort, st):
    if sort == 'E':
        return sc.expr()
    if sort == 'NE':                      # an expression nobody used as operand of a unified node
        return sc.lit()
    if sort == 'TE':                      # an operand whose type() the result forwards to: a literal or an untyped phantom
        return sc.phantom() if rng.random() < 0.25 else sc.expr()
    if sort == 'T':
        return rng.choice(sc.types)
    if sort == 'FT':
        return sc.fresh_type()[0]
    if sort == 'UT':                      # a type that was never pointed to
        return sc.fresh_type()[0]
    if sort == 'S':
        return sc.string()
    if sort == 'I':
        return sc.ident()
    if sort == 'N':
        return rng.choice(sc.idents) if sc.idents and rng.random() < 0.5 else sc.ident()
    if sort == 'PR':
        return sc.fresh_product()[0]
    if sort == 'SM':
        return sc.fresh_product(kind='sum')[0]
    if sort == 'XL':
        (xl,) = sc.nodes('xlist', 1)
        for _ in range(rng.randrange(3)):
            sc.emit('xpush %s %s' % (xl, sc.expr()), 'ok')
        return xl
    if sort == 'Q':
        return '#%d' % rng.choice([1, 2, 3, 4, 5, 6, 7])
    if sort == 'D':
        return '#%d' % rng.randrange(5)
    if sort == 'PH':
        return '#%d' % rng.choice([0, 1, 64, 256, 240])
    if sort == 'OE':
        return '-' if rng.random() < 0.4 else sc.expr()
    if sort == 'OS':
        return '-' if rng.random() < 0.4 else sc.string()
    if sort == 'OXL':
        return '-' if rng.random() < 0.4 else mk_arg(sc, rng, 'XL', st)
    if sort == 'EN':
        return sc.nodes('mk Enclosure %s #%d' % (sc.expr(), rng.randrange(5)), 1)[0]
    if sort == 'CN':
        return sc.nodes('mk Construction %s %s' % (mk_arg(sc, rng, 'EN', st), rng.choice(sc.types)), 1)[0]
    if sort == 'BK':
        return sc.nodes('block ' + sc.glob[1], 3)[0]
    if sort == 'R':
        return sc.glob[1]
    if sort == 'LIT':
        return sc.lit()
    if sort == 'TD':
        prod, _ = sc.fresh_product()
        (fa,) = sc.nodes('mk Forall %s %s' % (prod, rng.choice(sc.types)), 1)
        return sc.nodes('template %s %s %s' % (sc.glob[1], sc.ident(), fa), 1)[0]
    if sort == 'K':
        return sc.nodes('token ' + sc.string(), 1)[0]
    if sort == 'AT':
        return sc.nodes('mk BasicAttribute ' + mk_arg(sc, rng, 'K', st), 1)[0]
    if sort == 'ATS':
        return ' '.join(mk_arg(sc, rng, 'AT', st) for _ in range(rng.choice([0, 1, 3])))
    if sort == 'V':
        if 'xfers' not in st:
            st['xfers'] = transfers(sc, rng)
        return rng.choice(st['xfers'])
    raise ValueError(sort)


def sc_mk(rng, consts, kinds, reps):
    """Named aliases of operand()/first()/second()/third(), type() forwards, Type::linkage on non-natural transfers."""
    sc = Scenario(rng, consts, 'mk/' + kinds[0])
    sc.families |= {'alias', 'type-forward', 'type-linkage'}
    st = {}
    for _ in range(4):
        sc.lit()
    for kind in kinds:
        for _ in range(reps):
            args = [mk_arg(sc, rng, s, st) for s in MK_ARGS[kind].split()]
            toks = sc.nodes(('mk %s %s' % (kind, ' '.join(args))).strip(), MK_COUNT.get(kind, 1))
            sc.obs(toks[0])
            if kind == 'Instantiation':
                sc.emit('setinstance %s %s' % (toks[0], mk_arg(sc, rng, 'TE', st)), 'ok')
                sc.obs(toks[0])
                sc.emit('setinstance %s -' % toks[0], 'ok')
                sc.obs(toks[0])
            if kind == 'Where_decl':
                sc.obs(toks[1])
            if kind == 'Pragma':
                sc.seq(toks[0], 'operand')
            if kind in ('CalledAttribute', 'FactoredAttribute'):
                sc.seq(toks[0], 'second')
            if kind == 'Scope_ref':
                sc.emit('desig %s #%d' % (toks[0], rng.randrange(3)))
    for t in sc.lits[:3] + sc.idents[:2]:
        sc.obs(t)
    for t in sc.types[6:9]:
        sc.obs(t)
        sc.obs('n%d' % (int(t[1:]) + 1))                      # the Type_id that names a pointer type
    return sc


def sc_equalities(rng, consts, nwords):
    """All pairs of >= 40 strings, logograms, linkages, conventions, transfers, basic specifiers and qualifiers of one Lexicon
    (process-wide constants included)."""
    sc = Scenario(rng, consts, 'equalities/%d' % nwords)
    sc.families |= {'equality', 'string', 'logogram', 'value-accessors'}
    words = list(KNOWN_WORDS) + [''] + list(consts['specifiers'][:6]) + list(consts['qualifiers'])
    # spellings that only a full comparison of length AND bytes tells apart: equal up to an embedded NUL, a word and the word followed
    # by NUL, a word and its extension, words that differ in the last byte only
    words += ['vec\x00a', 'vec\x00b', 'vec\x00', 'vec', '\x00a', '\x00b', '\x00', 'Java', 'JavaScript', 'abcdefgh', 'abcdefgi',
              'abcdefghijklmnop', 'abcdefghijklmnoq']
    # spellings whose bytes are not ASCII (multi-byte encodings: a size is a number of code units), and spellings that differ only by
    # decoration, case or blanks (`stdcall`, `__stdcall`, `__stdcall__`...): different spellings all the same
    words += ['caf\u00e9', 'cafe', '\u03c0', '\u00fcber', 'uber', '\u65e5\u672c', '\u65e5', 'na\u00efve\u2026', '\U0001f600',
              'stdcall', '_stdcall', '__stdcall', '__stdcall__', 'stdcall_', '_', '__', 'Stdcall', 'STDCALL', 'stdcall ', ' stdcall', 'std call']
    words = sorted(set(words))
    while len(words) < nwords:
        words.append(sc.word(rng.choice(['a', 'bb', 'Ccc'])))
    words += rng.sample(words, 6)                            # asked twice: the same objects must come back
    rng.shuffle(words)
    strs, logos = [], []
    for w in words:
        strs.append(sc.string(w))
    for w in words:
        logos.append(sc.logo(w))
    for s in sorted(set(strs)):
        sc.emit('sobs ' + s)
    for g in rng.sample(sorted(set(logos)), 8):
        sc.emit('gobs ' + g)
    links = [sc.value('const %s %s' % (k, hx(consts['cxx' if 'cxx' in k else 'c'])))
             for k in ('cxx_linkage', 'c_linkage', 'impl_cxx_linkage', 'impl_c_linkage')]
    ccs = [sc.value('const natural_cc ' + hx(consts['natural_cc']))]
    bspecs = [sc.value('stdspec #%d %s' % (i, hx(w)), [sc.logo_of(sc.intern(w))]) for i, w in enumerate(consts['specifiers'])]
    bquals = [sc.value('stdqual #%d %s' % (i, hx(w)), [sc.logo_of(sc.intern(w))]) for i, w in enumerate(consts['qualifiers'])]
    for w, g in zip(words, logos):
        r = rng.random()
        links.append(sc.link(w) if r < 0.5 else sc.value('linkv ' + g, [int(g[1:])]) if r < 0.8 else
                     sc.value('links s%d' % sc.strs[w], [int(g[1:])]))
        ccs.append(sc.cc(w) if rng.random() < 0.5 else sc.value('ccv ' + g, [int(g[1:])]))
        bspecs.append(sc.value('bspec ' + g, suffix=False))
        bquals.append(sc.value('bqual ' + g, suffix=False))
    xf = [sc.value('const cxx_transfer %s %s' % (hx(consts['cxx']), hx(consts['natural_cc'])), suffix=False)]
    ls, cs = rng.sample(links, 7), rng.sample(ccs, 6)
    if links[0] not in ls:
        ls[0] = links[0]
    if ccs[0] not in cs:
        cs[0] = ccs[0]
    for l in ls:
        for c in cs:
            xf.append(sc.value('xfer %s %s' % (l, c), suffix=False))
    xf += [sc.value('xfer %s %s' % (rng.choice(ls), rng.choice(cs)), suffix=False) for _ in range(4)]
    for fam in (links, ccs, xf, bspecs, bquals):
        for v in rng.sample(fam, 5):
            sc.emit('vobs ' + v)
    sc.counts = {}
    for name, fam in (('String', sorted(set(strs))), ('Logogram', sorted(set(logos))), ('Linkage', links), ('Calling_convention', ccs),
                      ('Transfer', xf), ('Basic_specifier', bspecs), ('Basic_qualifier', bquals)):
        sc.counts[name] = len(fam)
        for a in fam:
            sc.emit('eqrow %s %s' % (a, ' '.join(fam)))
    return sc


def sc_long_spellings(rng, consts, nwords, size):
    """Equality exactly for equal spellings, for spellings that are LONG: `nwords` different linkages / conventions of about `size` bytes
    each -- together more than the Lexicon's string storage sets aside at a time, so the storage is extended while they are made --
    each compared with its neighbours in order of creation (and itself, asked for again at the end), each read back afterwards."""
    sc = Scenario(rng, consts, 'equalities/long-spellings/%dx%d' % (nwords, size))
    sc.families |= {'equality', 'string', 'logogram', 'value-accessors'}
    words, seen = [], set()
    while len(words) < nwords:
        unit = sc.word('L')
        w = (unit * (size // len(unit) + 1))[:size + rng.randrange(-40, 40)]
        if w not in seen:
            seen.add(w); words.append(w)
    links, ccs = [], []
    for i, w in enumerate(words):
        links.append(sc.link(w))
        if i % 3 == 0: ccs.append(sc.cc(w))
    again = [sc.link(w) for w in words[-8:]] + [sc.link(words[k]) for k in range(0, nwords, max(1, nwords // 16))]
    for fam in (links, ccs):
        for i, a in enumerate(fam):
            sc.emit('eqrow %s %s' % (a, ' '.join(fam[max(0, i - 2):i + 3])))
        for v in fam:
            sc.emit('vobs ' + v)
    for w in words:                       # what each spelling reads now that all of them have been made
        sc.emit('sobs s%d' % sc.strs[w])
    small = again + [sc.link(w) for w in rng.sample(words, 8)]        # (new value tokens: one row per token)
    for a in small:
        sc.emit('eqrow %s %s' % (a, ' '.join(small)))
    sc.counts = {'Linkage': len(links) + len(again), 'Calling_convention': len(ccs)}
    return sc


def scenarios(tier, rng, consts):
    out = []
    reps = 4 if tier == 'quick' else 25
    sizes = SIZES if tier == 'quick' else SIZES + [17, 40]
    for _ in range(reps):
        for kind in ('class', 'union', 'namespace', 'closure', 'enum'):
            for n in sizes:
                out.append(sc_udt(rng, consts, kind, n if tier == 'quick' else n + rng.randrange(3) * (n > 1),
                                  rng.choice([0, 1, 3]) if n else 0, rng.choice(['global', 'sub', 'class'])))
        for ns in SIZES[:3] + [4]:
            for nh in SIZES[:3] + [3]:
                out.append(sc_block(rng, consts, ns, nh))
        for n in sizes:
            out.append(sc_mapping(rng, consts, n, 'mapping'))
            out.append(sc_mapping(rng, consts, n, 'lambda'))
        for n in sizes + [9]:
            out.append(sc_products(rng, consts, n))
    if tier == 'thorough':
        for ns, nh in ((30, 12), (0, 25), (25, 0)):
            out.append(sc_block(rng, consts, ns, nh))
    kinds = sorted(MK_ARGS)
    rng.shuffle(kinds)
    chunk = 8
    for i in range(0, len(kinds), chunk):
        out.append(sc_mk(rng, consts, kinds[i:i + chunk], 3 if tier == 'quick' else 12))
    out.append(sc_equalities(rng, consts, 42 if tier == 'quick' else 70))
    out.append(sc_long_spellings(rng, consts, 300 if tier == 'quick' else 900, 4000))
    if tier == 'thorough':
        out.append(sc_equalities(rng, consts, 45))
    return out


# ------------------------------------------------------------------------------------------------ oracle
def parse_fields(line):
    w = line.split(' ')
    head = [x for x in w if '=' not in x]
    f = {}
    for x in w:
        if '=' in x:
            k, v = x.split('=', 1)
            f[k] = v
    return head, f


def seq_parts(v):
    """'n5.elements[a,b]' -> ('n5.elements', ['a','b'])"""
    m = re.match(r'^([^\[]*)\[(.*)\]$', v)
    if not m:
        return None, None
    return m.group(1), ([] if m.group(2) == '' else m.group(2).split(','))


class Oracle:
    def __init__(self):
        self.alias, self.fwd = lean_tables()
        self.matrix = {}                 # (scenario id, family, a) -> (row of eq, members)
        self.covered = {}

    def hit(self, what):
        self.covered[what] = self.covered.get(what, 0) + 1

    def same(self, f, d, p, errs, kind):
        if d not in f or p not in f:
            errs.append('%s: field %s or %s missing from the observation' % (kind, d, p))
        elif f[d] != f[p]:
            errs.append('%s: derived %s() = %s but its definition %s = %s' % (kind, d, f[d], p, f[p]))
        self.hit('%s::%s' % (kind, d))

    def obs(self, line):
        head, f = parse_fields(line)
        errs = []
        if len(head) < 2:
            return ['malformed observation: ' + line]
        kind = head[1]
        S = lambda d, p: self.same(f, d, p, errs, kind)
        if 'linkage' in f:
            S('linkage', 'transfer.linkage'); S('transfer.linkage', 'transfer.first'); S('transfer.convention', 'transfer.second')
            if f['transfer'] != 'X(%s,%s)' % (f['transfer.first'][2:-1], f['transfer.second'][2:-1]):
                errs.append('%s: transfer %s is not the pair of its components %s %s' % (kind, f['transfer'], f['transfer.first'], f['transfer.second']))
        if 'denote_builtin' in f:
            S('denote_builtin', 'expr_is_self')
        if kind in ('Namespace', 'Class', 'Union'):
            S('scope', 'region.bindings'); S('members', 'scope.elements'); S('members', 'region.bindings.elements')
        elif kind in ('Enum', 'Closure'):
            S('scope', 'region.bindings')
        elif kind in ('Scope', 'Parameter_list'):
            name, el = seq_parts(f['elements'])
            S('size', 'elements.size'); S('begin', 'elements.begin'); S('end', 'elements.end')
            if f['elements.size'] != '#%d' % len(el):
                errs.append('%s: elements().size() %s but %d members' % (kind, f['elements.size'], len(el)))
            if f['iter'] != '[%s]' % ','.join(el):
                errs.append('%s: begin()..end() visits %s, elements() is %s' % (kind, f['iter'], f['elements']))
            if f['elements.begin'] != name + '@0' or f['elements.end'] != '%s@%d' % (name, len(el)):
                errs.append('%s: elements().begin()/end() are %s %s' % (kind, f['elements.begin'], f['elements.end']))
            self.hit(kind + '::iteration')
        elif kind == 'Block':
            S('body', 'region.body')
            _, hs = seq_parts(f['handlers'])
            if f['handlers.size'] != '#%d' % len(hs):
                errs.append('Block: handlers().size() %s but %d handlers' % (f['handlers.size'], len(hs)))
            want = '#1' if hs else '#0'
            if f['try_block'] != want:
                errs.append('Block: try_block() = %s with handlers() = %s (must be true exactly when there are handlers)' % (f['try_block'], f['handlers']))
            self.hit('Block::try_block')
        elif kind in ('Field', 'Bitfield', 'Alias'):
            S('lexical_region', 'home_region')
        elif kind == 'Parameter':
            S('default_value', 'initializer'); S('lexical_region', 'home_region')
        elif kind == 'Template':
            S('parameters', 'mapping.parameters'); S('result', 'mapping.result'); S('initializer', 'mapping.result')
        elif kind == 'Fundecl':
            if f['mapping'] == '-':
                if f['initializer'] != '-':
                    errs.append('Fundecl: initializer() = %s without a mapping' % f['initializer'])
            else:
                S('parameters', 'mapping.parameters'); S('initializer', 'mapping')
        elif kind == 'Base_type':
            S('name', 'type.name')
        elif kind == 'EH_parameter':
            if f['initializer'] != '-':
                errs.append('EH_parameter: initializer() = %s, must be empty' % f['initializer'])
            self.hit('EH_parameter::initializer')
        elif kind in ('Product', 'Sum'):
            S('elements', 'operand'); S('size', 'operand.size'); S('index', 'operand.get')
            _, el = seq_parts(f['operand'])
            if f['operand.size'] != '#%d' % len(el) or f['operand.get'] != '[%s]' % ','.join(el + ['!L']):
                errs.append('%s: operand() primitives disagree: %s size %s get %s' % (kind, f['operand'], f['operand.size'], f['operand.get']))
        elif kind == 'Expr_list':
            S('elements', 'operand'); S('size', 'operand.size')
        elif kind == 'Instantiation':
            S('type', 'instance.type')
        elif kind == 'Phased_evaluation':
            S('type', 'expression.type')
        if kind in self.alias and ('operand' in f or 'first' in f):
            for a, p in self.alias[kind]:
                S(a, p)
        if kind in self.fwd and kind not in ('Instantiation', 'Phased_evaluation'):
            S('type', self.fwd[kind] + '.type')
        return errs

    def seq(self, line):
        head, f = parse_fields(line)
        errs = []
        name = head[0] if head else '?'
        n = int(f['size'][1:])
        _, got = seq_parts(f['get'])
        def want(field, value, what):
            if f.get(field) != value:
                errs.append('Sequence %s: %s = %s, but %s requires %s' % (name, field, f.get(field), what, value))
            self.hit('Sequence::' + field)
        lst = '[%s]' % ','.join(got)
        rev = '[%s]' % ','.join(reversed(got))
        if len(got) != n:
            errs.append('Sequence %s: size() %d but get() gave %d members' % (name, n, len(got)))
        want('empty', '#1' if n == 0 else '#0', 'size() = %d' % n)
        want('begin', '%s@0' % name, 'begin() = position(0)')
        want('end', '%s@%d' % (name, n), 'end() = position(size())')
        want('position', '[%s]' % ','.join('%s@%d' % (name, i) for i in range(n + 2)), 'position(i) = (this, i)')
        want('at', lst, '*position(i) = get(i)')
        want('iter', lst, 'begin()..end() visits get(0..size-1)')
        want('arrow', lst, 'operator-> = &get(index)')
        want('postinc', lst, 'it++ visits get(0..size-1)')
        want('riter', rev, 'end()..begin() visits get(size-1..0)')
        want('postdec', rev, 'it-- visits get(size-1..0)')
        e = '#1#1' + ('#1' if n == 0 else '#0') + '#0#0#1'
        want('eq', e, 'iterator equality = same sequence and same index')
        want('ne', e.replace('1', 'x').replace('0', '1').replace('x', '0'), 'iterator != is the negation of ==')
        return errs

    def misc(self, op, line):
        w = op.split()
        head, f = parse_fields(line)
        errs = []
        def want(field, value, what):
            if f.get(field) != value:
                errs.append('%s: %s = %s, but %s requires %s' % (w[0], field, f.get(field), what, value))
            self.hit('%s::%s' % (w[0], field))
        if w[0] == 'opt':
            p = f['ptr']
            want('is_valid', '#0' if p == '-' else '#1', 'ptr ' + p); want('bool', f['is_valid'], 'is_valid()')
            want('get', '!L' if p == '-' else p, 'ptr ' + p)
            want('conv.ptr', p, 'conversion keeps the pointer'); want('conv.is_valid', f['is_valid'], 'is_valid()'); want('conv.get', f['get'], 'get()')
            want('byref.ptr', p, 'Optional(const T&) stores the address'); want('default.ptr', '-', 'Optional() is empty')
        elif w[0] == 'same':
            want('physically_same', f['address_equal'], 'address equality')
            if (w[1] == w[2]) != (f['address_equal'] == '#1'):
                errs.append('same: two names for one node or one name for two')
        elif w[0] == 'sobs':
            want('size', f['characters.size'], 'characters().size()'); want('range', f['characters'], 'characters()')
            want('begin', '#1', 'characters().begin()'); want('end', '#1', 'characters().end()')
            if f['characters.size'] != '#%d' % ((len(f['characters']) - 1) // 2):
                errs.append('sobs: characters().size() inconsistent')
        elif w[0] == 'gobs':
            want('what', f['operand'], 'operand()')
        elif w[0] == 'desig':
            want('path', f['sr'], 'the stored Scope_ref'); want('mode', f['md'], 'the stored mode')
        elif w[0] == 'vobs':
            k = f['kind']
            if k == 'Linkage': want('language', f['lang'], 'the stored logogram')
            elif k == 'Calling_convention': want('name', f['conv'], 'the stored logogram')
            elif k == 'Transfer': want('linkage', f['first'], 'first()'); want('convention', f['second'], 'second()')
            elif k == 'Basic_specifier': want('logogram', f['spec'], 'the stored logogram')
            elif k == 'Basic_qualifier': want('logogram', f['qual'], 'the stored logogram')
            self.hit('value::' + k)
        return errs

    def eqrow(self, sid, op, line):
        w = op.split()
        _, f = parse_fields(line)
        errs = []
        a, others = w[1], w[2:]
        for k in ('eq', 'ne', 'prim', 'spell'):
            if len(f.get(k, '')) != len(others):
                return ['eqrow: malformed answer ' + line]
        for j, b in enumerate(others):
            e, n, p, s = f['eq'][j], f['ne'][j], f['prim'][j], f['spell'][j]
            if e != s:
                errs.append('%s == %s is %s but their spellings are %s' % (a, b, e, 'equal' if s == '1' else 'different'))
            if n == e:
                errs.append('%s != %s is %s and == is %s' % (a, b, n, e))
            if p != s:
                errs.append('%s, %s: interned objects %s for %s spellings' % (a, b, 'equal' if p == '1' else 'different', 'equal' if s == '1' else 'different'))
        self.matrix[(sid, a)] = (others, f['eq'])
        self.hit('operator==/' + a[0])
        return errs[:3]

    def equivalence(self, sid):
        """refl / symm / trans over the complete matrices of one scenario."""
        errs = []
        rows = {a: dict(zip(o, e)) for (s, a), (o, e) in self.matrix.items() if s == sid}
        for a, r in rows.items():
            if r.get(a) != '1':
                errs.append(('eqrow %s %s' % (a, a), '%s == %s is false (reflexivity)' % (a, a)))
            for b, e in r.items():
                if b in rows and rows[b].get(a) != e:
                    errs.append(('eqrow %s %s\neqrow %s %s' % (a, b, b, a), '%s == %s is %s but %s == %s is %s (symmetry)' % (a, b, e, b, a, rows[b].get(a))))
                if e == '1' and b in rows:
                    for c, e2 in rows[b].items():
                        if e2 == '1' and r.get(c) == '0':
                            errs.append(('eqrow %s %s %s\neqrow %s %s' % (a, b, c, b, c), '%s == %s and %s == %s but not %s == %s (transitivity)' % (a, b, b, c, a, c)))
        return errs[:3]


PURE = ('obs', 'seq', 'opt', 'same', 'sobs', 'gobs', 'vobs', 'eqrow', 'desig')


def parse_impl(raw):
    out = []
    for ln in raw.splitlines():
        if ln.startswith('@'):
            if out:
                out[-1][1].append(ln)
        elif ln.startswith('#'):
            continue
        else:
            out.append((ln, []))
    return out


def replay_text(sc_ops, upto, extra=()):
    """The scenario's mutating ops up to the failing one (observations do not change anything) + the failing op."""
    keep = [o for o in sc_ops[:upto] if o.split()[0] not in PURE]
    return '\n'.join(keep + [sc_ops[upto]] + list(extra)) + '\n'


def learn_constants(probe):
    rc, out, err = C.run_exe(probe, [], 'dump\n')
    m = re.match(r'specifiers=(\S*) qualifiers=(\S*) cxx=(\S*) c=(\S*) natural_cc=(\S*)\.', out.strip())
    if rc != 0 or not m:
        raise C.BuildError('c15probe dump failed: %s %s' % (out[-500:], err[-2000:]))
    un = lambda h: bytes.fromhex(h).decode()
    return dict(specifiers=[un(x) for x in m.group(1).split(',') if x], qualifiers=[un(x) for x in m.group(2).split(',') if x],
                cxx=un(m.group(3)), c=un(m.group(4)), natural_cc=un(m.group(5)))


def check(res, scs, impl, model, oracle):
    """Returns number of scenarios validated.  impl/model: list of (line, asserts) / list of lines, aligned with the ops."""
    pos = 0
    good = 0
    seen = set()
    for sid, sc in enumerate(scs):
        n = len(sc.ops)
        seg = impl[pos:pos + n]
        failed = False
        for i, op in enumerate(sc.ops):
            if i >= len(seg):
                res.violation('crash', 'c15probe stopped after `%s` (scenario %s)' % (sc.ops[max(i - 1, 0)], sc.name), replay_text(sc.ops, min(i, n - 1)))
                return good
            line, asserts = seg[i]
            errs = []
            for a in asserts:
                if not a.endswith('=1'):
                    errs.append('implementation assertion failed: %s' % a)
            w = op.split()[0]
            if line in ('bad-op', '!X', '!L'):
                errs.append('`%s` was refused or threw: %s' % (op, line))
            elif sc.expect[i] is not None and line != sc.expect[i]:
                errs.append('`%s` answered `%s`; interning / allocation order requires `%s` (one object per spelling)' % (op, line, sc.expect[i]))
            elif w == 'obs':
                errs += oracle.obs(line)
            elif w == 'seq':
                errs += oracle.seq(line)
            elif w == 'eqrow':
                errs += oracle.eqrow(sid, op, line)
            elif w in PURE:
                errs += oracle.misc(op, line)
            if errs and not failed:
                failed = True
                key = re.sub(r'[^A-Za-z_:.=()]+', '_', errs[0].split(',')[0])[:60]
                if key in seen:
                    continue
                seen.add(key)
                res.violation('statement:' + key, 'scenario %s, `%s`: %s\nobserved: %s' % (sc.name, op, '; '.join(errs[:4]), line[:1500]),
                              replay_text(sc.ops, i))
        if not failed:
            for ops, msg in oracle.equivalence(sid):
                failed = True
                res.violation('statement:equivalence', 'scenario %s: %s' % (sc.name, msg),
                              replay_text(sc.ops, len(sc.ops) - 1, ops.split('\n')))
                break
        if not failed and model is not None:
            il = [l for l, _ in seg]
            ml = model[pos:pos + n]
            d = C.first_diff(il, ml)
            if d is not None:
                failed = True
                res.violation('correspondence:derived', 'scenario %s: implementation and model disagree at `%s`:\n impl  %s\n model %s' % (
                    sc.name, sc.ops[min(d, n - 1)], il[d][:1200] if d < len(il) else '<none>', ml[d][:1200] if d < len(ml) else '<none>'),
                    'correspondence: harness/c15probe.cxx vs lean/IprModel/Derived.lean (theorems IprProps/C15.lean)\n' + replay_text(sc.ops, min(d, n - 1)),
                    found_input=False)
        if not failed:
            good += 1
        pos += n
        if len(res.violations) >= 6:
            break
    return good


def run(tier):
    res = C.Result(PID, tier)
    rng = random.Random(C.seed() * 7919 + 15)
    ok, info, detail = C.prove(res, PID)
    probe = C.build_harness('c15probe', 'asan', extra=('-O0',))
    consts = learn_constants(probe)
    scs = scenarios(tier, rng, consts)
    text = '\n'.join(o for sc in scs for o in sc.ops) + '\n'
    rc_i, out_i, err_i = C.run_exe(probe, [], text)
    impl = parse_impl(out_i)
    nops = sum(len(sc.ops) for sc in scs)
    oracle = Oracle()
    model = None
    if rc_i == 0 and len(impl) == nops:
        rc_m, out_m, err_m = C.run_model('c15', text)
        model = out_m.splitlines()
    good = check(res, scs, impl, model, oracle)
    if (rc_i != 0 or len(impl) != nops) and not res.violations:
        res.violation('crash', 'c15probe exited %d after %d of %d ops\n%s' % (rc_i, len(impl), nops, err_i[-3000:]), text[:200000])
    if not ok:
        res.proof_broken('IprProps.C15', detail)
    kinds = {}
    for sc in scs:
        for o in sc.ops:
            k = o.split()[0]
            k = 'mk ' + o.split()[1] if k == 'mk' else k
            kinds[k] = kinds.get(k, 0) + 1
    fams = {}
    for sc in scs:
        for f in sc.families:
            fams[f] = fams.get(f, 0) + 1
    eqc = {}
    for sc in scs:
        for k, v in getattr(sc, 'counts', {}).items():
            eqc[k] = max(eqc.get(k, 0), v)
    res.cov['traces_validated_against_impl'] = good
    res.cov['scenarios'] = len(scs)
    res.cov['ops'] = nops
    res.cov['op_distribution'] = kinds
    res.cov['scenario_families'] = fams
    res.cov['values_per_equality_all_pairs'] = eqc
    res.cov['derived_operations_checked'] = dict(sorted(oracle.covered.items()))
    res.cov['derived_operations_not_covered'] = [
        'cxx_form (declarator / initializer forms): no inline convenience members',
        'util::view<T> / as<T> (traversal): covered by C06', 'enum bit operators |,&,^,implies: covered by C10',
        'Iterator::operator-- at index 0 (unsigned wrap) is not exercised']
    res.cov['exhaustive'] = False
    if scs:
        res.sample(scs[0].ops[:40])
        for sc in scs:
            if sc.name.startswith('block/2/2'):
                res.sample(sc.ops[20:60])
                break
    return res.finish(info, rule='a trace is one scenario on a fresh impl::Lexicon + Interface_unit: user-defined types (class, union, namespace, closure, '
                      'enum) with 0/1/2/5+ members in global / sub / class regions observed after every addition; blocks with 0..4 statements x 0..3 '
                      'handlers in random order observed after every step; mappings / lambdas with 0/1/2/5 parameters with and without defaults, '
                      'templates and function declarations before / after a mapping and a result are set; products, sums, expression lists of '
                      '0/1/2/5/9; every kind with named operand aliases or a forwarding type() built 3 times (thorough 12) from random operands; function / '
                      'as-type nodes over 20 transfers; all pairs of >= 40 strings, logograms, linkages, conventions, transfers, basic specifiers and '
                      'qualifiers of one Lexicon plus the process-wide constants')


def replay(path):
    ops = [l.strip() for l in open(path) if l.strip() and not l.startswith(('#', 'correspondence:', 'theorem'))]
    C.lean_build(['model_c15'])
    probe = C.build_harness('c15probe', 'asan', extra=('-O0',))
    text = '\n'.join(ops) + '\n'
    rc, out_i, err = C.run_exe(probe, [], text)
    _, out_m, _ = C.run_model('c15', text)
    impl = parse_impl(out_i)
    model = out_m.splitlines()
    oracle = Oracle()
    bad = rc != 0 or len(impl) != len(ops)
    for i, op in enumerate(ops):
        line, asserts = impl[i] if i < len(impl) else ('<no answer>', [])
        m = model[i] if i < len(model) else '<no answer>'
        w = op.split()[0]
        errs = [a for a in asserts if not a.endswith('=1')]
        if w == 'obs':
            errs += oracle.obs(line)
        elif w == 'seq':
            errs += oracle.seq(line)
        elif w == 'eqrow':
            errs += oracle.eqrow(0, op, line)
        elif w in PURE:
            errs += oracle.misc(op, line)
        if line in ('bad-op', '!X', '!L'):
            errs.append('refused')
        show = w in PURE or errs or line != m
        if show:
            print('%s\n   impl : %s\n   model: %s' % (op, line[:2000], m[:2000]))
        for e in errs:
            print('   ** ' + e)
        if errs or line != m:
            bad = True
    for _, msg in oracle.equivalence(0):
        print('   ** ' + msg)
        bad = True
    if bad:
        print('VIOLATION property=C15 replay=%s' % path)
        return 1
    print('replay: property holds on this input')
    return 0
