"""C03 — words are interned: one String node per distinct byte content, content preserved (DESIGN.md §4 C03)."""
import os, random, re
from . import common as C

PID = 'C03'
MANIFEST = dict(
    text='Theorems C03_* (lean/IprProps/C03.lean) prove, for every pool capacity, every hash function and every history of interned '
         'byte strings of any lengths and values, that the model of util::string::arena hands out in-bounds, pairwise disjoint '
         'storage, that make_string never alters an earlier string, that characters() of every returned String equals the bytes '
         'interned after any later history, that two requests return the same node iff their bytes are equal (also under hash '
         'collisions), that the binary search over a strictly sorted table finds exactly its members, and (decide) that the '
         'reserved-word table regenerated from src/impl.cxx on every run is strictly sorted and free of the empty word, so that '
         'reserved and empty words get state-independent constants. The model is tied to the C++ by a white-box correspondence '
         '(node identity, characters, pool chain, bump pointer, header index, pool byte size after every get_string on two '
         'Lexicons; re-reads of earlier strings under ASan) and a statement-level oracle on the implementation trace.',
    note='Lean kernel; axioms propext/Classical.choice/Quot.sound; hand-written model tied by correspondence only on generated '
         'histories; std::map/forward_list/std::hash/lower_bound represented by their specification; harness c03probe.cxx '
         '(-fno-access-control, ASan/UBSan), regex over known_words[] cross-checked by execution.',
    technique='Lean 4 theorems (invariant by induction over interning histories, arbitrary hash) + regenerated table (decide) + '
              'white-box differential correspondence',
    ref='§4 C03')

GEN = os.path.join(C.LEAN, 'Generated', 'KnownWords.lean')


# ------------------------------------------------------------------------------------------- table regeneration

def _unescape(lit):
    out = bytearray()
    i = 0
    simple = {'n': 10, 't': 9, 'r': 13, '0': 0, '\\': 92, '"': 34, "'": 39, 'a': 7, 'b': 8, 'f': 12, 'v': 11, '?': 63}
    while i < len(lit):
        ch = lit[i]
        if ch != '\\':
            out += ch.encode('utf-8')
            i += 1
            continue
        nx = lit[i + 1]
        if nx == 'x':
            m = re.match(r'[0-9a-fA-F]+', lit[i + 2:])
            out.append(int(m.group(0), 16) & 255)
            i += 2 + len(m.group(0))
        elif nx in '01234567':
            m = re.match(r'[0-7]{1,3}', lit[i + 1:])
            out.append(int(m.group(0), 8) & 255)
            i += 1 + len(m.group(0))
        else:
            out.append(simple.get(nx, ord(nx)))
            i += 2
    return bytes(out)


def known_words():
    """The `known_words[]` initialiser of src/impl.cxx, as a list of byte strings in source order."""
    src = open(os.path.join(C.REPO, 'src', 'impl.cxx'), encoding='utf-8', errors='replace').read()
    src = re.sub(r'//[^\n]*', '', src)
    m = re.search(r'known_words\s*\[\s*\]\s*(?:=\s*)?\{(.*?)\}\s*;', src, re.S)
    if not m:
        raise C.BuildError('cannot find the known_words[] initialiser in src/impl.cxx (the reserved-word table of C03 is '
                           'regenerated from it)')
    words = [_unescape(x) for x in re.findall(r'u8"((?:[^"\\]|\\.)*)"', m.group(1))]
    if not words:
        raise C.BuildError('known_words[] initialiser found but no u8"…" literal inside')
    return words


def regen():
    ws = known_words()
    rows = ['  [%s]' % ', '.join(str(b) for b in w) for w in ws]
    text = ('/-! Regenerated on every run of `check.py C03` from the `known_words[]` initialiser of src/impl.cxx (do not edit). -/\n'
            'namespace Ipr.Generated\n\ndef knownWords : List (List UInt8) := [\n')
    text += '\n'.join(r + (',' if i + 1 < len(rows) else '') + '   -- ' + re.sub(r'[^ -~]', '?', w.decode('latin-1'))
                      for i, (r, w) in enumerate(zip(rows, ws)))
    text += '\n]\n\nend Ipr.Generated\n'
    C.write_if_changed(GEN, text)
    return ws


# ------------------------------------------------------------------------------------------- words and ops

def hx(b):
    return b.hex() if b else '-'


def hdrs(n):
    return (n + 7) // 16 + 1


def rand_bytes(rng, n, nul=0.25):
    b = bytearray(rng.getrandbits(8) for _ in range(n))
    if n and rng.random() < nul:
        for _ in range(1 + n // 8):
            b[rng.randrange(n)] = 0
    return bytes(b)


def word_op(rng, lex, n):
    """An op interning a fresh random word of exactly n bytes in Lexicon `lex`; long words are written as unit^count ++ tail."""
    if n <= 300:
        w = rand_bytes(rng, n)
        return 'get L%d %s' % (lex, hx(w)), w
    u = rng.choice([3, 5, 7, 9, 11, 13])
    unit = rand_bytes(rng, u)
    count = (n - rng.randrange(0, u)) // u
    tail = rand_bytes(rng, n - count * u)
    return 'getrep L%d %s %d %s' % (lex, hx(unit), count, hx(tail)), unit * count + tail


def op_word(op):
    """(lexicon, word) interned by a get/getrep/inject op line."""
    t = op.split()
    lex = 1 if t[1] == 'L1' else 0
    un = lambda s: b'' if s == '-' else bytes.fromhex(s)
    if t[0] == 'getrep':
        return lex, un(t[2]) * int(t[3]) + un(t[4])
    return lex, un(t[2])


def again(op, lex=None):
    """The same word once more (optionally in the other Lexicon)."""
    if lex is None:
        return op
    t = op.split()
    t[1] = 'L%d' % lex
    return ' '.join(t)


class Gen:
    """Builds traces; mirrors the naming discipline (n<k> by first appearance) only to aim re-reads, never to judge."""

    def __init__(self, B, known, rng, tier):
        self.B, self.known, self.rng, self.tier = B, known, rng, tier
        self.kset = set(known)
        self.traces = []          # (label, [ops])

    def start(self, label, M):
        self.ops = ['arena %d %d' % (self.B, M)]
        self.label = label
        self.nnames = 0
        self.seen = [dict(), dict()]
        self.glob = dict()
        self.next = [0, 0]

    def emit(self, op):
        self.ops.append(op)
        t = op.split()[0]
        if t in ('get', 'getrep', 'getview'):
            lex, w = op_word(op)
            d = self.glob if (not w or w in self.kset) else self.seen[lex]
            if w not in d:
                d[w] = self.nnames
                self.nnames += 1
                if d is not self.glob:
                    self._bump(lex, len(w))
        elif t == 'inject':
            lex, w = op_word(op)
            self.nnames += 1
            self._bump(lex, len(w))

    def _bump(self, lex, n):       # generator-side guess of next_header, to size the pool-filling words
        m = hdrs(n)
        if m <= self.B - self.next[lex]:
            self.next[lex] += m
        elif n > self.B:
            pass
        else:
            self.next[lex] = m

    def reread_some(self, k=1):
        for _ in range(k):
            if self.nnames:
                # recent names are the neighbours a faulty allocation would overwrite
                j = self.nnames - 1 - min(self.nnames - 1, int(self.rng.expovariate(0.5)))
                self.ops.append('reread n%d' % j)

    def done(self):
        self.ops.append('rereadall')
        self.traces.append((self.label, self.ops))

    def natural_collisions(self, n):
        """Different 16-byte words with the SAME std::hash code (libstdc++; computed, not injected): they meet in one bucket of the real
        map by themselves, whatever that bucket is made of."""
        rng = self.rng
        self.start('equal-hash-natural', 7)
        for k, (a, b) in enumerate(C.equal_hash_pairs(rng, n)):
            first, second = (a, b) if k % 2 == 0 else (b, a)
            lex = rng.randrange(2)
            self.emit('get L%d %s' % (lex, hx(first)))
            self.emit('get L%d %s' % (lex, hx(second)))
            self.reread_some(2)
            self.emit('get L%d %s' % (lex, hx(first)))
            self.emit('get L%d %s' % (1 - lex, hx(second)))
            self.emit('get L%d %s' % (lex, hx(second)))
        # three to six words of ONE hash code: each interned, all asked again in another order (every one its own node, however many
        # share the code), then once more after a word of another code
        for k in range(max(4, n // 6)):
            grp = C.equal_hash_group(rng, rng.randint(3, 6))
            lex = rng.randrange(2)
            for w in grp:
                self.emit('get L%d %s' % (lex, hx(w)))
            order = list(grp)
            rng.shuffle(order)
            for w in order:
                self.emit('get L%d %s' % (lex, hx(w)))
            self.emit('get L%d %s' % (lex, hx(rand_bytes(rng, 16))))
            for w in reversed(grp):
                self.emit('get L%d %s' % (lex, hx(w)))
            self.reread_some(3)
        # a word and its own 16-byte PREFIX with one hash code (lengths differ, codes do not), the prefix handed over as a view into the
        # characters of the word's node (and the word's tail the same way); then prefixes / suffixes of earlier results in general
        for k in range(max(4, n // 6)):
            p16 = bytes(rng.choice(b'abcdefghijklmnopqrstuvwxyz_') for _ in range(16))
            wlong = C.equal_hash_extension(p16)
            lex = rng.randrange(2)
            self.emit('get L%d %s' % (lex, hx(wlong)))
            j = self.seen[lex].get(wlong)
            if j is None: continue
            self.emit('getview L%d %s n%d 0' % (lex, hx(p16), j))
            self.emit('get L%d %s' % (lex, hx(p16)))
            self.emit('getview L%d %s n%d 8' % (lex, hx(wlong[8:]), j))
            self.emit('get L%d %s' % (lex, hx(wlong)))
            self.emit('getview L%d %s n%d 0' % (1 - lex, hx(wlong[:9]), j))
            self.reread_some(2)
        self.done()

    # -- the families -----------------------------------------------------------------------------------------
    def boundary_lengths(self):
        B, rng = self.B, self.rng
        self.start('boundary-lengths', 5)
        lens = [0, 1, 2, 7, 8, 9, 15, 16, 17, 23, 24, 25, 39, 40, 41, 255, 256, 257, 4087, 4088, 4089,
                16383, 16384, 16385, B - 1, B, B + 1]
        order = lens[:]
        rng.shuffle(order)
        for n in lens + order[:8]:
            op, _ = word_op(rng, 0, n)
            self.emit(op)
            self.reread_some(2)
            self.emit(again(op, 1))
            self.emit(again(op))
            # equal length, different content: must be another node
            op2, _ = word_op(rng, 0, n)
            self.emit(op2)
            self.reread_some(2)
        self.done()

    def byte_values(self):
        rng = self.rng
        self.start('byte-values-and-nul', 1)
        for b in range(256):
            self.emit('get L0 %02x' % b)
        for k in range(1, 41):                         # all-NUL words of every small length: distinct nodes
            self.emit('get L0 ' + '00' * k)
        for w in (b'a', b'a\0', b'a\0b', b'a\0c', b'\0a', b'a\0\0', b'ab', b'a\0b\0', b'int\0', b'\0int', b'in\0t'):
            self.emit('get L0 ' + hx(w))
            self.emit('get L1 ' + hx(w))
        for b in range(0, 256, 5):
            self.emit('get L0 %02x00' % b)
            self.emit('get L0 00%02x' % b)
            self.emit('get L0 %02x' % b)
            self.reread_some(1)
        self.done()

    def reserved(self):
        rng = self.rng
        self.start('reserved-words-and-near-misses', 1021)
        for w in self.known:
            self.emit('get L0 ' + hx(w))
            self.emit('get L1 ' + hx(w))
        self.emit('get L0 -')
        self.emit('get L1 -')
        near = []
        for w in self.known:
            for i in range(1, len(w)):
                near.append(w[:i])                     # proper prefixes
                near.append(w[i:])                     # proper suffixes
            ext = {0, 0x20, 0x7f, 0x80, 0xff, w[-1], (w[-1] + 1) & 255, (w[-1] - 1) & 255}
            while len(ext) < 16:
                ext.add(rng.getrandbits(8))
            for b in sorted(ext):
                near.append(w + bytes([b]))            # one-byte extensions
            for b in (0, 0x20, 0xff, w[0]):
                near.append(bytes([b]) + w)
            for i in range(len(w)):
                ed = {0, 0xff, (w[i] + 1) & 255, (w[i] - 1) & 255, w[i] ^ 0x20, w[i] ^ 0x80}
                while len(ed) < 16:
                    ed.add(rng.getrandbits(8))
                ed.discard(w[i])
                for b in sorted(ed):
                    near.append(w[:i] + bytes([b]) + w[i + 1:])     # one-byte edits
        rng.shuffle(near)
        for i, w in enumerate(near):
            self.emit('get L0 ' + hx(w))
            if i % 9 == 0:
                self.emit('get L1 ' + hx(w))
            if i % 13 == 0:
                self.emit('get L0 ' + hx(w))
            if i % 17 == 0:
                self.emit('get L%d %s' % (i % 2, hx(rng.choice(self.known))))
            if i % 50 == 0:
                self.reread_some(1)
        for w in self.known:
            self.emit('get L1 ' + hx(w))
            self.emit('get L0 ' + hx(w))
        self.n_near = len(near)
        self.done()

    def fill_to(self, lex, free):
        """Intern one word that leaves exactly `free` headers in the current pool of `lex` (if the guess of next is right)."""
        m = self.B - self.next[lex] - free
        if m < 2:
            return
        n = 16 * (m - 1) + 8 - self.rng.randrange(0, 16)
        op, _ = word_op(self.rng, lex, n)
        self.emit(op)

    def pool_filling(self):
        B, rng = self.B, self.rng
        self.start('pool-filling', 13)
        # longer than B bytes but fits into the (nearly empty) current pool: the first branch wins, no oversize pool
        op, _ = word_op(rng, 0, rng.randint(1, 40))
        self.emit(op)
        op, _ = word_op(rng, 0, 9 * B + rng.randint(0, 15))
        self.emit(op)
        frees = (0, 1, 2) if self.tier == 'quick' else (0, 1, 2, 3)
        needs = (1, 2, 3) if self.tier == 'quick' else (1, 2, 3, 4)
        for r in frees:
            for q in needs:
                op, _ = word_op(rng, 0, rng.randint(1, 40))
                self.emit(op)
                self.fill_to(0, r)
                n = rng.randint(1, 8) if q == 1 else rng.randint(16 * (q - 1) - 7, 16 * (q - 1) + 8)
                op, _ = word_op(rng, 0, n)
                self.emit(op)                          # needs q headers, r are free
                self.reread_some(3)
                op, _ = word_op(rng, 0, rng.randint(1, 30))
                self.emit(op)
                self.reread_some(2)
        # byte-vs-header boundary of the oversize test: B bytes do not fit and are not oversize; B+1 bytes are
        for n in (B, B + 1, B + 1, 16 * B - 16, B + 2):
            self.fill_to(0, 100)
            op, _ = word_op(rng, 0, n)
            self.emit(op)
            self.reread_some(2)
            op, _ = word_op(rng, 0, rng.randint(1, 60))       # still goes into the old head after an oversize
            self.emit(op)
            self.reread_some(3)
        self.fill_to(0, 7)
        for n in ([16 * B, 16 * B + 16, 33 * B] if self.tier == 'quick' else [16 * B - 1, 16 * B, 16 * B + 1, 16 * B + 16, 33 * B, 48 * B]):
            op, _ = word_op(rng, 0, n)
            self.emit(op)                              # ~1 MiB, 2 MiB (thorough: 3 MiB) oversize
            op, _ = word_op(rng, 0, rng.randint(1, 20))
            self.emit(op)
            self.reread_some(2)
        # the second Lexicon has its own arena
        op, _ = word_op(rng, 1, 10)
        self.emit(op)
        self.fill_to(1, 1)
        op, _ = word_op(rng, 1, 30)
        self.emit(op)
        self.done()

    def small_rollover(self):
        rng = self.rng
        self.start('many-small-words', 1021)
        target = (2 if self.tier == 'quick' else 5) * self.B + 500
        used = 0
        i = 0
        while used < target:
            n = rng.choice([1, 8, 9, 24, 25, 40, 90, 100, 120, 200, 250])
            op, _ = word_op(rng, i % 7 == 3 and 1 or 0, n)
            self.emit(op)
            if op.split()[1] == 'L0':
                used += hdrs(n)
            if i % 40 == 0:
                self.reread_some(1)
            i += 1
        self.done()

    def mix(self, nops, M, label, big=0.03, every=1000):
        rng, B = self.rng, self.B
        self.start(label, M)
        hist = []
        for i in range(nops):
            x = rng.random()
            if hist and x < 0.35:
                op = rng.choice(hist[-400:] if rng.random() < 0.7 else hist)
                self.emit(again(op, rng.randrange(2)))
            elif x < 0.40:
                self.emit('get L%d %s' % (rng.randrange(2), hx(rng.choice(self.known + [b'']))))
            elif x < 0.45:
                # an equal-hash neighbour A placed in the bucket of B before B is interned (A is never interned again)
                n = rng.randint(1, 40)
                lex = rng.randrange(2)
                a = b'\xf7' + rand_bytes(rng, n) + bytes([i & 255, (i >> 8) & 255, 0xf7])
                # how the neighbour relates to the victim: the bucket scan must compare lengths AND bytes, so besides unrelated words of
                # one length the victim is a proper prefix of the neighbour, an extension of it, differs from it in the last byte only,
                # or is the neighbour followed by NUL bytes
                rel = rng.randrange(6)
                if rel == 0:
                    b = a[:rng.randint(1, len(a) - 1)]
                elif rel == 1:
                    b = a + rand_bytes(rng, rng.randint(1, 12))
                elif rel == 2:
                    b = a[:-1] + bytes([a[-1] ^ (1 << rng.randrange(8))])
                elif rel == 3:
                    b = a + b'\x00' * rng.randint(1, 3)
                else:
                    b = rand_bytes(rng, len(a))
                self.stats_rel = getattr(self, 'stats_rel', {})
                self.stats_rel[rel if rel < 4 else 4] = self.stats_rel.get(rel if rel < 4 else 4, 0) + 1
                if b and b not in self.kset:
                    self.emit('inject L%d %s %s' % (lex, hx(a), hx(b)))
                    self.emit('get L%d %s' % (lex, hx(b)))
                    self.reread_some(1)
                    self.emit('get L%d %s' % (lex, hx(b)))
                    hist.append('get L%d %s' % (lex, hx(b)))
            else:
                y = rng.random()
                if y < 0.6:
                    n = rng.randint(1, 24)
                elif y < 0.85:
                    n = rng.randint(25, 200)
                elif y < 1 - big:
                    n = rng.randint(200, 6000)
                else:
                    n = rng.choice([B - 1, B, B + 1, 2 * B, 3 * B + 5])
                op, _ = word_op(rng, rng.randrange(2), n)
                self.emit(op)
                hist.append(op)
            if rng.random() < 0.3:
                self.reread_some(1)
            if self.tier == 'thorough' and i % every == every - 1:
                self.ops.append('rereadall')
        self.done()


def generate(B, known, rng, tier):
    g = Gen(B, known, rng, tier)
    g.boundary_lengths()
    g.byte_values()
    g.reserved()
    g.pool_filling()
    g.small_rollover()
    g.natural_collisions(40 if tier == 'quick' else 600)
    g.mix(300, 1, 'mix-one-bucket')
    if tier == 'quick':
        g.mix(4000, 7, 'mix-few-buckets')
    else:
        g.mix(6000, 7, 'mix-few-buckets')
        g.mix(150000, 4093, 'mix-long', big=0.002, every=25000)
        g.pool_filling()
    return g


# ------------------------------------------------------------------------------------------- oracle on the implementation trace

def split_impl(raw):
    """[(compared line, [assert lines])] from the probe's raw output."""
    out = []
    for ln in raw.split('\n'):
        if not ln:
            continue
        if ln.startswith('@'):
            if out:
                out[-1][1].append(ln)
        elif ln.startswith('#'):
            continue
        else:
            out.append((ln, []))
    return out


FIELD = re.compile(r'(\w+)=(\S+)')


def oracle(ops, impl, kset, stats=None):
    """The statement of C03 evaluated on the implementation's own answers.
    Returns (None, line_starts) or ((op index, key, message), line_starts).  key 'crash' = output ended early."""
    names = []                      # name index -> (lexicon or None for constants, bytes)
    by_word = [dict(), dict()]
    glob = dict()
    prev = {}                       # lexicon -> (pools, next) after its previous get
    pos = 0
    starts = []

    def short(b):
        return (hx(b[:24]) + '…(%d bytes)' % len(b)) if len(b) > 24 else hx(b)

    for i, op in enumerate(ops):
        starts.append(pos)
        t = op.split()
        kind = t[0]
        if kind == 'rereadall':
            need = len(names)
        else:
            need = 1
        if pos + need > len(impl):
            return (i, 'crash', 'the probe stopped answering at op %d `%s`' % (i, op[:120])), starts
        lines = impl[pos:pos + need]
        pos += need
        for ln, asserts in lines:
            for a in asserts:
                if not a.endswith('=1'):
                    return (i, 'statement', 'implementation assertion failed: %s after `%s` (%s)' % (a, op[:120], ln[:80])), starts
        if kind == 'arena':
            names, by_word, glob, prev = [], [dict(), dict()], dict(), {}
            continue
        if kind in ('get', 'getrep', 'inject', 'getview'):
            lex, w = op_word(op)
            ln = lines[0][0]
            if ln.startswith('!'):
                return (i, 'statement', '`%s` raised %s' % (op[:120], ln)), starts
            f = dict(FIELD.findall(ln))
            m = re.match(r'n(\d+) ', ln)
            if not m or 'chars' not in f:
                return (i, 'statement', '`%s` answered `%s`' % (op[:120], ln[:120])), starts
            name = int(m.group(1))
            if f['chars'] != hx(w):
                got = f['chars']
                return (i, 'statement', 'characters() of the String returned for %s is %s' % (
                    short(w), got if len(got) < 60 else got[:60] + '…(%d bytes)' % (len(got) // 2))), starts
            constant = (not w) or (w in kset)
            d = glob if constant else by_word[lex]
            if kind == 'inject':
                d = {}
            if w in d:
                if name != d[w]:
                    what = ('the reserved word' if w else 'the empty word') if constant else 'the word'
                    return (i, 'statement', '%s %s was answered with node n%d in L%d, but with node n%d before%s' % (
                        what, short(w), name, lex, d[w],
                        ' (reserved and empty words must be the same node in every Lexicon)' if constant else '')), starts
            else:
                if name != len(names):
                    other = names[name] if name < len(names) else None
                    return (i, 'statement', 'the word %s (not interned before in L%d) was answered with the existing node n%d, which '
                            'holds %s' % (short(w), lex, name, short(other[1]) if other else '?')), starts
                d[w] = name
                names.append((None if constant else lex, w))
            if stats is not None:
                stats['ops'][kind] = stats['ops'].get(kind, 0) + 1
                if not constant and name == len(names) - 1 and 'pools' in f:
                    pools, nxt = int(f['pools']), int(f['next'])
                    pp, pn = prev.get(lex, (1, 0))
                    at = f.get('at', '')
                    if pools == pp:
                        br = 'bump'
                    elif at.startswith('0:'):
                        br = 'fresh-pool'
                        key = 'free=%d need=%d' % (stats['B'] - pn, hdrs(len(w)))
                        if stats['B'] - pn <= 3:
                            stats['rollover'][key] = stats['rollover'].get(key, 0) + 1
                    else:
                        br = 'oversize'
                    stats['branch'][br] = stats['branch'].get(br, 0) + 1
                    n = len(w)
                    b = '0-8' if n <= 8 else '9-24' if n <= 24 else '25-255' if n < 256 else '256-65535' if n < 65536 else '>=65536'
                    stats['lengths'][b] = stats['lengths'].get(b, 0) + 1
                    stats['bytes'] += n
                    if 0 in w:
                        stats['with_nul'] += 1
                elif constant:
                    stats['constant_answers'] += 1
                else:
                    stats['hits'] += 1
                if 'pools' in f:
                    prev[lex] = (int(f['pools']), int(f['next']))
        elif kind == 'reread':
            ln = lines[0][0]
            j = int(t[1][1:])
            if j >= len(names):
                continue
            f = dict(FIELD.findall(ln))
            if f.get('chars') != hx(names[j][1]) or not ln.startswith('n%d ' % j):
                return (i, 'statement', 'node n%d was returned for %s; re-read after later allocations it holds %s' % (
                    j, short(names[j][1]), f.get('chars', ln)[:60])), starts
            if stats is not None:
                stats['rereads'] += 1
        elif kind == 'rereadall':
            for j, (ln, _) in enumerate(lines):
                f = dict(FIELD.findall(ln))
                if f.get('chars') != hx(names[j][1]) or not ln.startswith('n%d ' % j):
                    return (i, 'statement', 'node n%d was returned for %s; re-read after later allocations it holds %s' % (
                        j, short(names[j][1]), f.get('chars', ln)[:60])), starts
            if stats is not None:
                stats['rereads'] += len(lines)
    starts.append(pos)
    return None, starts


# ------------------------------------------------------------------------------------------- running

def probe_constants(probe):
    rc, out, err = C.run_exe(probe, [], 'arena 0 1\n')
    m = re.search(r'headersz=(\d+) padding=(\d+) bufsz=(\d+) poolsz=(\d+)', out)
    if rc != 0 or not m:
        raise C.BuildError('c03probe does not report the arena constants: rc=%d %s %s' % (rc, out[:200], err[-500:]))
    return tuple(int(x) for x in m.groups())


def run_impl(probe, ops):
    rc, out, err = C.run_exe(probe, [], '\n'.join(ops) + '\n')
    return rc, split_impl(out), err


def run_model(ops):
    # (a word handed over as a view into an earlier String is, to the model, the word)
    ops = [('get ' + ' '.join(o.split()[1:3])) if o.startswith('getview ') else o for o in ops]
    rc, out, err = C.run_model('c03', '\n'.join(ops) + '\n')
    if rc != 0:
        raise C.BuildError('model driver failed: ' + err[-2000:])
    lines, _, stats = C.split_streams(out)
    return lines, stats


def judge(probe, ops, kset, stats=None, with_model=True):
    """-> None | (op index, key, message, found_input)"""
    rc, impl, err = run_impl(probe, ops)
    bad, starts = oracle(ops, impl, kset, stats)
    if bad and bad[1] == 'crash':
        i = bad[0]
        san = re.search(r'(ERROR: AddressSanitizer[^\n]*|runtime error:[^\n]*|SUMMARY:[^\n]*)', err)
        return (i, 'crash', 'the probe stopped (exit %d) at op %d `%s`: %s' % (rc, i, ops[i][:100], san.group(1) if san else err[-300:]), True)
    if bad:
        return bad + (True,)
    if rc != 0:
        return (len(ops) - 1, 'crash', 'the probe exited with %d: %s' % (rc, err[-400:]), True)
    if not with_model:
        return None
    model, mstats = run_model(ops)
    if stats is not None:
        for s in mstats:
            m = re.match(r'# scan=(\d+)', s)
            if m:
                k = int(m.group(1))
                b = '0' if k == 0 else '1' if k == 1 else '2-9' if k < 10 else '10+'
                stats['bucket_scan'][b] = stats['bucket_scan'].get(b, 0) + 1
    flat = [l for l, _ in impl]
    d = C.first_diff(flat, model)
    if d is not None:
        i = max(k for k, s in enumerate(starts[:-1]) if s <= d) if starts else 0
        cut = lambda s: s if len(s) < 200 else s[:90] + '…' + s[-100:]
        return (i, 'correspondence:arena-intern', 'implementation and model disagree at op %d `%s`\n impl : %s\n model: %s\n'
                'the implementation trace itself satisfies the statement of C03 (every String reads back the bytes interned, '
                'identity <=> equal contents), so the theorems no longer speak about this code' % (
                    i, ops[i][:100], cut(flat[d]) if d < len(flat) else '<none>', cut(model[d]) if d < len(model) else '<none>'), False)
    return None


def shrink(probe, ops, kset, key, upto):
    """ddmin over the ops of the failing trace (the `arena` line stays).  Names n<k> shift when ops are removed, so the
    re-reads are first replaced by one `rereadall` at the end (kept if the failure survives that)."""
    head, body = ops[0], ops[1:upto + 1]
    budget = 12 if (sum(len(o) for o in body) > 4_000_000 or len(body) > 30000) else 80
    wm = key.startswith('correspondence')

    def fails_with(tail):
        def fails(sub):
            r = judge(probe, [head] + sub + tail, kset, with_model=wm)
            return r is not None and r[1] == key
        return fails
    try:
        plain = [o for o in body if not o.startswith('reread')]
        if fails_with(['rereadall'])(plain):
            return [head] + C.ddmin(plain, fails_with(['rereadall']), max_tests=budget) + ['rereadall']
        return [head] + C.ddmin(body, fails_with([]), max_tests=budget)
    except Exception:
        return [head] + body


def new_stats(B):
    return {'B': B, 'ops': {}, 'branch': {}, 'rollover': {}, 'lengths': {}, 'bytes': 0, 'with_nul': 0, 'constant_answers': 0,
            'hits': 0, 'rereads': 0, 'bucket_scan': {}}


def run(tier):
    res = C.Result(PID, tier)
    rng = random.Random(C.seed() * 104729 + 3)
    known = []

    def rg():
        known[:] = regen()
    ok, info, detail = C.prove(res, PID, regen=rg)
    probe = C.build_harness('c03probe', 'asan')
    headersz, padding, B, poolsz = probe_constants(probe)
    kset = set(known)
    layout_ok = headersz == 16 and padding == 8 and poolsz == 8 + 16 * B and B >= 1
    g = generate(B if layout_ok else 65536, known, rng, tier)
    stats = new_stats(B)
    reported = set()
    if not layout_ok:
        res.violation('correspondence:arena-layout',
                      'the arena layout constants are headersz=%d padding=%d bufsz=%d poolsz=%d; the model fixes headersz=16, '
                      'padding=8, poolsz=8+16*bufsz' % (headersz, padding, B, poolsz),
                      'correspondence: harness/c03probe.cxx vs lean/IprModel/Arena.lean (theorems IprProps/C03.lean)\narena %d 1' % B,
                      found_input=False)
        reported.add('correspondence:arena-layout')
    for label, ops in g.traces:
        r = judge(probe, ops, kset, stats)
        res.cov['traces_validated_against_impl'] += 1
        if len(res.cov['samples']) < 6:
            res.sample({'trace': label, 'ops': len(ops), 'first_ops': [o[:90] for o in ops[:4]]})
        if r is None:
            continue
        i, key, msg, found = r
        if key in reported or (not found and any(v[3] for v in res.violations)):
            continue                                   # one report per kind; a concrete failing input makes tie reports redundant
        reported.add(key)
        small = shrink(probe, ops, kset, key, i)
        r2 = judge(probe, small, kset, with_model=key.startswith('correspondence'))
        if r2 is not None and r2[1] == key:
            msg = r2[2]
        else:
            small = ops[:i + 1]
        pre = '' if found else 'correspondence: harness/c03probe.cxx vs lean/IprModel/{Arena,Intern}.lean (theorems IprProps/C03.lean)\n'
        res.violation(key, '[trace %s] %s' % (label, msg), pre + '\n'.join(small), found_input=found)
    if not ok:
        res.proof_broken('IprProps.C03', detail)

    del stats['B']
    res.cov.update({
        'arena_constants': {'headersz': headersz, 'padding': padding, 'bufsz': B, 'poolsz': poolsz},
        'reserved_words_in_table': len(known),
        'near_misses_of_reserved_words': getattr(g, 'n_near', 0),
        'op_kinds': stats['ops'], 'allocate_branch_distribution': stats['branch'],
        'rollover_with_few_free_headers(free,need)': dict(sorted(stats['rollover'].items())),
        'fresh_word_length_distribution': stats['lengths'], 'fresh_bytes_interned': stats['bytes'],
        'fresh_words_with_NUL': stats['with_nul'], 'answers_from_constants': stats['constant_answers'],
        'answers_of_existing_nodes': stats['hits'], 'rereads_checked': stats['rereads'],
        'model_bucket_length_scanned_distribution': stats['bucket_scan'],
        'injected_neighbour_relation(0=victim is prefix,1=victim extends,2=last byte differs,3=victim has trailing NULs,4=unrelated)': getattr(g, 'stats_rel', {}),
        'trace_kinds': [l for l, _ in g.traces], 'ops': sum(len(o) for _, o in g.traces), 'exhaustive': False,
    })
    res.assumptions += [
        'std::map, std::forward_list, std::hash, std::lower_bound, operator new are represented by their specification',
        'equal-hash neighbours are injected white-box into the real bucket map (libstdc++ hash cannot be collided by search); '
        'the model side runs every trace under a deliberately weak hash (1, 5, 7, 13 or ~1000 buckets)',
        'memory outside the pools, object lifetime and the 2^63 length limit are outside the model; ASan/UBSan watch the run',
    ]
    return res.finish(info, rule='histories of get_string on two Lexicons: boundary lengths (0..B+1 around the 8/16-byte granules), '
                      'all 256 byte values and NUL-only/NUL-embedded words, every reserved word with prefixes, suffixes, one-byte '
                      'extensions and edits, pool-filling runs leaving 0-2(3) headers before words needing 1-3(4), oversize words '
                      '(B+1, ~1 MiB, thorough 3 MiB), natural roll-over with small words, random mixes with repeats and injected '
                      'equal-hash neighbours; sources are not NUL-terminated and are freed after the call; every answer (node, '
                      'characters, pool chain, bump pointer, header index, pool bytes) is compared with the model, earlier strings '
                      'are re-read after later allocations; a trace is one history on a fresh pair of Lexicons')


def replay(path):
    ops = [l.strip() for l in open(path) if l.strip() and not l.startswith('#') and not l.startswith('correspondence:')
           and not l.startswith('theorem')]
    if not ops or not ops[0].startswith('arena'):
        print('replay: no op lines in %s (the file names a proof obligation, re-run the check)' % path)
        return 1
    known = regen()
    C.lean_build(['model_c03'])
    probe = C.build_harness('c03probe', 'asan')
    rc, impl, err = run_impl(probe, ops)
    model, _ = run_model(ops)
    bad, starts = oracle(ops, impl, set(known))
    cut = lambda s: s if len(s) < 160 else s[:80] + '…' + s[-70:]
    for i, op in enumerate(ops):
        a = starts[i] if i < len(starts) else len(impl)
        b = starts[i + 1] if i + 1 < len(starts) else a + 1
        il = [cut(l) + (' ' + ' '.join(x for x in at if not x.endswith('=1')) if any(not x.endswith('=1') for x in at) else '')
              for l, at in impl[a:b]] or ['<none>']
        ml = [cut(l) for l in model[a:b]] or ['<none>']
        print('%s\n   impl : %s\n   model: %s' % (cut(op), '\n          '.join(il[:6]), '\n          '.join(ml[:6])))
    r = judge(probe, ops, set(known))
    if r is not None:
        print('VIOLATION property=C03 replay=%s%s' % (path, '' if r[3] else ' no-failing-input-found'))
        print(r[2])
        return 1
    print('replay: property holds on this input')
    return 0
