"""C04 — names and atoms are unified; one Identifier per spelling (DESIGN.md §4 C04)."""
from . import unify_common as U

PID = 'C04'
MANIFEST = dict(
    text='Theorems C04_* (lean/IprProps/C04.lean) prove, for every finite history and every injective address assignment: the comparators '
         'of name_factory / expr_factory (id_compare, unary_compare, the spelling lambdas, the (name,type) symbol comparator) are lawful; '
         'every name / atom constructor answers the same node iff the normal forms are equal (reserved words, get_label(default), get_this, '
         'get_linkage("C"|"C++"), empty and reserved logograms as constants); every Identifier node spelled w that exists in the Lexicon — '
         'reserved word, name of a built-in or of a symbolic constant, name of a `this` symbol — is the node get_identifier(w) answers; '
         'Logogram / Linkage / Calling_convention / Transfer == (identity of the String nodes) holds iff the spellings are equal and is an '
         'equivalence. Tied to the code by a differential run of a real impl::Lexicon against the model driver and a specification oracle.',
    note='Lean kernel; axioms propext/Classical.choice/Quot.sound; hand-written model tied by correspondence on generated histories only; '
         'interning of String contents is C03 (represented by its specification); harness unifyprobe.cxx, ASan/UBSan, g++.',
    technique='Lean 4 theorems (invariants over request histories, refinement to a key table) + differential correspondence',
    ref='§4 C04')

RULE = ('4 (quick) / 16 (thorough) histories of 3 000 / 100 000 requests: spellings from all reserved words (every one at least 20 times, through '
        'every constructor taking a spelling), near misses (prefix, extension, one-byte edit, case), random identifiers, arbitrary bytes and the '
        'empty word; names of built-ins / constants / symbols read back and compared with get_identifier; == of linkages, conventions, '
        'transfers, logograms compared with spelling equality; ~45 % repeats, half through an alternative spelling (word vs String, this/label '
        'vs get_symbol). A trace is one history; every answer is compared with the specification oracle and with the Lean model')


def run(tier):
    return U.check(PID, tier, RULE)


def replay(path):
    return U.replay(PID, path)
