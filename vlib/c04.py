"""C04 — names and atoms are unified; one Identifier per spelling (DESIGN.md §4 C04)."""
from . import unify_common as U

PID = 'C04'
MANIFEST = dict(
    text='Theorems C04_* (lean/IprProps/C04.lean) prove, for every finite history and every injective address assignment: the comparators '
         'of name_factory / expr_factory (id_compare, unary_compare, the spelling lambdas, the (name,type) symbol comparator) are lawful; '
         'every name / atom constructor answers the same node iff the normal forms are equal (reserved words, get_label(default), get_this, '
         'get_linkage("C"|"C++"), empty and reserved logograms as constants); every Identifier node spelled w that exists in the Lexicon — '
         'reserved word, name of a built-in or of a symbolic constant, name of a `this` symbol — is the node get_identifier(w) answers; '
         'Logogram / Linkage / Calling_convention / Transfer == (identity of the String nodes) holds iff the spellings are equal and is an '
         'equivalence; the same holds in every Lexicon of a process that holds several (C04_one_identifier_in_process), and a reserved word '
         'is answered with the same constant whatever the Lexicon and its state (C04_reserved_word_same_in_every_lexicon). Tied to the code by a '
         'differential run of real impl::Lexicons against the model driver and a specification oracle: several Lexicons alive in one process with '
         'interleaved histories, Lexicons constructed in place of destroyed ones, client-built operand types at mmap-placed addresses, and a '
         'Lexicon that a client unit linked before the library uses during static initialisation — every candidate reserved spelling requested '
         'there as String, Identifier, Logogram, Linkage and as-type must be the node the same Lexicon and (for constants) fresh Lexicons answer in main().',
    note='Lean kernel; axioms propext/Classical.choice/Quot.sound; hand-written model tied by correspondence on generated histories only; '
         'interning of String contents is C03 (represented by its specification); several-Lexicon and static-initialisation behaviour of the C++ '
         'is observed on the generated scripts, not proved; static-initialisation order relies on GNU ld running the initialisers of the probe '
         'unit (first on the link line) before those of the library; harness unifyprobe.cxx, ASan/UBSan, g++.',
    technique='Lean 4 theorems (invariants over request histories, refinement to a key table) + differential correspondence',
    ref='§4 C04')

RULE = ('one probe process per run; before main() a namespace-scope object of the probe asks a Lexicon for every u8 literal of src/impl.cxx / builtin.def '
        '(String, Identifier by word and by String, Logogram, Linkage by word and by String, as-type) and for the names of built-ins and constants; '
        'main() asks the same Lexicon and two fresh ones again. Then 4 (quick) / 16 (thorough) histories of 3 000 / 100 000 requests, three Lexicons '
        'alive at a time, interleaved in chunks of 1..233 lines (histories 0 and 2 also asked of a second Lexicon in lockstep), and 5 / 10 pairs '
        '(short-lived Lexicon, successor constructed in place with recycled node storage); client-built types at placed addresses as operands of '
        'conversion / ctor / dtor / this / symbol / literal. Spellings from all reserved words (every one at least 20 times, through '
        'every constructor taking a spelling), near misses (prefix, extension, one-byte edit, case), random identifiers, arbitrary bytes and the '
        'empty word; names of built-ins / constants / symbols read back and compared with get_identifier; == of linkages, conventions, '
        'transfers, logograms compared with spelling equality; ~45 % repeats, half through an alternative spelling (word vs String, this/label '
        'vs get_symbol). A trace is one history (one Lexicon incarnation); every answer is compared with the specification oracle of its own history and with the Lean model run on the same interleaved script')


def run(tier):
    return U.check(PID, tier, RULE)


def replay(path):
    return U.replay(PID, path)
