"""Shared machinery of C17 / C18: typed program generator for the printable fragment, the probe / model protocol,
and the statement-level oracles evaluated on the implementation alone."""
import os, re, random, threading
from . import common as C


# ---------------------------------------------------------------------------------------------- categories

def cat_names():
    """Category names in code order, from /repo's current include/ipr/node-category."""
    txt = open(os.path.join(C.REPO, 'include/ipr/node-category')).read()
    return re.findall(r'^([A-Za-z_][A-Za-z_0-9]*),', txt, re.M)


def translate_dump(lines, names):
    """`cat=<code>` -> `cat=<Name>` (the model goes by name)."""
    out = []
    for ln in lines:
        out.append(re.sub(r'cat=(\d+)', lambda m: 'cat=' + (names[int(m.group(1))] if int(m.group(1)) < len(names) else 'Unknown'), ln, 1))
    return out


def hexs(b):
    return b.hex() if b else '-'


def text_of(line):
    m = re.search(r'text=(\S+)', line)
    if not m or m.group(1) == '-':
        return b''
    return bytes.fromhex(m.group(1))


def field(line, key):
    m = re.search(r'\b%s=(\S+)' % key, line)
    return m.group(1) if m else None


# ---------------------------------------------------------------------------------------------- program generator

UNARY = ['address', 'complement', 'deref', 'not', 'post_increment', 'post_decrement', 'pre_increment', 'pre_decrement',
         'unary_minus', 'unary_plus', 'sizeof', 'typeid', 'noexcept', 'args_cardinality', 'delete', 'array_delete', 'throw']
BINARY = ['plus', 'minus', 'mul', 'div', 'modulo', 'lshift', 'rshift', 'less', 'less_equal', 'greater', 'greater_equal',
          'equal', 'not_equal', 'bitand', 'bitxor', 'bitor', 'and', 'or', 'assign', 'plus_assign', 'minus_assign',
          'mul_assign', 'div_assign', 'modulo_assign', 'bitand_assign', 'bitor_assign', 'bitxor_assign', 'lshift_assign',
          'rshift_assign', 'comma', 'array_ref', 'dot', 'arrow', 'dot_star', 'arrow_star', 'scope_ref', 'member_init']
CASTS = ['cast', 'const_cast', 'dynamic_cast', 'reinterpret_cast', 'static_cast']
UNPRINTABLE_UN = ['alignof', 'expansion', 'restriction']                 # kinds without a production: std::logic_error
UNPRINTABLE_UT = ['demotion', 'materialization', 'promotion', 'read']
BUILTINS = ['void', 'bool', 'char', 'schar', 'uchar', 'wchar_t', 'char8_t', 'char16_t', 'char32_t', 'short', 'ushort', 'int',
            'uint', 'long', 'ulong', 'long_long', 'ulong_long', 'float', 'double', 'long_double']
LETTERS = 'abcdeghijklmnopqrstuvwxyz_'          # no 'f'/'F': a spelling can never look like a location token "F<n>:<n> "


class Program:
    """One generated program: a list of ops (text, deps) in construction order A; roots to print."""

    def __init__(self, rng, budget, unprintable=0.02):
        self.rng = rng
        self.budget = budget
        self.unprintable = unprintable
        self.ops = []            # (text, set(dep op indices))
        self.defidx = {}         # var -> op index
        self.chain = {}          # container -> last op index touching it (keeps declaration / statement order)
        self.nvar = 0
        self.roots = []          # (var, route)
        self.kinds = {}
        self.ids = {}            # spelling -> var
        self.types = {}
        self.nloc = 0
        self.generate()

    # -- op emission
    def _deps(self, args, chain):
        d = {self.defidx[a] for a in args if isinstance(a, str) and a in self.defidx}
        if chain is not None and chain in self.chain:
            d.add(self.chain[chain])
        return d

    def new(self, fac, *args, chain=None):
        v = 'v%d' % self.nvar
        self.nvar += 1
        deps = self._deps(args, chain)
        self.ops.append(('%s = %s %s' % (v, fac, ' '.join(str(a) for a in args)), deps))
        self.defidx[v] = len(self.ops) - 1
        if chain is not None:
            self.chain[chain] = len(self.ops) - 1
        self.kinds[fac] = self.kinds.get(fac, 0) + 1
        self.budget -= 1
        return v

    def set(self, what, target, *args, chain=None):
        deps = self._deps((target,) + args, chain)
        self.ops.append(('set %s %s %s' % (what, target, ' '.join(str(a) for a in args)), deps))
        if chain is not None:
            self.chain[chain] = len(self.ops) - 1

    # -- names, literals
    def fresh_name(self):
        r = self.rng
        n = r.choice(LETTERS[:-1]) + ''.join(r.choice(LETTERS + '0123456789') for _ in range(r.randint(0, 5)))
        if r.random() < 0.05:
            n += 'é中'            # multi-byte UTF-8
        return n

    def ident(self, spelling=None):
        s = spelling if spelling is not None else self.fresh_name()
        if s not in self.ids:
            self.ids[s] = self.new('id', hexs(s.encode()))
        return self.ids[s]

    def literal(self):
        r = self.rng
        k = r.random()
        if k < 0.6:
            return self.new('lit', self.builtin('int'), hexs(str(r.randint(0, 10 ** r.randint(1, 6))).encode()))
        if k < 0.8:
            body = bytes(r.choice([b for b in range(256) if b not in (0x46,)]) for _ in range(r.randint(0, 6)))
            return self.new('lit', self.builtin('char'), hexs(b'"' + body + b'"'))
        body = bytes(r.choice(b'abc\n\t\\\'"\x00\x01\x02\x03\x07\x08\x0b\x0c\r xyz') for _ in range(r.randint(1, 8)))
        if r.random() < 0.35:
            # spellings that fill their storage slot exactly (8, 24, 40 bytes) and end in a byte after which an escape-printing routine may
            # want to look at "the next character": NUL, backslash, a control byte, a quote
            n = r.choice([8, 8, 24, 40])
            body = (body * 6)[:n - 1] + bytes([r.choice(b'\x00\x00\\\x01\x03"\'')])
        return self.new('lit', self.builtin('char8_t'), hexs(body))

    # -- types
    def builtin(self, name=None):
        name = name or self.rng.choice(BUILTINS)
        key = ('builtin', name)
        if key not in self.types:
            self.types[key] = self.new('builtin', name)
        return self.types[key]

    def gen_type(self, depth=0):
        r = self.rng
        k = r.random()
        if depth > 2 or self.budget < 4 or k < 0.45:
            if self.udts and r.random() < 0.3:
                return r.choice(self.udts)
            return self.builtin()
        if k < 0.58:
            return self.new('ptr', self.gen_type(depth + 1))
        if k < 0.66:
            return self.new('ref', self.gen_type(depth + 1))
        if k < 0.70:
            return self.new('rref', self.gen_type(depth + 1))
        if k < 0.80:
            return self.new('qual', r.randint(1, 7), self.gen_type(depth + 1))
        if k < 0.86:
            return self.new('array', self.gen_type(depth + 1), self.gen_expr(2) if r.random() < 0.8 else self.new('phantom'))
        if k < 0.92:
            return self.fun_type([self.gen_type(depth + 1) for _ in range(r.randint(0, 3))], self.gen_type(depth + 1),
                                 throws=r.random() < 0.3)
        if k < 0.95:
            return self.new('ptrmem', r.choice(self.udts) if self.udts else self.builtin(), self.gen_type(depth + 1))
        if k < 0.975:
            return self.new('decltype', self.gen_expr(2))
        return self.new('astype', self.new('idexpr', self.ident()))

    def fun_type(self, params, ret, throws=False):
        prod = self.new('product', *params)
        if throws:
            k = self.rng.random()
            if k < 0.45:
                # `throw(A, B, C)`: a sum of several compound types, kept in the order given (in the other Lexicon those operand
                # nodes are made in another order, at other addresses)
                e = self.new('sum', *[self.gen_type(1) for _ in range(self.rng.randint(2, 4))])
            elif k < 0.75:
                e = self.gen_type(3)
            else:
                e = self.new('symbol', self.rng.choice(['true', 'false']))
            return self.new('fun', prod, ret, e)
        return self.new('fun', prod, ret)

    # -- expressions
    def gen_expr(self, depth=0):
        r = self.rng
        if depth > 5 or self.budget < 3 or r.random() < 0.22 + 0.08 * depth:
            return self.leaf()
        k = r.random()
        if k < 0.42:
            if r.random() < 0.25:                       # the simple forms `a op b` over names and literals
                return self.new(r.choice(BINARY), self.leaf(), self.leaf())
            return self.new(r.choice(BINARY), self.gen_expr(depth + 1), self.gen_expr(depth + 1))
        if k < 0.60:
            return self.new(r.choice(UNARY), self.gen_expr(depth + 1))
        if k < 0.66:
            return self.new('conditional', self.gen_expr(depth + 1), self.gen_expr(depth + 1), self.gen_expr(depth + 1))
        if k < 0.73:
            xl = self.new('xl', *[self.gen_expr(depth + 2) for _ in range(r.randint(0, 3))])
            return self.new('call', self.gen_expr(depth + 1), xl)
        if k < 0.79:
            return self.new(r.choice(CASTS), self.gen_type(2), self.gen_expr(depth + 1))
        if k < 0.84:
            return self.new('encl', r.randint(0, 4), self.gen_expr(depth + 1))
        if k < 0.89:
            xl = self.new('xl', *[self.gen_expr(depth + 2) for _ in range(r.randint(0, 2))])
            # the arguments of a construction: an enclosure with any of the five delimiters (none at all included: `new T`), around an
            # expression list or, for the bare forms, any expression / nothing
            if r.random() < 0.6:
                cons = self.new('construct', self.gen_type(2), self.new('encl', r.choice([1, 2]), xl))
            else:
                inner = r.choice([xl, self.new('phantom'), self.leaf()])
                cons = self.new('construct', self.gen_type(2), self.new('encl', r.randint(0, 4), inner))
            if r.random() < 0.5:
                return cons
            if r.random() < 0.5:
                return self.new('new', cons)
            return self.new('new', cons, self.new('xl', *[self.gen_expr(depth + 2) for _ in range(r.randint(0, 2))]))
        if k < 0.92:
            xl = self.new('xl', *[self.gen_expr(depth + 2) for _ in range(r.randint(0, 2))])
            tid = self.new('template_id', self.new('idexpr', self.ident()), xl)
            return self.new('idexpr', tid)
        if k < 0.95:
            return self.gen_type(2)                 # a type used as an expression
        if r.random() < self.unprintable * 10:
            if r.random() < 0.5:
                return self.new(r.choice(UNPRINTABLE_UN), self.gen_expr(depth + 1))
            return self.new(r.choice(UNPRINTABLE_UT), self.gen_expr(depth + 1), self.gen_type(2))
        return self.leaf()

    def leaf(self):
        r = self.rng
        k = r.random()
        if k < 0.45 and self.vars:
            name, decl = r.choice(self.vars)
            if r.random() < 0.25:
                return decl                                      # the declaration itself used as an expression
            return self.new('idexpr', name) if r.random() < 0.7 else self.new('idexpr_decl', decl)
        if k < 0.75:
            return self.literal()
        if k < 0.82:
            return self.new('symbol', r.choice(['true', 'false', 'nullptr']))
        if k < 0.87:
            nm = r.choice([self.new('opname', hexs(r.choice(['+', '<<=', '()', '[]', 'new', 'delete', '->', '==']).encode())),
                           self.new('conv', self.gen_type(2)), self.new('suffix', self.ident('_' + self.fresh_name())),
                           self.new('ctor', self.gen_type(3)), self.new('dtor', self.gen_type(3))])
            return self.new('idexpr', nm)
        if k < 0.9:
            return self.new('label', self.ident())
        if k < 0.93:
            return self.new('phantom')
        return self.new('idexpr', self.ident())

    # -- statements
    def maybe_loc(self, v):
        r = self.rng
        if r.random() < 0.45:
            self.nloc += 1
            if r.random() < 0.15:
                # components at and near the ends of their 32-bit range (sentinels like "all ones", values past 2^31)
                edge = lambda: r.choice([1, 2 ** 31 - 1, 2 ** 31, 2 ** 31 + 1, 2 ** 32 - 1, 2 ** 32 - 2, 3000000000, r.randint(1, 2 ** 32 - 1)])
                self.set('loc', v, edge(), edge(), r.choice([0, edge()]))
            else:
                self.set('loc', v, r.randint(1, 400), r.randint(0, 100000), r.choice([0, 0, r.randint(1, 300)]))
        elif r.random() < 0.1:
            self.set('loc', v, 0, r.randint(1, 99), r.randint(1, 99))   # file 0: no token, whatever line/column say
        return v

    def gen_block(self, region, depth):
        r = self.rng
        blk = self.new('block', region)
        breg = self.new('block_region', blk)
        saved = list(self.vars)
        for _ in range(r.randint(0, 4 if depth < 2 else 2)):
            if self.budget < 4:
                break
            self.set('add', blk, self.gen_stmt(breg, depth + 1), chain=blk)
        if r.random() < 0.12 and self.budget > 6:
            for _ in range(r.randint(1, 2)):
                h = self.new('handler', blk, self.ident(), self.gen_type(2), chain=blk)
                self.maybe_loc(h)
                if r.random() < 0.5:
                    self.maybe_loc(self.new('handler_param', h))
                for _ in range(r.randint(0, 2)):
                    self.set('add', h, self.gen_stmt(breg, depth + 2), chain=h)
        self.vars = saved
        return self.maybe_loc(blk)

    def gen_stmt(self, region, depth):
        r = self.rng
        k = r.random()
        if depth > 4 or self.budget < 6:
            k = k * 0.45
        if k < 0.25:
            s = self.new('expr_stmt', self.gen_expr(1))
        elif k < 0.33:
            s = self.new('return', self.gen_expr(2))
        elif k < 0.37:
            s = self.new(r.choice(['break', 'continue']))
        elif k < 0.40:
            s = self.new('goto', self.new('label', self.ident()))
        elif k < 0.45:
            return self.gen_var(region, kind='var')
        elif k < 0.57:
            a = self.gen_sub(region, depth)
            s = self.new('if', self.gen_expr(2), a, self.gen_sub(region, depth)) if r.random() < 0.5 else self.new('if', self.gen_expr(2), a)
        elif k < 0.64:
            s = self.new('while', self.gen_expr(2), self.gen_sub(region, depth))
        elif k < 0.69:
            s = self.new('do', self.gen_expr(2), self.gen_sub(region, depth))
        elif k < 0.76:
            init = self.gen_var(region, kind='var') if r.random() < 0.4 else self.gen_expr(2)
            s = self.new('for', init, self.gen_expr(2), self.gen_expr(2), self.gen_sub(region, depth))
        elif k < 0.80:
            v = self.new('var', region, self.ident(), self.gen_type(1), chain=region)
            self.maybe_loc(v)
            s = self.new('for_in', v, self.gen_expr(2), self.gen_sub(region, depth))
        elif k < 0.85:
            s = self.new('switch', self.gen_expr(2), self.gen_sub(region, depth))
        elif k < 0.91:
            s = self.new('labeled', self.new('label', self.ident()) if r.random() < 0.6 else self.gen_expr(3), self.gen_sub(region, depth))
        else:
            return self.gen_block(region, depth)
        return self.maybe_loc(s)

    def gen_sub(self, region, depth):
        return self.gen_block(region, depth + 1) if self.rng.random() < 0.6 else self.gen_stmt(region, depth + 1)

    # -- declarations
    def specs(self, v, p=0.3):
        r = self.rng
        if r.random() < p:
            bits = 0
            for _ in range(r.randint(1, 3)):
                bits |= 1 << r.randrange(18)
            self.set('spec', v, bits)

    def gen_var(self, region, kind='var'):
        r = self.rng
        name = self.ident()
        v = self.new(kind, region, name, self.gen_type(), chain=region)
        self.specs(v)
        if r.random() < 0.5 and self.budget > 2:
            self.set('init', v, self.gen_expr(1))
        self.vars.append((name, v))
        return self.maybe_loc(v)

    def gen_fun(self, region):
        r = self.rng
        nparams = r.randint(0, 3)
        ptypes = [self.gen_type(1) for _ in range(nparams)]
        ft = self.fun_type(ptypes, self.gen_type(1), throws=r.random() < 0.25)
        name = self.ident() if r.random() < 0.85 else self.new('opname', hexs(r.choice(['+', '()', '<<', 'new']).encode()))
        fd = self.new('fundecl', region, name, ft, chain=region)
        self.specs(fd)
        self.maybe_loc(fd)
        k = r.random()
        saved = list(self.vars)
        if k < 0.7:
            m = self.new('mapping', region)
            for t in ptypes:
                pn = self.ident()
                p = self.new('param', m, pn, t, chain=m)
                self.maybe_loc(p)
                if r.random() < 0.2:
                    self.set('init', p, self.gen_expr(2))
                self.vars.append((pn, p))
            self.set('typing', m, ft)
            body_region = self.new('region', region)
            if r.random() < 0.85:
                body = self.gen_block(body_region, 0)
                if r.random() < 0.1:
                    xl = self.new('xl', *[self.new('member_init', self.new('idexpr', self.ident()), self.gen_expr(2)) for _ in range(r.randint(0, 2))])
                    body = self.maybe_loc(self.new('ctor_body', xl, body))
            else:
                body = self.gen_expr(1)
            self.set('body', m, body)
            self.set('def', fd, m)
        elif k < 0.9:
            pl = self.new('plist', region)
            for t in ptypes:
                p = self.new('plist_param', pl, self.ident(), t, chain=pl)
                self.maybe_loc(p)
            self.set('plist', fd, pl)
        # else: a declaration without parameter data: the printer raises std::logic_error after "name : ("
        self.vars = saved
        return fd

    def gen_class(self, region, depth):
        r = self.rng
        name = self.ident()
        kind = r.choice(['class', 'class', 'union', 'namespace'])
        c = self.new(kind, region, name)
        creg = self.new('udt_region', c)
        if kind == 'class' and self.udts and r.random() < 0.5:
            for _ in range(r.randint(1, 2)):
                b = self.new('base', c, r.choice(self.udts), chain=c)
                self.specs(b, 0.6)
                self.maybe_loc(b)
        saved = list(self.vars)
        for _ in range(r.randint(0, 4)):
            if self.budget < 5:
                break
            k = r.random()
            if k < 0.5:
                self.gen_var(creg, kind='field' if kind != 'namespace' else 'var')
            elif k < 0.6 and kind != 'namespace':
                bf = self.new('bitfield', creg, self.ident(), self.builtin('int'), chain=creg)
                self.set('init', bf, self.gen_expr(3))
                self.maybe_loc(bf)
            elif k < 0.85:
                self.gen_fun(creg)
            elif depth < 2:
                self.gen_typedecl(creg, depth + 1)
            else:
                self.gen_var(creg, kind='var')
        self.vars = saved
        self.udts.append(c)
        return c

    def gen_enum(self, region):
        r = self.rng
        e = self.new('enum', region, self.ident(), r.randint(0, 1))
        for _ in range(r.randint(0, 4)):
            en = self.new('enumerator', e, self.ident(), chain=e)
            if r.random() < 0.4:
                self.set('init', en, self.gen_expr(3))
            self.maybe_loc(en)
        self.udts.append(e)
        return e

    def gen_typedecl(self, region, depth=0):
        r = self.rng
        k = r.random()
        if k < 0.55:
            u = self.gen_class(region, depth)
            meta = {'class': 'class', 'union': 'union', 'namespace': 'namespace'}[self.ops[self.defidx[u]][0].split()[2]]
        elif k < 0.8:
            u = self.gen_enum(region)
            meta = 'enum'
        else:
            u, meta = None, r.choice(['class', 'typename', 'enum'])
        nm = self.ident()
        td = self.new('typedecl', region, nm, self.builtin(meta), chain=region)
        if u is not None and r.random() < 0.9:
            self.set('init', td, u)
        elif u is None and r.random() < 0.3:
            self.set('init', td, self.gen_type(1))
        self.maybe_loc(td)
        return td

    def generate(self):
        r = self.rng
        self.vars = []
        self.udts = []
        top = []
        while self.budget > 4:
            k = r.random()
            if k < 0.30:
                top.append(self.gen_var('g'))
            elif k < 0.62:
                top.append(self.gen_fun('g'))
            elif k < 0.82:
                top.append(self.gen_typedecl('g'))
            elif k < 0.9:
                a = self.new('alias', 'g', self.ident(), self.gen_type() if r.random() < 0.7 else self.literal(), chain='g')
                self.specs(a)
                top.append(self.maybe_loc(a))
            else:
                # a free-standing statement or expression offered through the other routes
                reg = self.new('region', 'g')
                s = self.gen_stmt(reg, 0) if r.random() < 0.6 else self.gen_expr(0)
                self.roots.append((s, r.choice(['stmt', 'expr', 'decl'])))
        self.roots.insert(0, ('gs', 'expr'))               # the translation unit: operator<<(Printer&, const Translation_unit&)
        if top:
            self.roots.append((r.choice(top), r.choice(['decl', 'declsemi', 'stmt'])))
        tys = [v for v, i in self.defidx.items() if self.ops[i][0].split()[2] in ('ptr', 'fun', 'qual', 'array', 'class', 'ref', 'builtin', 'enum')]
        if tys:
            self.roots.append((r.choice(tys), 'type'))

    # -- the two construction histories
    def history_a(self, slot):
        return ['%s %s' % (slot, t) for t, _ in self.ops]

    def history_b(self, slot, rng, fill=None):
        """Same ops in a random topological order, with unrelated allocations interleaved."""
        n = len(self.ops)
        indeg = [len(d) for _, d in self.ops]
        users = [[] for _ in range(n)]
        for i, (_, d) in enumerate(self.ops):
            for j in d:
                users[j].append(i)
        ready = [i for i in range(n) if indeg[i] == 0]
        out = ['%s scramble %d' % (slot, rng.randint(1, 10 ** 6)), '%s junk %d' % (slot, rng.randint(1, 9))]
        if fill is not None:
            # this Lexicon has interned a block's worth of unrelated words: the graph's own words straddle the end of that block
            out.append('%s fill %d' % (slot, fill))
        while ready:
            i = ready.pop(rng.randrange(len(ready)))
            out.append('%s %s' % (slot, self.ops[i][0]))
            if rng.random() < 0.3:
                out.append('%s junk %d' % (slot, rng.randint(1, 6)))
            if rng.random() < 0.03:
                out.append('%s scramble %d' % (slot, rng.randint(1, 10 ** 6)))
            for u in users[i]:
                indeg[u] -= 1
                if indeg[u] == 0:
                    ready.append(u)
        assert len([o for o in out if ' junk ' not in o and ' scramble ' not in o and ' fill ' not in o]) == n
        return out


# ---------------------------------------------------------------------------------------------- oracles on the implementation alone

LOC_RE = re.compile(rb'F\d+:\d+(?::\d+)? ')


def loc_erasure_ok(with_loc, without_loc):
    """The text with locations, minus its location tokens, is the text without — up to the one blank the identifier
    padding inserts where a token would have reset it (theorem C17_loc_erase)."""
    pieces = LOC_RE.split(with_loc)
    pat = b' ?'.join(re.escape(p) for p in pieces)
    return re.fullmatch(pat, without_loc, re.S) is not None


def spellings_of(dump_lines):
    s = set()
    for ln in dump_lines:
        for key in ('str', 'words'):
            v = field(ln, key)
            if v and v not in ('-', 'e'):
                for h in v.split(','):
                    try:
                        s.update(bytes.fromhex(h))
                    except ValueError:
                        pass
    return s


def alphabet_violation(text, allowed_from_graph):
    """First byte that is neither printable ASCII, newline, nor a byte of some spelling of the graph."""
    for i, b in enumerate(text):
        if b == 10 or 32 <= b < 127 or b in allowed_from_graph:
            continue
        return i, b
    return None


# ---------------------------------------------------------------------------------------------- running the probe

class ProbeOutput:
    """Sequential reader over the probe's answer lines, driven by the commands that were sent."""

    def __init__(self, text):
        self.lines = text.splitlines()
        self.i = 0

    def eof(self):
        return self.i >= len(self.lines)

    def next(self):
        if self.i >= len(self.lines):
            return None
        ln = self.lines[self.i]
        self.i += 1
        return ln

    def answer(self, cmd):
        """Answer to one command: a dict with `kind` and the lines (None if the probe died before answering)."""
        w = cmd.split()
        if w[0] == 'dump':
            out = []
            while True:
                ln = self.next()
                if ln is None:
                    return None
                if ln == 'enddump':
                    return {'kind': 'dump', 'lines': out}
                if not ln.startswith('node '):
                    return {'kind': 'error', 'lines': [ln]}
                out.append(ln)
        if w[0] in ('print', 'pos', 'level'):
            ln = self.next()
            if ln is None:
                return None
            if not ln.startswith('text='):
                return {'kind': 'na' if ln == 'n/a' else 'error', 'lines': [ln]}
            fl = self.next()
            if fl is None:
                return None
            return {'kind': 'print', 'line': ln, 'flags_same': fl == '@flags_same=1', 'lines': [ln, fl]}
        ln = self.next()
        if ln is None:
            return None
        if w[0] == 'links':
            return {'kind': 'links' if ln.startswith('links') else 'error', 'lines': [ln]}
        return {'kind': 'ok' if ln in ('ok',) or ln.startswith('dumpeq=') else 'error', 'lines': [ln]}


def program_script(prog, rng, reps=2):
    """Commands for one program: build it twice (histories A and B), then for every root: dump, compare dumps, print with
    fresh printers (with / without locations, twice each, both lexicons), dump again."""
    cmds = ['new A'] + prog.history_a('A') + ['new B'] + prog.history_b('B', rng) + ['links A', 'links B']
    for root, route in prog.roots:
        cmds.append('dump A %s' % root)
        cmds.append('dumpeq A %s B %s' % (root, root))
        for loc in (0, 1):
            for _ in range(reps):
                cmds.append('print A %s %s loc=%d base=10' % (root, route, loc))
            cmds.append('print B %s %s loc=%d base=10' % (root, route, loc))
        cmds.append('dump A %s' % root)
    cmds += ['del A', 'del B']
    return cmds


# freed blocks are reused at once, so that `scramble` decouples address order from allocation order in Lexicon B
PROBE_ENV = {'ASAN_OPTIONS': 'detect_leaks=0:abort_on_error=0:allocator_may_return_null=1:quarantine_size_mb=0:thread_local_quarantine_size_kb=0'}


def split_groups(cmds):
    """Split a flat command list into groups starting at `new A`."""
    groups = []
    for c in cmds:
        if c.startswith('new A') or not groups:
            groups.append([])
        groups[-1].append(c)
    return groups


def run_probe_groups(probe, groups, timeout=1800):
    """Run command groups through the probe. A crash ends the process: the group it died in gets `None` answers from that
    command on (plus the stderr tail), and the remaining groups are run in a fresh process.
    Returns [(answers, crash_info or None)] per group."""
    results = [None] * len(groups)
    start = 0
    while start < len(groups):
        text = '\n'.join(c for g in groups[start:] for c in g) + '\n'
        rc, out, err = C.run_exe(probe, [], text, timeout=timeout, env=PROBE_ENV)
        po = ProbeOutput(out)
        died_at = None
        for gi in range(start, len(groups)):
            answers = []
            crash = None
            for c in groups[gi]:
                a = po.answer(c) if died_at is None else None
                if a is None and died_at is None:
                    died_at = gi
                    crash = 'probe stopped (exit %s) at `%s`\n%s' % (rc, c, err[-2500:])
                answers.append(a)
            results[gi] = (answers, crash)
            if died_at is not None:
                break
        if died_at is None:
            break
        start = died_at + 1
    return results


def judge_group(cmds, answers, crash, names):
    """Statement-level oracles on the implementation's answers for one program.
    Returns (findings, model_requests): findings = [(key, message)], model_requests = [(dump_lines, model_cmd, impl_line, cmd)]."""
    findings = []
    requests = []
    dumps = {}                       # (slot, var) -> dump lines (first one)
    links_before = {}                # slot -> `links` answer before anything was printed
    prints = {}                      # (var, route, opts) -> [(slot, line)]
    requested = set()
    if crash:
        findings.append(('crash', crash))
    for c, a in zip(cmds, answers):
        if a is None:
            break
        w = c.split()
        if a['kind'] == 'error':
            findings.append(('probe-error', '`%s` answered `%s`' % (c, a['lines'][0])))
            continue
        if w[0] == 'dump':
            key = (w[1], w[2])
            if key in dumps:
                if dumps[key] != a['lines']:
                    findings.append(('graph-changed', 'the graph under %s %s is not what it was before printing' % key))
            else:
                dumps[key] = a['lines']
        elif w[0] == 'links':
            # asked before the first print / dump and after the last: reading a graph (printing it, dumping it) changes nothing in it
            if w[1] in links_before:
                if links_before[w[1]] != a['lines']:
                    old, new = links_before[w[1]][0].split(), a['lines'][0].split()
                    diff = [(x, y) for x, y in zip(old, new) if x != y][:3]
                    findings.append(('graph-changed', 'lexicon %s: what the declarations say about their masters / definitions / declaration sets / regions '
                                     'is not what it was before the graph was printed: %s (name:master/definition/|decl_set|/home/lexical)' % (
                                         w[1], '; '.join('%s became %s' % d for d in diff))))
            else:
                links_before[w[1]] = a['lines']
        elif w[0] == 'dumpeq':
            pass
        elif w[0] in ('print', 'pos', 'level') and a['kind'] == 'print':
            slot, var = w[1], w[2]
            opts = ' '.join(w[3:])
            prints.setdefault((var, w[0], opts), []).append((slot, a['line']))
            line = a['line']
            st = field(line, 'status')
            if not a['flags_same']:
                findings.append(('flags', '`%s` changed the stream flags / fill / precision' % c))
            if field(line, 'base') != str(opt_int(w, 'base', 10)) or field(line, 'fill') != str(opt_int(w, 'fill', 32)):
                findings.append(('flags', '`%s` left base=%s fill=%s' % (c, field(line, 'base'), field(line, 'fill'))))
            if st not in ('ok', 'logic'):
                findings.append(('exception', '`%s` ended with %s (neither text nor std::logic_error)' % (c, st)))
            start = opt_int(w, 'ind', 0)
            again = w[0] == 'print' and w[3].startswith('again:')
            if st == 'ok' and field(line, 'indent') != str(start) and not again:
                findings.append(('indent', '`%s` completed and left Printer::indent() = %s (it started at %d)' % (c, field(line, 'indent'), start)))
            if (slot, var) in dumps:
                bad = alphabet_violation(text_of(line), spellings_of(dumps[(slot, var)]))
                if bad:
                    findings.append(('alphabet', '`%s` wrote byte 0x%02x at offset %d, which is neither printable, newline, nor in any spelling of the graph' % (c, bad[1], bad[0])))
            if w[0] in ('pos', 'level') and st == 'ok':
                n = int(w[3])
                base = opt_int(w, 'base', 10)
                digits = {8: '%o', 10: '%d', 16: '%x'}[base] % n
                if not text_of(line).endswith(digits.encode()):
                    findings.append(('decimal', '`%s`: the number %d came out as ...%r, not %s' % (c, n, text_of(line)[-8:], digits)))
            impl_only = w[0] == 'print' and (w[3] == 'unit' or w[3].startswith('again:') or any(x.startswith('ind=') for x in w))
            if slot == 'A' and (slot, var) in dumps and (w[0], var, opts) not in requested and not impl_only:
                requested.add((w[0], var, opts))
                mcmd = ('print n0 %s' % ' '.join(w[3:])) if w[0] == 'print' else ('pos n0 %s' % ' '.join(w[3:]))
                requests.append((dumps[(slot, var)], mcmd, line, c))
    # same text whatever the lexicon, the history, the printer instance
    for (var, kind, opts), lst in prints.items():
        ref_slot, ref = lst[0]
        for slot, line in lst[1:]:
            if line != ref:
                what = 'address-dependence' if slot != ref_slot else 'reprint'
                findings.append((what, '%s %s %s: lexicon %s printed %r ... but lexicon %s printed %r ...' % (
                    kind, var, opts, ref_slot, first_difference(text_of(ref), text_of(line))[0], slot, first_difference(text_of(ref), text_of(line))[1])))
                break
    # locations: only when enabled; erasing them gives the other text (up to the padding blank)
    for (var, kind, opts), lst in prints.items():
        if kind != 'print' or 'loc=1' not in opts.split():
            continue
        other = prints.get((var, kind, opts.replace('loc=1', 'loc=0')))
        if not other:
            continue
        t1, t0 = text_of(lst[0][1]), text_of(other[0][1])
        if LOC_RE.search(t0):
            findings.append(('loc-when-disabled', '%s %s: a location token was printed although print_locations is off: %r' % (var, opts, LOC_RE.search(t0).group(0))))
        elif field(lst[0][1], 'status') == field(other[0][1], 'status') and not loc_erasure_ok(t1, t0):
            findings.append(('loc-erasure', '%s %s: the text with locations minus its location tokens is not the text without' % (var, opts)))
    return findings, requests


def first_difference(a, b):
    i = 0
    while i < min(len(a), len(b)) and a[i] == b[i]:
        i += 1
    lo = max(0, i - 12)
    return a[lo:i + 20], b[lo:i + 20]


def opt_int(ws, key, dflt):
    for x in ws:
        if x.startswith(key + '='):
            return int(x[len(key) + 1:])
    return dflt


def run_model_requests(mode, requests, names):
    """requests: [(dump_lines, model_cmd, ...)] -> list of model answer lines (one per request) and `#` stats lines."""
    inp = []
    last = None
    for r in requests:
        if r[0] is not last:
            inp.append('heap')
            inp += translate_dump(r[0], names)
            last = r[0]
        inp.append(r[1])
    rc, out, err = C.run_model(mode, '\n'.join(inp) + '\n')
    if rc != 0:
        raise C.BuildError('model driver failed: ' + err[-2000:])
    lines, _, stats = C.split_streams(out)
    return lines, stats


_report_lock = threading.Lock()


def first_report(res, key):
    with _report_lock:
        seen = res.__dict__.setdefault('_reported_keys', set())
        if key in seen:
            return False
        seen.add(key)
        return True



# statement-level findings that are violations of C17 itself; the others (stream flags, indentation, alphabet, decimal numbers)
# belong to C18 and show up here only through the correspondence with the model
C17_KEYS = {'crash', 'exception', 'address-dependence', 'reprint', 'graph-changed', 'loc-when-disabled', 'loc-erasure'}


C18_KEYS = {'crash', 'exception', 'flags', 'indent', 'alphabet', 'decimal'}


def check_scripts(res, scripts, names, probe, describe=None, shrink=None, relevant=C17_KEYS):
    """Run command groups, evaluate the oracles and the correspondence. Returns statistics."""
    stats = {'prints': 0, 'status': {}, 'model_compared': 0, 'dumpeq0': 0, 'nlocs': 0}
    results = run_probe_groups(probe, scripts)
    all_requests = []
    for gi, (cmds, (answers, crash)) in enumerate(zip(scripts, results)):
        findings, requests = judge_group(cmds, answers, crash, names)
        for c, a in zip(cmds, answers):
            if a and a['kind'] == 'print':
                stats['prints'] += 1
                s = field(a['line'], 'status')
                stats['status'][s] = stats['status'].get(s, 0) + 1
            if a and c.startswith('dumpeq') and a['lines'][0] == 'dumpeq=0':
                stats['dumpeq0'] += 1
        for key, msg in findings:
            if key == 'probe-error':
                raise C.BuildError('generator / probe protocol error in group %d: %s' % (gi, msg))
        findings = [f for f in findings if f[0] in relevant]
        if findings:
            key, msg = findings[0]
            if first_report(res, key):                 # one replay per kind of finding and run; the rest is counted
                replay = cmds
                if shrink:
                    replay = shrink(gi, key) or cmds
                res.violation(key, msg + ('\n' + describe(gi) if describe else ''), '\n'.join(replay))
            stats.setdefault('findings', {})
            stats['findings'][key] = stats['findings'].get(key, 0) + 1
        else:
            all_requests += [(gi,) + r for r in requests]
    if all_requests:
        lines, mstats = run_model_requests('c17' if res.pid == 'C17' else 'c18', [r[1:] for r in all_requests], names)
        for s in mstats:
            m = re.search(r'nlocs=(\d+)', s)
            if m:
                stats['nlocs'] += int(m.group(1))
        reported = set()
        for (gi, dump, mcmd, impl_line, cmd), ml in zip(all_requests, lines + ['<none>'] * (len(all_requests) - len(lines))):
            stats['model_compared'] += 1
            if impl_line != ml and gi not in reported:
                reported.add(gi)
                stats.setdefault('findings', {})
                stats['findings']['correspondence'] = stats['findings'].get('correspondence', 0) + 1
                if not first_report(res, 'correspondence:printer-text'):
                    continue
                a, b = first_difference(text_of(impl_line), text_of(ml) if ml.startswith('text=') else b'')
                res.violation('correspondence:printer-text',
                              'implementation and model disagree on `%s`\n impl : ...%r  %s\n model: ...%r  %s\n'
                              'the implementation trace itself satisfies the statement-level oracles (same text for both histories and every '
                              'fresh printer, location erasure, flags, alphabet), so the theorems no longer speak about this code'
                              % (cmd, a, impl_line.split(' ', 1)[1], b, ml.split(' ', 1)[1] if ' ' in ml else ml),
                              'correspondence: harness/printprobe.cxx vs lean/IprModel/Printer.lean (theorems IprProps/%s.lean)\n' % res.pid
                              + '\n'.join(scripts[gi]), found_input=False)
    return stats


