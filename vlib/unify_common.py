"""Shared machinery of C01 / C04 / C11 (DESIGN.md §4): configuration read from the sources, an independent
specification-level model of node unification (class Spec: one name per normal form), history generators, the
run / oracle / correspondence / replay driver.

The oracle: Spec files every node under the *documented normal form* of the request that asks for it and names
nodes n<k> by first appearance.  The implementation's answers, named the same way, are equal to Spec's line by line
exactly when  "same node  <=>  equal normal forms"  holds on the implementation's trace (and accessors read back what
was asked).  The first differing line is a concrete failing input.  Independently the implementation's lines are
diffed against the Lean model driver (the definitions the theorems are about)."""
import os, random, re
from . import common as C

PROBE = 'unifyprobe'


# ---------------------------------------------------------------------------------------------- configuration

def candidates():
    """Every u8 string literal of src/impl.cxx and src/builtin.def: the words that could be reserved / name a built-in."""
    out = set()
    for f in ('src/impl.cxx', 'src/builtin.def'):
        src = open(os.path.join(C.REPO, f), encoding='utf-8', errors='replace').read()
        for w in re.findall(r'u8"((?:[^"\\]|\\.)*)"', src):
            if w and '\\' not in w:
                out.add(w.encode())
    return sorted(out)


def load_config(probe=None):
    """The reserved words and the names of the built-in types of the current tree, found **by execution**: a candidate
    literal is reserved iff two Lexicons answer the very same Identifier node for it, and names a built-in iff one of the
    Lexicon's type constants carries it (the probe's `cfgword` / `cfgbuiltin`).  No dependence on how the source spells its tables."""
    probe = probe or C.build_harness(PROBE, 'asan')
    cand = candidates()
    text = ''.join('cfgword %s\ncfgbuiltin %s\n' % (hx(w), hx(w)) for w in cand)
    rc, out, err = C.run_exe(probe, [], text)
    flags = [l for l in out.splitlines() if l.startswith('@reserved=') or l.startswith('@builtin=')]
    if rc != 0 or len(flags) != 2 * len(cand):
        raise C.BuildError('cannot determine the reserved words by execution: ' + err[-1500:])
    words = [w for i, w in enumerate(cand) if flags[2 * i] == '@reserved=1']
    builtins = [w for i, w in enumerate(cand) if flags[2 * i + 1] == '@builtin=1' and flags[2 * i] == '@reserved=1']
    if not words or not builtins:
        raise C.BuildError('no reserved word / built-in name found by execution')
    # hypothesis `Config.Wf` of the C04 theorems (no duplicate, no empty word) holds by construction; the words the
    # model looks up by content must exist
    for w in (b'C', b'C++', b'default', b'this', b'void', b'false', b'true', b'delete', b'nullptr'):
        if w not in words:
            raise C.BuildError('%r is not a reserved word of this tree: the model of get_label / get_this / get_linkage does not apply' % w)
    return words, builtins


def hx(b):
    return b.hex() if b else '-'


def unhx(s):
    return b'' if s == '-' else bytes.fromhex(s)


def cfg_lines(words, builtins):
    return ['cfgword ' + hx(w) for w in words] + ['cfgbuiltin ' + hx(b) for b in builtins if b in words]


# ---------------------------------------------------------------------------------------------- the specification

TYPE_TAGS = {'pointers', 'references', 'refrefs', 'arrays', 'qualifieds', 'functions', 'funXfers', 'products', 'sums',
             'foralls', 'memberPtrs', 'tors', 'extendeds', 'typeRefs', 'typeXfers'}
NAME_TAGS = {'ids', 'ops', 'suffixes', 'convs', 'ctors', 'dtors', 'guideIds', 'templateIds'}
FRESH_TYPE_KINDS = {0, 1, 2, 3, 7, 8, 9}   # class, union, enum, namespace; 7 = a client-built type node at a placed address;
                                          # 8, 9 = the Product node that IS the type of a growing parameter list / class scope (see LIVE_KINDS)
LIVE_KINDS = (8, 9)      # client-grown containers: `fresh 8|9` names the container's own type() node -- a Product the Lexicon never unified,
                         # accepted wherever a Product is (source of a function / forall / tor: compared by node identity) and whose current
                         # element sequence is a LIVE VIEW a client may hand to get_product / get_sum (`product_live`, `sum_live`)
PLACED_SLOTS = 48


class H:
    """A node of the specification: filed under `key` (tag, components...), holding `args`."""
    __slots__ = ('key', 'args')

    def __init__(self, key, args=()):
        self.key, self.args = key, tuple(args)

    @property
    def tag(self):
        return self.key[0]

    def __repr__(self):
        return 'H%r' % (tuple(k if not isinstance(k, H) else '<%s>' % k.key[0] for k in self.key),)


class Refused(Exception):
    pass


class IllSorted(Exception):
    pass


class Spec:
    def __init__(self, words, builtins):
        self.words, self.builtins = set(words), set(builtins)
        self.table = {}          # key -> H   (one node per normal form: the whole specification)
        self.names = []          # n<k> -> H
        self.index = {}          # H -> k
        self.fresh = 0
        self.created = 0         # nodes filed so far (hits = requests - created)
        self.by_tag = {}         # tag -> nodes filed in that table, in order of creation
        self.placed = set()      # placement slots taken by client-built nodes
        self.live = {}           # growing container (its type node) -> the types of its current members
        self.live_made = {}      # growing container -> tables holding a node first made from its live sequence (that node keeps the view)
        self.poisoned = set()    # tables holding a node whose borrowed sequence grew afterwards: what they answer is no longer specified

    # -- statics
    def stat(self, *k):
        key = ('static',) + k
        h = self.table.get(key)
        if h is None:
            h = self.table[key] = H(key)
        return h

    def FALSE(self): return self.stat('false')
    def NATURAL_XFER(self): return self.stat('naturalxfer')
    def NATURAL_CC(self): return self.stat('naturalcc')
    def CXX(self): return self.stat('link', b'C++')
    def CLINK(self): return self.stat('link', b'C')

    # -- sorts (what the C++ signatures accept)
    def is_type(self, h):
        t = h.tag
        return t in TYPE_TAGS or (t == 'static' and h.key[1] in ('builtin', 'nullptr_t')) or (t == 'fresh' and h.key[2] in FRESH_TYPE_KINDS)

    def is_expr(self, h):
        t = h.tag
        return self.is_type(h) or t in ('lits', 'symbols') or (t == 'static' and h.key[1] in ('false', 'true', 'default', 'delete', 'nullptr')) \
            or (t == 'fresh' and h.key[2] in (4, 5, 6))

    def is_name(self, h): return h.tag in NAME_TAGS or (h.tag == 'static' and h.key[1] == 'ident')
    def is_ident(self, h): return h.tag == 'ids' or (h.tag == 'static' and h.key[1] == 'ident')
    def is_string(self, h): return h.tag == 'strings' or (h.tag == 'static' and h.key[1] in ('str', 'emptystr'))
    def is_logo(self, h): return h.tag == 'logos' or (h.tag == 'static' and h.key[1] in ('logo', 'invislogo'))
    def is_link(self, h): return h.tag == 'linkages' or (h.tag == 'static' and h.key[1] == 'link')
    def is_cc(self, h): return h.tag == 'conventions' or (h.tag == 'static' and h.key[1] == 'naturalcc')
    def is_xfer(self, h): return h.tag in ('xferLinks', 'xferCCs', 'xfers') or (h.tag == 'static' and h.key[1] == 'naturalxfer')
    def is_live(self, h): return h.tag == 'fresh' and h.key[2] in LIVE_KINDS
    def is_product(self, h): return h.tag == 'products' or self.is_live(h)
    def is_node(self, h): return not (self.is_logo(h) or self.is_link(h) or self.is_cc(h) or self.is_xfer(h) or h.tag == 'typeSeqs')

    def want(self, pred, h):
        if not pred(h):
            raise IllSorted()
        return h

    # -- reading nodes back
    def content(self, s):
        if s.tag == 'strings': return s.key[1]
        if s.key[1] == 'emptystr': return b''
        return s.key[2]

    def spelling(self, h):
        """identifier / logogram / linkage / calling convention -> spelling."""
        if h.tag == 'static':
            return h.key[2] if len(h.key) > 2 else b''       # invislogo, naturalcc -> ''
        return h.key[1]

    def xfer_value(self, x):
        if x.tag == 'static': return (b'C++', b'')
        if x.tag == 'xferLinks': return (x.key[1], b'')
        if x.tag == 'xferCCs': return (b'C++', x.key[1])
        return (x.key[1], x.key[2])

    # -- filing
    def intern(self, key, args=()):
        h = self.table.get(key)
        if h is None:
            h = self.table[key] = H(key, args)
            self.created += 1
            self.by_tag.setdefault(key[0], []).append(h)
        return h

    def string(self, w):
        if not w: return self.stat('emptystr')
        if w in self.words: return self.stat('str', w)
        return self.intern(('strings', w))

    def identifier(self, w):
        if w in self.words: return self.stat('ident', w)
        return self.intern(('ids', w), (self.string(w),))

    def logogram(self, w):
        if not w: return self.stat('invislogo')
        if w in self.words: return self.stat('logo', w)
        return self.intern(('logos', w), (self.string(w),))

    def linkage(self, w):
        if w == b'C': return self.CLINK()
        if w == b'C++': return self.CXX()
        return self.intern(('linkages', w), (self.logogram(w),))

    def function(self, s, t, e, x):
        self.want(self.is_product, s); self.want(self.is_type, t)
        e = self.FALSE() if e is None else self.want(self.is_expr, e)       # omitted throws = the `false` constant
        if x is not None:
            self.want(self.is_xfer, x)
            v = self.xfer_value(x)
            if v != (b'C++', b''):                                           # natural C++ transfer collapses
                return self.intern(('funXfers', s, t, e, v[0], v[1]), (s, t, e, x))
        return self.intern(('functions', s, t, e), (s, t, e))

    def symbol(self, n, t):
        return self.intern(('symbols', self.want(self.is_name, n), self.want(self.is_type, t)), (n, t))

    def request(self, op, a):
        """The node a request must answer (Refused: the request must be refused)."""
        T, E = self.is_type, self.is_expr
        w = self.want
        if op == 'pointer': return self.intern(('pointers', w(T, a[0])), a)
        if op == 'reference': return self.intern(('references', w(T, a[0])), a)
        if op == 'rvalue_reference': return self.intern(('refrefs', w(T, a[0])), a)
        if op == 'array': return self.intern(('arrays', w(T, a[0]), w(E, a[1])), a)
        if op == 'qualified':
            q, t = a[0], w(T, a[1])
            if q == 0: raise Refused()
            if t.tag == 'qualifieds':                      # Qualified(cv2, Qualified(cv1, T)) = Qualified(cv1 | cv2, T)
                q, t = q | t.key[1], t.key[2]
            return self.intern(('qualifieds', q, t), (t,))
        if op == 'function': return self.function(a[0], a[1], None, None)
        if op == 'function_x': return self.function(a[0], a[1], None, a[2])
        if op == 'function_e': return self.function(a[0], a[1], a[2], None)
        if op == 'function_ex': return self.function(a[0], a[1], a[2], a[3])
        if op in ('product_seq', 'product_wh', 'sum_seq', 'sum_wh'):
            for t in a: w(T, t)
            tag = 'products' if op.startswith('product') else 'sums'
            if tag in self.poisoned: raise IllSorted()
            if op.endswith('_wh'):
                seq = self.intern(('typeSeqs',) + tuple(a), a)
                return self.intern((tag,) + tuple(a), (seq,))
            return self.intern((tag,) + tuple(a), ())
        if op in ('product_live', 'sum_live'):
            # the sequence handed over is the container's own: its current members' types (the op line repeats them; the probe checks)
            L, ts = w(self.is_live, a[0]), list(a[1:])
            tag = 'products' if op.startswith('product') else 'sums'
            if self.live[L] != ts or tag in self.poisoned: raise IllSorted()
            before = self.created
            r = self.intern((tag,) + tuple(ts), ())
            if self.created > before: self.live_made.setdefault(L, []).append(tag)      # that node keeps referring to the live sequence
            return r
        if op == 'forall': return self.intern(('foralls', w(self.is_product, a[0]), w(T, a[1])), a)
        if op == 'ptr_to_member': return self.intern(('memberPtrs', w(T, a[0]), w(T, a[1])), a)
        if op == 'tor': return self.intern(('tors', w(self.is_product, a[0]), w(lambda h: h.tag == 'sums', a[1])), a)
        if op == 'as_type_id':
            i = w(self.is_ident, a[0])
            if i.tag == 'static' and i.key[2] in self.builtins: return self.stat('builtin', i.key[2])
            return self.intern(('extendeds', i), a)
        if op == 'as_type_expr': return self.intern(('typeRefs', w(E, a[0])), a)
        if op == 'as_type_x':
            e, x = w(E, a[0]), w(self.is_xfer, a[1])
            v = self.xfer_value(x)
            if v == (b'C++', b''): return self.intern(('typeRefs', e), (e,))
            return self.intern(('typeXfers', e, v[0], v[1]), a)
        if op == 'transfer':
            l, c = w(self.is_link, a[0]), w(self.is_cc, a[1])
            ls, cs = self.spelling(l), self.spelling(c)
            if ls == b'C++': return self.intern(('xferCCs', cs), (c,))
            if cs == b'': return self.intern(('xferLinks', ls), (l,))
            return self.intern(('xfers', ls, cs), (l, c))
        if op == 'transfer_l': return self.intern(('xferLinks', self.spelling(w(self.is_link, a[0]))), a)
        if op == 'transfer_c': return self.intern(('xferCCs', self.spelling(w(self.is_cc, a[0]))), a)
        if op == 'string': return self.string(a[0])
        if op == 'identifier_s': return self.identifier(self.content(w(self.is_string, a[0])))
        if op == 'identifier_w': return self.identifier(a[0])
        if op == 'operator_s': return self.intern(('ops', self.content(w(self.is_string, a[0]))), a)
        if op == 'operator_w': return self.intern(('ops', a[0]), (self.string(a[0]),))
        if op == 'suffix': return self.intern(('suffixes', w(self.is_ident, a[0])), a)
        if op == 'conversion': return self.intern(('convs', w(T, a[0])), a)
        if op == 'ctor': return self.intern(('ctors', w(T, a[0])), a)
        if op == 'dtor': return self.intern(('dtors', w(T, a[0])), a)
        if op == 'guide_name': return self.intern(('guideIds', w(lambda h: h.tag == 'fresh' and h.key[2] == 5, a[0])), a)
        if op == 'logogram': return self.logogram(self.content(w(self.is_string, a[0])))
        if op == 'template_id':
            return self.intern(('templateIds', w(E, a[0]), w(lambda h: h.tag == 'fresh' and h.key[2] == 4, a[1])), a)
        if op == 'symbol': return self.symbol(a[0], a[1])
        if op == 'label':
            i = w(self.is_ident, a[0])
            if i is self.stat('ident', b'default'): return self.stat('default')
            return self.symbol(i, self.stat('builtin', b'void'))
        if op == 'this': return self.symbol(self.stat('ident', b'this'), w(T, a[0]))
        if op == 'literal_s': return self.intern(('lits', w(T, a[0]), self.content(w(self.is_string, a[1]))), a)
        if op == 'literal_w': return self.intern(('lits', w(T, a[0]), a[1]), (a[0], self.string(a[1])))
        if op == 'linkage_w': return self.linkage(a[0])
        if op == 'linkage_s': return self.linkage(self.content(w(self.is_string, a[0])))
        if op == 'calling_convention': return self.intern(('conventions', a[0]), (self.logogram(a[0]),))
        if op == 'fresh':
            kind = a[0]
            if kind == 5:
                w(self.is_name, a[1]); w(lambda h: h.tag == 'foralls', a[2])
            self.fresh += 1
            r = self.intern(('fresh', self.fresh, kind), ())
            if kind in LIVE_KINDS: self.live[r] = []
            return r
        if op == 'placed':
            # a client-built type node (named by an Identifier) at a chosen address: an ordinary, distinct operand
            w(self.is_ident, a[1])
            if not 0 <= a[0] < PLACED_SLOTS or a[0] in self.placed: raise IllSorted()
            self.placed.add(a[0])
            self.fresh += 1
            return self.intern(('fresh', self.fresh, 7), ())
        if op == 'unit': return self.identifier(b'')
        if op == 'builtin':
            if a[0] not in self.builtins: raise IllSorted()
            return self.stat('builtin', a[0])
        if op == 'const': return self.stat(a[0])
        if op == 'cxx_linkage': return self.CXX()
        if op == 'c_linkage': return self.CLINK()
        if op == 'cxx_transfer': return self.NATURAL_XFER()
        raise IllSorted()

    CONST_NAME = {'false': b'false', 'true': b'true', 'default': b'default', 'delete': b'delete', 'nullptr': b'nullptr'}

    def observe(self, op, a):
        """Accessors: a node, a scalar string, or None for '-'."""
        w = self.want
        if op == 'main_variant':
            t = w(self.is_type, a[0]); return t.key[2] if t.tag == 'qualifieds' else None
        if op == 'qualifiers':
            t = w(self.is_type, a[0]); return str(t.key[1]) if t.tag == 'qualifieds' else None
        if op == 'name_of':
            x = w(self.is_node, a[0])
            if x.tag == 'symbols': return x.key[1]
            if x.tag == 'static' and x.key[1] in self.CONST_NAME: return self.stat('ident', self.CONST_NAME[x.key[1]])
            if x.tag == 'static' and x.key[1] == 'builtin': return self.stat('ident', x.key[2])
            if x.tag == 'extendeds': return x.key[1]
            raise IllSorted()                                  # (composite types name themselves: not compared)
        if op == 'string_of': return self.string(self.spelling(w(self.is_ident, a[0])))
        if op == 'chars': return '=' + hx(self.content(w(self.is_string, a[0])))
        if op == 'what': return self.string(self.spelling(w(self.is_logo, a[0])))
        if op == 'language': return self.logogram(self.spelling(w(self.is_link, a[0])))
        if op == 'cc_name': return self.logogram(self.spelling(w(self.is_cc, a[0])))
        if op == 'xfer_linkage':
            x = w(self.is_xfer, a[0])
            if x.tag in ('xferLinks', 'xfers'): return x.args[0]
            return self.CXX()
        if op == 'xfer_convention':
            x = w(self.is_xfer, a[0])
            if x.tag == 'xferCCs': return x.args[0]
            if x.tag == 'xfers': return x.args[1]
            return self.NATURAL_CC()
        if op == 'eq_logo': return '1' if self.spelling(w(self.is_logo, a[0])) == self.spelling(w(self.is_logo, a[1])) else '0'
        if op == 'eq_link': return '1' if self.spelling(w(self.is_link, a[0])) == self.spelling(w(self.is_link, a[1])) else '0'
        if op == 'eq_cc': return '1' if self.spelling(w(self.is_cc, a[0])) == self.spelling(w(self.is_cc, a[1])) else '0'
        if op == 'eq_xfer': return '1' if self.xfer_value(w(self.is_xfer, a[0])) == self.xfer_value(w(self.is_xfer, a[1])) else '0'
        raise IllSorted()

    OBS = {'main_variant', 'qualifiers', 'name_of', 'string_of', 'chars', 'what', 'language', 'cc_name', 'xfer_linkage',
           'xfer_convention', 'eq_logo', 'eq_link', 'eq_cc', 'eq_xfer'}
    WORD_ARG = {'string': (0,), 'identifier_w': (0,), 'operator_w': (0,), 'literal_w': (1,), 'linkage_w': (0,),
                'calling_convention': (0,), 'builtin': (0,)}
    INT_ARG = {'qualified': (0,), 'fresh': (0,), 'placed': (0,)}
    RAW_ARG = {'const': (0,)}

    def name(self, h):
        k = self.index.get(h)
        if k is None:
            k = self.index[h] = len(self.names)
            self.names.append(h)
        return 'n%d' % k

    def parse(self, line):
        """Text op -> (op, args) with names resolved to specification nodes."""
        ws = line.split()
        op, toks = ws[0], ws[1:]
        args = []
        for i, t in enumerate(toks):
            if i in self.WORD_ARG.get(op, ()): args.append(unhx(t))
            elif i in self.INT_ARG.get(op, ()): args.append(int(t))
            elif i in self.RAW_ARG.get(op, ()): args.append(t)
            else:
                if not t.startswith('n') or int(t[1:]) >= len(self.names): raise IllSorted()
                args.append(self.names[int(t[1:])])
        return op, args

    def step(self, line):
        """What the specification requires the implementation to print for this op line."""
        if line in ('new', 'renew', 'stat') or line.startswith('cfg') or re.fullmatch(r'lexicon \d', line):
            return 'ok' if line != 'stat' else None
        if line.startswith('tree '):
            if line.split()[1] in self.poisoned: return 'bad-op'
            hs = self.by_tag.get(line.split()[1], [])
            named = sorted(self.index[h] for h in hs if h in self.index)
            return 'size=%d nodes=%d named=%s' % (len(hs), len(hs), ','.join('n%d' % k for k in named) if named else '-')
        try:
            op, args = self.parse(line)
            if op == 'xgrow':
                # an argument appended to an expression list: lists are operands by identity, so no key changes
                if len(args) != 2: raise IllSorted()
                self.want(lambda h: h.tag == 'fresh' and h.key[2] == 4, args[0]); self.want(self.is_expr, args[1])
                return 'ok'
            if op == 'grow':
                # one more member (name, type) at the end of a growing container.  A node of a unification table that was first made from
                # this container's live sequence has borrowed it: from now on that table holds a node filed under a key it no longer
                # has, and nothing is specified about that table any more (other tables, and the node as an operand, are unaffected)
                L = self.want(self.is_live, args[0]); self.want(self.is_name, args[1]); t = self.want(self.is_type, args[2])
                if len(args) != 3: raise IllSorted()
                self.poisoned.update(self.live_made.get(L, ()))
                self.live[L].append(t)
                return 'ok'
            if op in self.OBS:
                r = self.observe(op, args)
                return '-' if r is None else (r if isinstance(r, str) else self.name(r))
            return self.name(self.request(op, args))
        except Refused:
            return '!L'
        except (IllSorted, IndexError, ValueError, KeyError):
            return 'bad-op'


# ---------------------------------------------------------------------------------------------- generation

def near_misses(words, rng, n):
    out = []
    ws = list(words)
    for _ in range(n):
        w = rng.choice(ws)
        k = rng.randrange(4)
        if k == 0 and len(w) > 1: out.append(w[:rng.randrange(1, len(w))])
        elif k == 1: out.append(w + bytes([rng.choice(b'_sx1 ')]))
        elif k == 2:
            i = rng.randrange(len(w)); out.append(w[:i] + bytes([(w[i] + 1) % 256]) + w[i + 1:])
        else: out.append(w.upper() if w.upper() != w else w + w)
    return out


class Gen:
    """Builds one history against a Spec run in prediction mode; keeps pools of already named nodes by sort."""

    def __init__(self, words, builtins, rng, profile):
        self.words, self.builtins, self.rng, self.profile = words, builtins, rng, profile
        self.spec = Spec(words, builtins)
        self.lines, self.expect = [], []
        self.pool = {k: [] for k in ('type', 'product', 'sum', 'forall', 'expr', 'name', 'ident', 'string', 'logo', 'link', 'cc',
                                     'xfer', 'xlist', 'template', 'unqual', 'live')}
        self.seen = set()
        self.requests = []          # (op, args) of every unification request emitted (for repeats)
        self.spellings = []
        self.stats = {}
        self.misses = near_misses(words, rng, 200)
        self.started = False

    def classify(self, h):
        if h in self.seen: return
        self.seen.add(h)
        s, p = self.spec, self.pool
        if s.is_type(h):
            p['type'].append(h)
            if h.tag != 'qualifieds': p['unqual'].append(h)
        if s.is_product(h): p['product'].append(h)
        if s.is_live(h): p['live'].append(h)
        if h.tag == 'sums': p['sum'].append(h)
        if h.tag == 'foralls': p['forall'].append(h)
        if s.is_expr(h): p['expr'].append(h)
        if s.is_name(h): p['name'].append(h)
        if s.is_ident(h): p['ident'].append(h)
        if s.is_string(h): p['string'].append(h)
        if s.is_logo(h): p['logo'].append(h)
        if s.is_link(h): p['link'].append(h)
        if s.is_cc(h): p['cc'].append(h)
        if s.is_xfer(h): p['xfer'].append(h)
        if h.tag == 'fresh' and h.key[2] == 4: p['xlist'].append(h)
        if h.tag == 'fresh' and h.key[2] == 5: p['template'].append(h)

    def text(self, op, args):
        toks = [op]
        for i, a in enumerate(args):
            if isinstance(a, H): toks.append(self.spec.name(a))
            elif isinstance(a, bytes): toks.append(hx(a))
            else: toks.append(str(a))
        return ' '.join(toks)

    def emit(self, op, args, remember=True):
        """Emit one op (operands must already have names); returns the node the specification answers (or None)."""
        for a in args:
            if isinstance(a, H) and a not in self.spec.index:
                return None
        line = self.text(op, args)
        before = self.spec.created
        out = self.spec.step(line)
        if out == 'bad-op':
            return None            # an ill-sorted draw: not emitted
        self.lines.append(line)
        self.expect.append(out)
        self.stats[op] = self.stats.get(op, 0) + 1
        if op not in Spec.OBS:
            self.stats['_requests'] = self.stats.get('_requests', 0) + 1
            if self.spec.created == before and op not in ('builtin', 'const', 'cxx_linkage', 'c_linkage', 'cxx_transfer', 'grow', 'xgrow'):
                self.stats['_hits'] = self.stats.get('_hits', 0) + 1
        h = None
        if out.startswith('n'):
            h = self.spec.names[int(out[1:])]
            self.classify(h)
        if remember and op not in Spec.OBS and op not in ('fresh', 'placed', 'grow', 'xgrow', 'unit', 'builtin', 'const', 'cxx_linkage', 'c_linkage', 'cxx_transfer'):
            self.requests.append((op, list(args)))
        return h

    # -- drawing operands
    def pick(self, sort):
        p = self.pool[sort]
        if not p: return None
        r = self.rng.random()
        if r < 0.35: return p[self.rng.randrange(max(0, len(p) - 12), len(p))]       # recent
        if r < 0.55: return p[self.rng.randrange(min(len(p), 16))]                    # old: built-ins and first nodes
        return self.rng.choice(p)

    def word(self):
        r = self.rng.random()
        if r < 0.30 and self.spellings: return self.rng.choice(self.spellings)
        if r < 0.50: return self.rng.choice(self.words)
        if r < 0.62: return self.rng.choice(self.misses)
        if r < 0.66: return b''
        if r < 0.72: return bytes(self.rng.randrange(256) for _ in range(self.rng.randint(1, 5)))
        w = bytes(self.rng.choice(b'abcdefghijklmnopqrstuvwxyz_') for _ in range(self.rng.randint(1, 6)))
        self.spellings.append(w)
        return w

    def seq(self):
        """A type sequence of length 0..6, often sharing a long prefix with an earlier one."""
        prods = [r for r in self.requests[-200:] if r[0] in ('product_seq', 'product_wh', 'sum_seq', 'sum_wh')]
        if prods and self.rng.random() < 0.6:
            base = list(self.rng.choice(prods)[1])
            k = self.rng.randrange(4)
            if k == 0 and base: base = base[:-1]
            elif k == 1 and len(base) < 6: base = base + [self.pick('type')]
            elif k == 2 and base: base[-1] = self.pick('type')
            elif k == 3 and base: base[self.rng.randrange(len(base))] = self.pick('type')
            self.stats['_shared_prefix_seqs'] = self.stats.get('_shared_prefix_seqs', 0) + 1
            return base
        return [self.pick('type') for _ in range(self.rng.choice([0, 1, 1, 2, 2, 3, 3, 4, 5, 6]))]

    def natural_xfer(self):
        """The natural C++ transfer, obtained one of several ways."""
        k = self.rng.randrange(4)
        if k == 0: return self.emit('cxx_transfer', [], False)
        if k == 1:
            l = self.emit('cxx_linkage', [], False)
            return self.emit('transfer_l', [l])
        if k == 2:
            c = self.emit('calling_convention', [b''])
            l = self.emit('linkage_w', [b'C++'])
            return self.emit('transfer', [l, c])
        x = self.emit('cxx_transfer', [], False)
        c = self.emit('xfer_convention', [x], False)
        return self.emit('transfer_c', [c])

    # -- one new request of a given kind
    def new_request(self, op):
        P = self.pick
        if op in ('pointer', 'reference', 'rvalue_reference', 'conversion', 'ctor', 'dtor', 'this'): return self.emit(op, [P('type')])
        if op == 'array': return self.emit(op, [P('type'), P('expr')])
        if op == 'qualified':
            # mostly the three standard coordinates; one request in six carries coordinates beyond them (up to bit 63), alone or mixed
            q = self.rng.randrange(1, 8)
            if self.rng.random() < 0.17:
                q = self.rng.choice([1 << 3, 1 << 31, 1 << 32, 1 << 40, 1 << 63, (1 << 32) | q, (1 << 63) | (1 << 31) | q, (1 << 40) | q])
            return self.emit(op, [q, P('type')])
        if op == 'function': return self.emit(op, [P('product'), P('type')])
        if op == 'function_x': return self.emit(op, [P('product'), P('type'), P('xfer')])
        if op == 'function_e': return self.emit(op, [P('product'), P('type'), P('expr')])
        if op == 'function_ex': return self.emit(op, [P('product'), P('type'), P('expr'), P('xfer')])
        if op in ('product_seq', 'product_wh', 'sum_seq', 'sum_wh'): return self.emit(op, self.seq())
        if op == 'forall': return self.emit(op, [P('product'), P('type')])
        if op == 'ptr_to_member': return self.emit(op, [P('type'), P('type')])
        if op == 'tor': return self.emit(op, [P('product'), P('sum')])
        if op == 'as_type_id': return self.emit(op, [P('ident')])
        if op == 'as_type_expr': return self.emit(op, [P('expr')])
        if op == 'as_type_x': return self.emit(op, [P('expr'), P('xfer')])
        if op == 'transfer': return self.emit(op, [P('link'), P('cc')])
        if op == 'transfer_l': return self.emit(op, [P('link')])
        if op == 'transfer_c': return self.emit(op, [P('cc')])
        if op in ('string', 'identifier_w', 'operator_w', 'linkage_w', 'calling_convention'): return self.emit(op, [self.word()])
        if op in ('identifier_s', 'operator_s', 'logogram', 'linkage_s'): return self.emit(op, [P('string')])
        if op in ('suffix', 'label'): return self.emit(op, [P('ident')])
        if op == 'guide_name': return self.emit(op, [P('template')])
        if op == 'template_id': return self.emit(op, [P('expr'), P('xlist')])
        if op == 'symbol': return self.emit(op, [P('name'), P('type')])
        if op == 'literal_s': return self.emit(op, [P('type'), P('string')])
        if op == 'literal_w': return self.emit(op, [P('type'), self.word()])
        if op == 'fresh':
            k = self.rng.choice([0, 0, 1, 2, 3, 4, 4, 5, 6, 8, 8, 9])
            if k == 5: return self.emit(op, [5, P('name'), P('forall')])
            return self.emit(op, [k])
        if op == 'grow':
            # only containers whose live sequence no table node has borrowed yet (growth after that is `live_tail`'s business)
            free = [l for l in self.pool['live'] if not self.spec.live_made.get(l) and len(self.spec.live[l]) < 6]
            if not free: return self.emit('fresh', [self.rng.choice([8, 9])])
            self.emit('grow', [self.rng.choice(free[-6:]), P('name'), P('type')], False)
            return None
        if op in ('product_live', 'sum_live'):
            if not self.pool['live']: return None
            l = self.rng.choice(self.pool['live'][-8:])
            return self.emit(op, [l] + list(self.spec.live[l]))
        return None

    # -- ask again for an earlier key, possibly through an alternative spelling
    def repeat(self):
        if not self.requests: return None
        r = self.rng.random()
        i = self.rng.randrange(len(self.requests)) if r < 0.5 else self.rng.randrange(max(0, len(self.requests) - 40), len(self.requests))
        op, a = self.requests[i]
        if self.rng.random() < 0.5:
            return self.emit(op, a, False)
        self.stats['_alternative_spellings'] = self.stats.get('_alternative_spellings', 0) + 1
        s = self.spec
        FALSE = lambda: self.emit('const', ['false'], False)
        if op in ('function', 'function_x', 'function_e', 'function_ex'):
            sq, t = a[0], a[1]
            e = a[2] if op in ('function_e', 'function_ex') else None
            x = a[3] if op == 'function_ex' else (a[2] if op == 'function_x' else None)
            if e is None or e is s.FALSE():
                e = FALSE() if self.rng.random() < 0.5 else None                      # explicit `false` <-> omitted
            if x is None or s.xfer_value(x) == (b'C++', b''):
                x = self.natural_xfer() if self.rng.random() < 0.6 else None          # explicit natural transfer <-> omitted
            if e is None and x is None: return self.emit('function', [sq, t], False)
            if e is None: return self.emit('function_x', [sq, t, x], False)
            if x is None: return self.emit('function_e', [sq, t, e], False)
            return self.emit('function_ex', [sq, t, e, x], False)
        swap = {'product_seq': 'product_wh', 'product_wh': 'product_seq', 'sum_seq': 'sum_wh', 'sum_wh': 'sum_seq'}
        if op in swap: return self.emit(swap[op], a, False)
        if op in ('product_live', 'sum_live'):              # the same member types from a sequence / a Warehouse of the client's
            return self.emit(op.split('_')[0] + self.rng.choice(['_seq', '_wh']), a[1:], False)
        if op in ('identifier_w', 'operator_w', 'linkage_w'):
            st = self.emit('string', [a[0]], False)
            return self.emit(op[:-1] + 's', [st], False)
        if op in ('identifier_s', 'operator_s', 'linkage_s'): return self.emit(op[:-1] + 'w', [s.content(a[0])], False)
        if op == 'literal_w':
            st = self.emit('string', [a[1]], False)
            return self.emit('literal_s', [a[0], st], False)
        if op == 'literal_s': return self.emit('literal_w', [a[0], s.content(a[1])], False)
        if op == 'as_type_expr': return self.emit('as_type_x', [a[0], self.natural_xfer()], False)
        if op == 'as_type_x' and s.xfer_value(a[1]) == (b'C++', b''): return self.emit('as_type_expr', [a[0]], False)
        if op == 'qualified':
            q, t = a
            if t.tag != 'qualifieds' and bin(q).count('1') >= 2:                      # the same set in two successive steps
                bits = [b for b in (1, 2, 4) if q & b]
                self.rng.shuffle(bits)
                q1 = bits[0]
                r1 = self.emit('qualified', [q1, t], False)
                return self.emit('qualified', [q & ~q1 if self.rng.random() < 0.5 else q, r1], False)
            return self.emit('qualified', [q, t], False)
        if op == 'this':
            i = self.emit('identifier_w', [b'this'], False)
            return self.emit('symbol', [i, a[0]], False)
        if op == 'label' and a[0] is not s.stat('ident', b'default'):
            v = self.emit('builtin', [b'void'], False)
            return self.emit('symbol', [a[0], v], False)
        if op == 'transfer':
            l, c = a
            if s.spelling(l) == b'C++': return self.emit('transfer_c', [c], False)
            if s.spelling(c) == b'': return self.emit('transfer_l', [l], False)
        if op == 'calling_convention' or op == 'string': return self.emit(op, a, False)
        if op == 'logogram': return self.emit('logogram', [self.emit('string', [s.content(a[0])], False)], False)
        return self.emit(op, a, False)

    def sort_of(self, h):
        s = self.spec
        for sort, pred in (('xfer', s.is_xfer), ('cc', s.is_cc), ('link', s.is_link), ('logo', s.is_logo), ('string', s.is_string),
                           ('product', s.is_product), ('sum', lambda x: x.tag == 'sums'),
                           ('forall', lambda x: x.tag == 'foralls'), ('ident', s.is_ident), ('name', s.is_name),
                           ('xlist', lambda x: x.tag == 'fresh' and x.key[2] == 4), ('template', lambda x: x.tag == 'fresh' and x.key[2] == 5),
                           ('type', s.is_type), ('expr', s.is_expr)):
            if pred(h): return sort
        return None

    def near_miss(self):
        """An earlier request with exactly one argument changed: must be answered with a *different* node."""
        if not self.requests: return None
        op, a = self.requests[self.rng.randrange(len(self.requests))]
        a = list(a)
        if not a:
            return None
        i = self.rng.randrange(len(a))
        x = a[i]
        s = self.spec
        if isinstance(x, H):
            sort = self.sort_of(x)
            if sort is None: return None
            y = None
            if sort == 'xfer' and self.rng.random() < 0.7:
                # a transfer that differs in one component only
                v = s.xfer_value(x)
                cand = [o for o in self.pool['xfer'] if o is not x and (s.xfer_value(o)[0] == v[0]) != (s.xfer_value(o)[1] == v[1])]
                if cand: y = self.rng.choice(cand)
            if sort == 'type' and x.tag == 'qualifieds' and self.rng.random() < 0.5:
                y = x.key[2]                                   # the main variant instead of the qualified type
            if y is None: y = self.pick(sort)
            a[i] = y
        elif isinstance(x, bytes):
            k = self.rng.randrange(3)
            a[i] = x + b'_' if k == 0 else (x[:-1] if k == 1 and x else self.word())
        elif isinstance(x, int) and op == 'qualified':
            a[i] = self.rng.choice([q for q in range(1, 8) if q != x])
        else:
            return None
        if op in ('product_seq', 'product_wh', 'sum_seq', 'sum_wh') and self.rng.random() < 0.4:
            a = a[:-1] if self.rng.random() < 0.5 else a + [self.pick('type')]     # a proper prefix / extension
        self.stats['_near_miss_requests'] = self.stats.get('_near_miss_requests', 0) + 1
        return self.emit(op, a)

    def observe_some(self, h):
        s = self.spec
        if h is None: return
        if s.is_type(h) and h.tag == 'qualifieds':
            self.emit('main_variant', [h]); self.emit('qualifiers', [h])
        elif h.tag == 'symbols' or (h.tag == 'static' and h.key[1] in ('builtin', 'false', 'true', 'default', 'delete', 'nullptr')):
            n = self.emit('name_of', [h])
            if n is not None and s.is_ident(n):
                st = self.emit('string_of', [n])
                if st is not None: self.emit('chars', [st])
        elif s.is_ident(h):
            st = self.emit('string_of', [h])
            if st is not None: self.emit('chars', [st])
        elif s.is_link(h):
            lg = self.emit('language', [h])
            if lg is not None: self.emit('what', [lg])
            o = self.pick('link')
            if o is not None: self.emit('eq_link', [h, o])
        elif s.is_cc(h):
            self.emit('cc_name', [h])
            o = self.pick('cc')
            if o is not None: self.emit('eq_cc', [h, o])
        elif s.is_xfer(h):
            self.emit('xfer_linkage', [h]); self.emit('xfer_convention', [h])
            o = self.pick('xfer')
            if o is not None: self.emit('eq_xfer', [h, o]); self.emit('eq_xfer', [o, h])
        elif s.is_logo(h):
            o = self.pick('logo')
            if o is not None: self.emit('eq_logo', [h, o])
        elif s.is_string(h):
            self.emit('chars', [h])

    WEIGHTS = {
        'C01': dict(pointer=8, reference=5, rvalue_reference=4, array=5, qualified=8, function=6, function_x=4, function_e=5,
                    function_ex=6, product_seq=8, product_wh=7, sum_seq=4, sum_wh=4, forall=3, ptr_to_member=4, tor=3,
                    as_type_id=3, as_type_expr=4, as_type_x=4, transfer=5, transfer_l=2, transfer_c=2,
                    identifier_w=3, literal_w=3, linkage_w=3, calling_convention=3, symbol=1, fresh=4, string=1,
                    grow=3, product_live=2, sum_live=1),
        'C04': dict(string=6, identifier_s=6, identifier_w=10, operator_s=3, operator_w=5, suffix=4, conversion=5, ctor=4, dtor=4,
                    guide_name=3, logogram=5, template_id=5, symbol=7, label=5, this=5, literal_s=4, literal_w=6, linkage_w=6,
                    linkage_s=4, calling_convention=6, transfer=4, transfer_l=2, transfer_c=2, as_type_id=4,
                    pointer=4, qualified=2, product_seq=2, forall=2, function=1, fresh=5),
        'C11': dict(qualified=40, pointer=6, reference=3, array=3, product_seq=3, function=3, sum_seq=2, ptr_to_member=2,
                    as_type_expr=2, as_type_id=2, identifier_w=2, literal_w=2, fresh=4, forall=2, tor=1,
                    function_x=3, function_ex=1, as_type_x=3, transfer=2, transfer_l=1, transfer_c=1, linkage_w=1, calling_convention=1),
    }

    def prologue(self):
        if self.started: return
        self.started = True
        self.emit('unit', [])
        for b in self.builtins:
            self.emit('builtin', [b])
        for c in ('false', 'true', 'default', 'delete', 'nullptr'):
            self.emit('const', [c])
        for op in ('cxx_linkage', 'c_linkage', 'cxx_transfer'):
            self.observe_some(self.emit(op, []))
        self.emit('product_seq', [])
        self.emit('sum_seq', [])
        for k in (0, 1, 2, 3, 4, 6):
            self.emit('fresh', [k])
        c0 = self.emit('calling_convention', [b''])
        self.emit('identifier_w', [b'T'])
        # the empty word and the natural calling convention: invisible logogram, empty String, value equality
        x = self.emit('cxx_transfer', [])
        nc = self.emit('xfer_convention', [x])
        lg = self.emit('cc_name', [nc])
        e = self.emit('string', [b''])
        lg2 = self.emit('logogram', [e])
        lg3 = self.emit('cc_name', [c0])
        self.emit('eq_logo', [lg, lg2]); self.emit('eq_logo', [lg2, lg3]); self.emit('eq_cc', [nc, c0]); self.emit('what', [lg])
        for w in (b'C', b'C++'):
            st = self.emit('string', [w])
            self.emit('linkage_s', [st]); self.emit('linkage_w', [w])

    def run(self, n_requests):
        self.prologue()
        w = self.WEIGHTS[self.profile]
        ops, weights = list(w), list(w.values())
        while self.stats.get('_requests', 0) < n_requests:
            r = self.rng.random()
            if r < 0.42 and self.requests:
                h = self.repeat()
            elif r < 0.54 and self.requests:
                h = self.near_miss()
            else:
                h = self.new_request(self.rng.choices(ops, weights)[0])
            if h is not None and self.rng.random() < 0.12:
                self.observe_some(h)
        return self


def reserved_sweep(g, times):
    """Every reserved word, `times` times, through every constructor that takes a spelling (C04)."""
    for rep in range(times):
        for w in g.words:
            k = (rep + len(w)) % 5
            if k == 0: g.observe_some(g.emit('identifier_w', [w]))
            elif k == 1:
                st = g.emit('string', [w]); g.emit('identifier_s', [st]); g.emit('logogram', [st]); g.emit('linkage_s', [st])
            elif k == 2: g.emit('operator_w', [w]); g.emit('linkage_w', [w])
            elif k == 3: g.observe_some(g.emit('calling_convention', [w]))
            else:
                i = g.emit('identifier_w', [w]); g.emit('as_type_id', [i]); g.emit('label', [i]); g.emit('suffix', [i])


def equal_hash_words(g, n_pairs):
    """Pairs of DIFFERENT spellings with the same std::hash code (libstdc++), through every constructor that takes a spelling, first
    A then B, then B' then A' of a second pair, then everything again: equal hash codes must not make two spellings one."""
    pairs = C.equal_hash_pairs(g.rng, n_pairs)
    t = g.pick('type')
    for k, (a, b) in enumerate(pairs):
        order = [a, b] if k % 2 == 0 else [b, a]
        for w in order:
            g.emit('string', [w], False)
        for w in order:
            g.emit('identifier_w', [w], False); g.emit('linkage_w', [w], False); g.emit('calling_convention', [w], False)
            g.emit('operator_w', [w], False)
            if t is not None: g.emit('literal_w', [t, w], False)
        for w in reversed(order):
            g.emit('identifier_w', [w], False); g.emit('linkage_w', [w], False); g.emit('string', [w], False)
    g.stats['_equal_hash_pairs'] = len(pairs)


def pool_rollover(g, n_words, first='identifier_w', again_ops=('identifier_w', 'linkage_w')):
    """More distinct spellings than one string pool holds (1 MiB = 65536 header slots), then every one of them requested again
    in another order: the word that happens to open a new pool, and its neighbours, must still be the Identifier of their spelling."""
    rng = g.rng
    seen, ws = set(g.words), []
    while len(ws) < n_words:
        w = bytes(rng.choice(b'abcdefghijklmnopqrstuvwxyz_0123456789') for _ in range(rng.randint(9, 24))) + b'%d' % len(ws)
        if w not in seen:
            seen.add(w); ws.append(w)
    for w in ws:
        g.emit(first, [w], False)
    again = list(ws)
    rng.shuffle(again)
    for k, w in enumerate(again):
        g.emit(again_ops[0] if k % 3 else again_ops[1], [w], False)
        if k % 3 == 0: g.emit(again_ops[0], [w], False)
    g.stats['_pool_rollover_words'] = len(ws)


def qualifier_sweep(g, max_steps, operands):
    """All 7 non-empty sets, all ordered splits into <= max_steps successive requests, over the given operands (C11)."""
    def splits(q, k):
        if k == 1:
            yield [q]; return
        for q1 in range(1, 8):
            if q1 & ~q: continue
            for rest_q in {q & ~q1, q}:
                if rest_q == 0: continue
                for tail in splits(rest_q, k - 1):
                    yield [q1] + tail
    n = 0
    for t in operands:
        g.emit('qualified', [0, t])
        for q in range(1, 8):
            for k in range(1, max_steps + 1):
                for sp in splits(q, k):
                    if len(sp) == k:
                        cur = t
                        for qi in sp:
                            cur = g.emit('qualified', [qi, cur], False)
                        n += 1
                        if n % 3 == 0: g.emit('qualified', [0, cur], False)       # the empty set is refused over a qualified operand too
                        if n % 7 == 0: g.observe_some(cur)
    # qualifier sets are opaque bit sets as wide as a pointer: coordinates beyond const / volatile / restrict (vendor qualifiers) merge,
    # commute and are refused when empty exactly like the three standard ones
    ext = [1 << 3, 1 << 31, 1 << 32, 1 << 40, 1 << 63, (1 << 32) | 1, (1 << 63) | (1 << 3) | 2]
    for t in operands[:6]:
        for a in ext:
            for b in ext + [1, 2, 4, 7]:
                x = g.emit('qualified', [a, t], False)
                y = g.emit('qualified', [b, x], False) if x is not None else None
                g.emit('qualified', [a | b, t], False)
                z = g.emit('qualified', [b, t], False)
                if z is not None: g.emit('qualified', [a, z], False)
                if y is not None and n % 5 == 0: g.observe_some(y)
                n += 1
    g.stats['_qualifier_chains'] = g.stats.get('_qualifier_chains', 0) + n


def placed_sweep(g, slots):
    """Client-built type nodes at placed addresses (pages 128 B, 4 KiB, 2 GiB, 4 GiB, 32 GiB, k * 64 GiB apart: `placed` of the probe) used
    as operands of every unary / binary constructor; every request is made twice, in two scrambled orders, dependent requests
    (functions over products of placed nodes ...) after the ones that name their operands.  For the specification they are ordinary
    distinct operands."""
    g.prologue()
    rng = g.rng
    ps = []
    for s in slots:
        i = g.emit('identifier_w', [b'__placed%d' % s], False)
        p = g.emit('placed', [s, i], False)
        if p is not None: ps.append(p)
    INT, CHAR = g.emit('builtin', [b'int'], False), g.emit('builtin', [b'char'], False)
    lit = g.emit('literal_w', [INT, b'4'], False)
    TRUE = g.emit('const', ['true'], False)
    nm = g.emit('identifier_w', [b'member'], False)
    wave1 = []
    for p in ps:
        wave1 += [('pointer', [p]), ('reference', [p]), ('rvalue_reference', [p]), ('qualified', [1, p]), ('qualified', [6, p]),
                  ('array', [p, lit]), ('ptr_to_member', [p, INT]), ('ptr_to_member', [CHAR, p]), ('product_seq', [p]),
                  ('product_wh', [INT, p]), ('sum_seq', [p]), ('sum_wh', [p, CHAR]), ('as_type_expr', [p]),
                  ('conversion', [p]), ('ctor', [p]), ('dtor', [p]), ('this', [p]), ('symbol', [nm, p]), ('literal_w', [p, b'0'])]
    rng.shuffle(wave1)
    got = {}
    for op, a in wave1:
        got[(op, tuple(a))] = g.emit(op, a, False)
    wave2 = []
    for p in ps:
        pr, su = got.get(('product_seq', (p,))), got.get(('sum_seq', (p,)))
        q = got.get(('qualified', (1, p)))
        if pr is not None:
            wave2 += [('function', [pr, p]), ('function_e', [pr, p, TRUE]), ('forall', [pr, p])]
            if su is not None: wave2.append(('tor', [pr, su]))
        if q is not None: wave2 += [('qualified', [2, q]), ('qualified', [1, q]), ('pointer', [q])]
    rng.shuffle(wave2)
    for op, a in wave2:
        g.emit(op, a, False)
    again = wave1 + wave2
    rng.shuffle(again)
    for k, (op, a) in enumerate(again):
        h = g.emit(op, a)                     # (remembered: the random part of the history asks for them again, and near misses of them)
        if k % 9 == 0: g.observe_some(h)
    g.stats['_placed_nodes'] = g.stats.get('_placed_nodes', 0) + len(ps)
    g.stats['_placed_requests'] = g.stats.get('_placed_requests', 0) + 2 * (len(wave1) + len(wave2))
    return ps


def qualifier_mix(g, operands, triples):
    """Chains of successive qualification over SEVERAL unqualified types advanced in a scrambled interleaving, so that nodes filed by a
    direct request get_qualified(q, T) and nodes filed through a qualified operand get_qualified(q', get_qualified(q, T)) meet in one table
    in every order: all 49 ordered pairs (q, q') -- disjoint, overlapping, q' inside q, q inside q', equal -- and `triples` random chains
    of three per operand, each followed by the one-step request for the union."""
    rng = g.rng
    chains = []
    for t in operands:
        for q in range(1, 8):
            for q2 in range(1, 8):
                chains.append((t, [q, q2]))
        for _ in range(triples):
            chains.append((t, [rng.randrange(1, 8) for _ in range(3)]))
    rng.shuffle(chains)
    active = []
    overlap = {'disjoint': 0, 'overlapping': 0, 'second_inside_first': 0, 'first_inside_second': 0}
    it = iter(chains)
    pending = True
    n = 0
    while pending or active:
        while pending and len(active) < 12:
            c = next(it, None)
            if c is None:
                pending = False
                break
            active.append([c[0], list(c[1]), c[0], 0])        # operand, remaining sets, current node, union so far
        if not active: break
        k = rng.randrange(len(active))
        t, rest, cur, u = active[k]
        q = rest.pop(0)
        if u:
            if u & q == 0: overlap['disjoint'] += 1
            elif q & ~u == 0: overlap['second_inside_first'] += 1
            elif u & ~q == 0: overlap['first_inside_second'] += 1
            else: overlap['overlapping'] += 1
        cur = g.emit('qualified', [q, cur], False)
        u |= q
        if cur is None or not rest:
            active.pop(k)
            n += 1
            if cur is not None:
                if n % 2: g.emit('qualified', [u, t], False)        # the one-step request for the union: the same node
                if n % 4 == 0: g.observe_some(cur)
        else:
            active[k] = [t, rest, cur, u]
    g.stats['_qualifier_chains'] = g.stats.get('_qualifier_chains', 0) + n
    for k, v in overlap.items():
        g.stats['_requalification_' + k] = g.stats.get('_requalification_' + k, 0) + v


def fresh_operand_sweep(g, m):
    """What the successor of a destroyed Lexicon is asked first.  It is constructed in place, and the storage of the predecessor's nodes
    is handed out again (last freed first): `m` brand-new unqualified type nodes -- more than the predecessor had nodes -- take those
    addresses.  Then, before anything is asked about any other node, each of them is the operand of a direct qualification, read back
    at once (qualifiers, main variant); then of the other unary constructors; then every request is made a second time in another
    order.  Whatever the library remembers by address about a dead Lexicon's nodes is looked up here with a live node of another kind."""
    rng = g.rng
    g.prologue()
    fresh = []
    while len(fresh) < m:
        base = g.pick('unqual')
        op = rng.choice(['pointer', 'pointer', 'reference', 'reference', 'rvalue_reference', 'product_seq', 'sum_seq', 'as_type_expr',
                         'ptr_to_member', 'fresh'])
        before = g.spec.created
        if op == 'ptr_to_member': t = g.emit(op, [base, g.pick('unqual')], False)
        elif op == 'fresh': t = g.emit(op, [rng.choice([0, 1, 2])], False)
        else: t = g.emit(op, [base], False)
        if t is not None and g.spec.created > before and t.tag != 'qualifieds': fresh.append(t)
    order = list(fresh)
    rng.shuffle(order)
    asked = []
    for t in order:
        r = ('qualified', [rng.randrange(1, 8), t])
        g.observe_some(g.emit(r[0], r[1], False))
        asked.append(r)
    for t in order:
        for op2 in rng.sample(['pointer', 'reference', 'rvalue_reference', 'conversion', 'ctor', 'dtor', 'this', 'as_type_expr'], 2):
            h = g.emit(op2, [t], False)
            asked.append((op2, [t]))
            if op2 == 'this': g.observe_some(h)
    rng.shuffle(asked)
    for k, (op, a) in enumerate(asked):
        h = g.emit(op, a)
        if k % 5 == 0: g.observe_some(h)
    g.stats['_fresh_operands_used_at_once'] = g.stats.get('_fresh_operands_used_at_once', 0) + len(fresh)


def nesting_sweep(g, rounds):
    """Every constructor applied to its own earlier result, three deep, with the other arguments unchanged -- f(f(f(a, b), b), b) -- then
    chains that alternate constructors, then every request of a chain again, innermost last.  An argument that happens to be a node the
    same constructor made (with the very same transfer, bound, source...) is one more node: each level is a different request."""
    P, rng, s = g.pick, g.rng, g.spec
    g.prologue()
    for _ in range(rounds):
        t, t2, e, pr = P('unqual'), P('type'), P('expr'), P('product')
        x_nat = g.natural_xfer()
        xs = [x for x in g.pool['xfer'] if s.xfer_value(x) != (b'C++', b'')]
        x = rng.choice(xs) if xs and rng.random() < 0.7 else g.emit('transfer', [g.emit('linkage_w', [b'C']), g.emit('calling_convention', [g.word() or b'cc'])])
        if x is None or t is None or t2 is None or e is None or pr is None: continue
        steps = [('pointer', lambda a: [a]), ('reference', lambda a: [a]), ('rvalue_reference', lambda a: [a]),
                 ('array', lambda a: [a, e]), ('array', lambda a: [t2, a]), ('ptr_to_member', lambda a: [a, t2]), ('ptr_to_member', lambda a: [t2, a]),
                 ('function', lambda a: [pr, a]), ('function_x', lambda a: [pr, a, x]), ('function_e', lambda a: [pr, a, e]),
                 ('function_e', lambda a: [pr, t2, a]), ('function_ex', lambda a: [pr, a, e, x]), ('forall', lambda a: [pr, a]),
                 ('as_type_expr', lambda a: [a]), ('as_type_x', lambda a: [a, x]), ('as_type_x', lambda a: [a, x_nat]),
                 ('product_seq', lambda a: [a]), ('product_wh', lambda a: [a, t2]), ('sum_seq', lambda a: [a]), ('sum_wh', lambda a: [t2, a]),
                 ('qualified', lambda a: [2, a]), ('qualified', lambda a: [1, a])]
        asked = []
        for op, mk in steps:
            a = t
            for depth in range(3):
                args = mk(a)
                h = g.emit(op, args)
                if h is None: break
                asked.append((op, args))
                a = h
        for _ in range(6):                                   # constructors alternating along one chain
            a = t
            for depth in range(5):
                op, mk = rng.choice(steps)
                args = mk(a)
                h = g.emit(op, args)
                if h is None: break
                asked.append((op, args))
                a = h
        for op, args in reversed(asked):
            g.emit(op, args, False)
        g.stats['_nested_requests'] = g.stats.get('_nested_requests', 0) + len(asked)


def live_tail(g, tag):
    """The last thing a Lexicon sees: a client's growing container (parameter list / class scope) whose own, live member sequence is handed
    to get_product (tag = 'products') or get_sum ('sums') and FIRST makes a node there -- which keeps referring to that sequence -- while
    the other constructor is asked for the same member types through a Warehouse, a sequence of the client's and the live sequence.  Then
    the container grows.  Nothing is specified any more about table `tag` (it holds a node filed under a key it no longer has; the
    specification refuses every later request for it), but everything else is: the other table's answers for the old member types, for the
    new ones, the functions and foralls whose source is the container's type node or the borrowed node."""
    P, rng = g.pick, g.rng
    mine, other = ('product', 'sum') if tag == 'products' else ('sum', 'product')
    for kind in (8, 9):
        L = g.emit('fresh', [kind])
        a, b, c = g.emit('fresh', [0]), g.emit('fresh', [2]), P('type')
        for t in (a, b): g.emit('grow', [L, P('name'), t], False)
        borrowed = g.emit(mine + '_live', [L, a, b])                 # a, b are brand-new types: this request makes the node
        before = [(other + '_wh', [a, b]), (other + '_seq', [a, b]), (other + '_live', [L, a, b]), (other + '_wh', [a]), (other + '_seq', [b, a]),
                  ('function', [L, c]), ('forall', [L, c]), ('function_e', [L, c, g.emit('const', ['false'], False)])]
        if tag == 'products': before += [('function', [borrowed, c]), ('forall', [borrowed, a])]
        for op, args in before: g.emit(op, args, False)
        g.emit('grow', [L, P('name'), c], False)                     # from here on table `tag` is unspecified
        after = before[:2] + before[3:] + [(other + '_wh', [a, b, c]), (other + '_live', [L, a, b, c]), (other + '_seq', [a, b, c]),
                                           ('function_x', [L, c, g.natural_xfer()])]
        rng.shuffle(after)
        for op, args in after: g.emit(op, args, False)
        g.stats['_live_sequences_grown_after_being_borrowed'] = g.stats.get('_live_sequences_grown_after_being_borrowed', 0) + 1


def lookalike_operand_sweep(g, rounds):
    """Operands that are different nodes but alike in everything one can read off them: templates declared under one name (with the same
    Forall type -- a redeclaration -- and with another -- an overload), unnamed classes / unions / enums made one after the other,
    expression lists with nothing in them.  A constructor keyed on its operand NODE answers one result per node."""
    P, rng = g.pick, g.rng
    g.prologue()
    for _ in range(rounds):
        n = P('name')
        fs = [f for f in (P('forall'), P('forall')) if f is not None]
        if not fs:
            pr = g.emit('product_seq', [P('type')])
            fs = [g.emit('forall', [pr, P('type')])]
        ts = [g.emit('fresh', [5, n, f]) for f in (fs + fs[:1] + fs)]
        asked = [('guide_name', [t]) for t in ts if t is not None]
        cls = [g.emit('fresh', [k]) for k in (0, 0, 1, 1, 2, 2, 3)]
        for c in cls:
            asked += [(op, [c]) for op in rng.sample(['conversion', 'ctor', 'dtor', 'pointer', 'this', 'as_type_expr'], 3)]
        xl = [g.emit('fresh', [4]) for _ in range(3)]
        e = P('expr')
        asked += [('template_id', [e, x]) for x in xl]
        # expressions that stand for "nothing here" (phantoms: never unified, each its own node) as the bound of an array, the exception
        # specification of a function, the operand of an as-type, with everything else equal
        ph = [g.emit('fresh', [6]) for _ in range(3)]
        t, pr = P('type'), P('product')
        for x in ph + xl:
            asked += [('array', [t, x]), ('as_type_expr', [x])]
            if pr is not None and 'function_e' in g.WEIGHTS[g.profile]: asked.append(('function_e', [pr, t, x]))
        # spellings of ONE length that agree up to an embedded NUL byte (and differ after it), as conventions, linkages and what is
        # built on them: different spellings all the same
        for w in (b'vec\x00A', b'vec\x00B', b'vec\x00C', b'\x00a', b'\x00b', b'ab\x00\x00', b'ab\x00\x01'):
            cc = g.emit('calling_convention', [w]); lk = g.emit('linkage_w', [w])
            asked += [('calling_convention', [w]), ('linkage_w', [w])]
            if cc is not None: asked.append(('transfer_c', [cc]))
            if lk is not None: asked.append(('transfer_l', [lk]))
            if 'identifier_w' in g.WEIGHTS[g.profile]: asked.append(('identifier_w', [w]))
        for op, a in asked: g.emit(op, a)
        # the expression lists grow AFTER they have named template-ids (arguments are pushed as they are parsed), to different lengths
        for k, x in enumerate(xl):
            for _ in range(k + rng.randint(0, 2)):
                g.emit('xgrow', [x, P('expr')], False)
        rng.shuffle(asked)
        for op, a in asked: g.emit(op, a, False)
        for x in xl[:2]:
            g.emit('xgrow', [x, P('expr')], False)
        for op, a in asked:
            if op == 'template_id': g.emit(op, a, False)
        g.stats['_lookalike_operands'] = g.stats.get('_lookalike_operands', 0) + len(asked)


def qualified_operand_sweep(g, rounds):
    """Every constructor that takes a type, asked with T, each cv-qualified version of T (also beyond the standard qualifiers) and types
    built over them, all other arguments equal: as many different answers as there are different type nodes -- top-level qualifiers
    are part of the argument.  Then the same requests again in another order."""
    P, rng = g.pick, g.rng
    g.prologue()
    for _ in range(rounds):
        t = P('unqual')
        if t is None: continue
        variants = [t] + [g.emit('qualified', [q, t]) for q in (1, 2, 3, 4, 7, 1 << 3)]
        variants = [v for v in variants if v is not None]
        variants += [g.emit('pointer', [variants[1]]), g.emit('reference', [variants[2]])]
        w, n, e, pr = g.word(), P('name'), P('expr'), P('product')
        st = g.emit('string', [w])
        asked = []
        for v in variants:
            for op, a in (('literal_w', [v, w]), ('literal_s', [v, st]), ('conversion', [v]), ('ctor', [v]), ('dtor', [v]), ('this', [v]),
                          ('symbol', [n, v]), ('pointer', [v]), ('array', [v, e]), ('function', [pr, v]), ('ptr_to_member', [v, t]),
                          ('ptr_to_member', [t, v]), ('product_seq', [v]), ('sum_wh', [v, t]), ('forall', [pr, v])):
                if op in g.WEIGHTS[g.profile] or op in ('literal_w', 'literal_s', 'symbol', 'pointer'):
                    asked.append((op, a))
        for op, a in asked: g.emit(op, a)
        rng.shuffle(asked)
        for op, a in asked: g.emit(op, a, False)
        g.stats['_qualified_operand_requests'] = g.stats.get('_qualified_operand_requests', 0) + len(asked)


def qualified_scale(g, n_types):
    """Thousands of qualified types in ONE Lexicon (more than any block of a block allocator or any first size of a table holds): every
    non-empty standard set over `n_types` fresh unqualified types, each answer read back at once (qualifiers, main variant); then the
    early ones again, then all of them again in another order, two-step requests among them."""
    rng = g.rng
    g.prologue()
    ts = [g.emit('fresh', [rng.choice([0, 1, 2])], False) for _ in range(n_types)]
    asked = []
    for i, t in enumerate(ts):
        for q in range(1, 8):
            h = g.emit('qualified', [q, t], False)
            asked.append((q, t))
            if (i * 7 + q) % 97 == 0 or len(asked) in (4095, 4096, 4097, 4098, 8191, 8192, 8193, 8194):
                g.observe_some(h)
        if i % 50 == 0:
            for q, t0 in asked[:14]:
                g.observe_some(g.emit('qualified', [q, t0], False))
    rng.shuffle(asked)
    for k, (q, t) in enumerate(asked):
        if k % 9 == 0 and bin(q).count('1') >= 2:
            low = q & -q
            h = g.emit('qualified', [q & ~low, g.emit('qualified', [low, t], False)], False)
        else:
            h = g.emit('qualified', [q, t], False)
        if k % 61 == 0: g.observe_some(h)
    g.stats['_qualified_types_in_one_lexicon'] = len(asked)


def last_requests(g):
    """What a Lexicon about to be destroyed is asked last: every constructor of the profile once more, and a re-qualification."""
    ops = list(g.WEIGHTS[g.profile])
    g.rng.shuffle(ops)
    for op in ops:
        h = g.new_request(op)
        if h is not None and h.tag == 'qualifieds':
            g.observe_some(g.emit('qualified', [g.rng.randrange(1, 8), h]))
    qs = [h for h in g.pool['type'] if h.tag == 'qualifieds']
    if qs: g.emit('qualified', [g.rng.randrange(1, 8), g.rng.choice(qs)])


def build_histories(pid, tier, seed, words, builtins):
    """-> (the main histories, the short histories run one after the other on Lexicons constructed in place)."""
    rng = random.Random(seed * 1000003 + {'C01': 1, 'C04': 4, 'C11': 11}[pid])
    nh, nreq = (4, 3000) if tier == 'quick' else (16, 100000)
    if pid == 'C11': nreq = 1500 if tier == 'quick' else 30000
    hs = []
    for i in range(nh):
        g = Gen(words, builtins, rng, pid)
        placed = []
        if i % 2 == 0 and i < 4:
            # far-apart client-built operand nodes: all 12 pages (history 0: two positions on four of them), scrambled
            slots = list(range(12)) + ([12, 17, 19, 22] if i == 0 else [])
            rng.shuffle(slots)
            placed = placed_sweep(g, slots)
        if pid == 'C04' and i % 2 == 0:
            g.prologue()
            reserved_sweep(g, 10 if tier == 'quick' else 20)
        if pid == 'C04' and i == 0:
            equal_hash_words(g, 12 if tier == 'quick' else 200)
        if pid == 'C04' and i == 1:
            pool_rollover(g, 42000 if tier == 'quick' else 130000)
        if pid == 'C01' and i == 3:
            # the same at the scale of calling-convention / linkage spellings (the arguments of transfers)
            g.prologue()
            pool_rollover(g, 42000 if tier == 'quick' else 130000, first='calling_convention', again_ops=('calling_convention', 'linkage_w'))
        if pid == 'C11' and i == 0:
            g.prologue()
            # one operand of every unqualified kind
            P = g.pick
            kinds = [g.emit('builtin', [b'int']), g.emit('pointer', [P('type')]), g.emit('reference', [P('type')]),
                     g.emit('rvalue_reference', [P('type')]), g.emit('array', [P('type'), g.emit('literal_w', [P('type'), b'3'])]),
                     g.emit('product_seq', [P('type'), P('type')]), g.emit('sum_seq', [P('type')]),
                     g.emit('function', [g.emit('product_seq', []), P('type')]), g.emit('ptr_to_member', [P('type'), P('type')]),
                     g.emit('as_type_expr', [g.emit('const', ['true'])]), g.emit('as_type_id', [g.emit('identifier_w', [b'__int128'])]),
                     g.emit('forall', [g.emit('product_seq', []), P('type')]), g.emit('fresh', [0]), g.emit('fresh', [2]), g.emit('fresh', [1]),
                     g.emit('tor', [g.emit('product_seq', []), g.emit('sum_seq', [])])]
            # main variants that carry a transfer of their own (`extern "C"` function types, types named through a foreign transfer)
            xc = g.emit('transfer_l', [g.emit('linkage_w', [b'C'])])
            xs = g.emit('transfer', [g.emit('linkage_w', [b'C++']), g.emit('calling_convention', [b'__stdcall'])])
            kinds = [g.emit('function_x', [g.emit('product_seq', [P('type')]), P('type'), xc]),
                     g.emit('function_x', [g.emit('product_seq', []), P('type'), xs]),
                     g.emit('as_type_x', [g.emit('const', ['true']), xc])] + kinds
            kinds = [k for k in kinds if k is not None and k.tag != 'qualifieds']
            qualifier_sweep(g, 3 if tier == 'quick' else 5, kinds if tier == 'quick' else kinds[:6])
            # several main variants at once, direct and re-qualification requests interleaved, overlapping successive sets; among the
            # operands: built-ins (static storage), nodes of this Lexicon, client-built nodes far apart in both address orders
            mix = [k for k in kinds[:5]] + [g.emit('builtin', [b'double'])] + placed[:2] + placed[-2:]
            rng.shuffle(mix)
            qualifier_mix(g, [t for t in mix if t is not None], 12 if tier == 'quick' else 40)
        elif pid == 'C11' and i < 4:
            g.prologue()
            mix = [g.emit('builtin', [rng.choice(builtins)]) for _ in range(3)] + [g.emit('pointer', [g.pick('type')]), g.emit('fresh', [0])] + placed[:3]
            rng.shuffle(mix)
            qualifier_mix(g, [t for t in mix if t is not None and t.tag != 'qualifieds'], 6)
        if pid == 'C01' and i in (1, 2):
            nesting_sweep(g, 3 if tier == 'quick' else 12)
        if pid == 'C11' and i == 2:
            qualified_scale(g, 700 if tier == 'quick' else 2600)
        if pid in ('C01', 'C04') and i in (0, 3):
            lookalike_operand_sweep(g, 4 if tier == 'quick' else 20)
        if pid in ('C01', 'C04') and i in (1, 2):
            qualified_operand_sweep(g, 3 if tier == 'quick' else 12)
        g.run(nreq)
        if pid == 'C01' and i in (1, 3):
            live_tail(g, 'products' if i == 1 else 'sums')
            g.run(g.stats.get('_requests', 0) + 150)
        hs.append(g)
    # Lexicons constructed one after the other in ONE place, node storage recycled: short-lived ones, each followed by a successor whose
    # first requests put more brand-new operands than the predecessor had nodes where those nodes were
    pairs, vreq, sreq = (5, 120, 200) if tier == 'quick' else (10, 600, 1500)
    succ = []
    for i in range(pairs):
        v = Gen(words, builtins, rng, pid)
        v.prologue()
        if i % 3 == 1:
            placed_sweep(v, rng.sample(range(PLACED_SLOTS), 4))
        v.run(v.stats.get('_requests', 0) + vreq)
        last_requests(v)
        g = Gen(words, builtins, rng, pid)
        fresh_operand_sweep(g, v.spec.created + 60)
        g.run(g.stats.get('_requests', 0) + sreq)
        succ += [v, g]
    return hs, succ


# ---------------------------------------------------------------------------------------------- one process, several Lexicons

CHUNKS = [1, 1, 1, 1, 2, 2, 3, 3, 5, 8, 13, 21, 34, 89, 233]


class Script:
    """The op lines one probe process reads: configuration, then the histories of several Lexicons interleaved in chunks.
    `owner[i]` = (instance, index in its history) of flat line i, or None for a control line (`lexicon k`, `new`, `renew`, cfg)."""

    def __init__(self, cfg):
        self.flat, self.owner, self.want = list(cfg), [None] * len(cfg), ['ok'] * len(cfg)
        self.instances = []          # dict(gen=index into gens, slot=, mode='new'|'renew', first=flat index of its first line)
        self.cur = 0
        self.chunks = {}
        self.switches = 0
        self.lockstep_rounds = 0
        self.live = {0}
        self.max_live = 1

    def control(self, line):
        self.flat.append(line); self.owner.append(None); self.want.append('ok')

    def switch(self, slot):
        if slot != self.cur:
            self.control('lexicon %d' % slot)
            self.cur = slot
            self.switches += 1
            self.live.add(slot)
            self.max_live = max(self.max_live, len(self.live))

    def begin(self, gen, slot, mode):
        self.switch(slot)
        self.control(mode)
        self.instances.append(dict(gen=gen, slot=slot, mode=mode, first=len(self.flat)))
        return len(self.instances) - 1

    def ops(self, inst, g, a, b):
        self.switch(self.instances[inst]['slot'])
        for j in range(a, b):
            self.flat.append(g.lines[j]); self.owner.append((inst, j)); self.want.append(g.expect[j])
        self.chunks[b - a] = self.chunks.get(b - a, 0) + 1


def interleave(script, gens, rng, members):
    """members: (gen index, slot, twin_of or None).  Histories advance in chunks of random size; a twin (the same history asked of a
    second Lexicon) moves in lockstep with its original: the chunk one of them has just run is run by the other next (in either order),
    sometimes with a chunk of a third Lexicon in between."""
    insts = [script.begin(gi, slot, 'new') for gi, slot, _ in members]
    pos = [0] * len(members)
    partner = {}
    for k, (_, _, tw) in enumerate(members):
        if tw is not None:
            partner[k] = tw; partner[tw] = k
    def left(k): return len(gens[members[k][0]].lines) - pos[k]
    while True:
        todo = [k for k in range(len(members)) if left(k) > 0]
        if not todo: break
        k = rng.choices(todo, [left(k) for k in todo])[0]
        c = min(rng.choice(CHUNKS), left(k))
        g = gens[members[k][0]]
        if k in partner and pos[partner[k]] == pos[k]:
            first, second = (k, partner[k]) if rng.random() < 0.5 else (partner[k], k)
            script.ops(insts[first], g, pos[k], pos[k] + c)
            others = [o for o in todo if o not in (k, partner[k])]
            if others and rng.random() < 0.25:
                o = rng.choice(others)
                co = min(rng.choice(CHUNKS[:9]), left(o))
                script.ops(insts[o], gens[members[o][0]], pos[o], pos[o] + co)
                pos[o] += co
            script.ops(insts[second], g, pos[k], pos[k] + c)
            pos[partner[k]] += c
            script.lockstep_rounds += 1
        else:
            script.ops(insts[k], g, pos[k], pos[k] + c)
        pos[k] += c


def build_script(cfg, hs, succ, rng):
    """Group 1: history 0, its twin and history 1 in three Lexicons; group 2: the same with histories 2 and 3; then the other histories three
    at a time; then, in a fourth place,
    the short histories one after the other, each on a Lexicon constructed IN PLACE of the destroyed previous one (`renew`)."""
    gens = hs + succ
    sc = Script(cfg)
    interleave(sc, gens, rng, [(0, 0, None), (0, 1, 0), (1, 2, None)])
    interleave(sc, gens, rng, [(2, 0, None), (2, 1, 0), (3, 2, None)])
    rest = list(range(4, len(hs)))
    while rest:
        grp, rest = rest[:3], rest[3:]
        interleave(sc, gens, rng, [(gi, slot, None) for slot, gi in enumerate(grp)])
    for k in range(len(succ)):
        inst = sc.begin(len(hs) + k, 3, 'renew')
        sc.ops(inst, succ[k], 0, len(succ[k].lines))
    return sc, gens


def deinterleave(flat):
    """A flat script -> per line the number of the history (Lexicon incarnation) it belongs to, None for control lines; histories in
    order of creation.  (The probe starts with a Lexicon in place 0; `lexicon k` creates one at first use.)"""
    hist_of, slots, cur, nh = [], {}, 0, 0
    for l in flat:
        m = re.fullmatch(r'lexicon (\d)', l)
        if l.startswith('cfg'):
            hist_of.append(None)
        elif m:
            cur = int(m.group(1))
            hist_of.append(None)
        elif l in ('new', 'renew'):
            slots[cur] = nh; nh += 1
            hist_of.append(None)
        else:
            if cur not in slots:
                slots[cur] = nh; nh += 1
            hist_of.append(slots[cur])
    return hist_of, nh


def spec_of_script(flat, words, builtins, with_specs=False):
    """What the statement requires of every line of a flat script: each Lexicon is judged by its own history alone."""
    hist_of, nh = deinterleave(flat)
    specs = [Spec(words, builtins) for _ in range(nh)]
    want = [('ok' if h is None else specs[h].step(l)) for l, h in zip(flat, hist_of)]
    return (want, specs, hist_of) if with_specs else want


# ---------------------------------------------------------------------------------------------- running, oracle, correspondence

def split_impl(raw, shapes=None, notes=None):
    """Probe output -> (compared lines, failed '@' assertions); '#shape' lines are collected into `shapes`, the other '#' lines
    (statistics, `#shared`) into `notes`, each with the index of the compared line it follows."""
    lines, failed = [], []
    for ln in raw.splitlines():
        if ln.startswith('@'):
            if not ln.endswith('=1'): failed.append((len(lines) - 1, ln))
        elif ln.startswith('#'):
            if shapes is not None and ln.startswith('#shape '):
                shapes.append((len(lines) - 1, ln[7:]))
            elif notes is not None:
                notes.append((len(lines) - 1, ln))
        else:
            lines.append(ln)
    return lines, failed


TREE_TAGS = ['xferLinks', 'xferCCs', 'xfers', 'extendeds', 'arrays', 'typeRefs', 'typeXfers', 'tors', 'functions', 'funXfers',
             'pointers', 'products', 'memberPtrs', 'qualifieds', 'references', 'refrefs', 'sums', 'foralls', 'typeSeqs',
             'logos', 'ids', 'suffixes', 'convs', 'ctors', 'dtors', 'ops', 'guideIds', 'linkages', 'conventions', 'lits',
             'templateIds', 'symbols']

# Which assertions about a Lexicon used during static initialisation belong to which statement.
EARLY = {
    'C04': ('string', 'identifier', 'logogram', 'linkage', 'as_type', 'builtin_names', 'constant_names'),
    'C01': ('as_type', 'type_same_lexicon', 'builtin_names'),
    'C11': ('qualified_normal', 'type_same_lexicon'),
}


def early_failures(pid, failed):
    out = []
    for _, a in failed:
        if a.startswith('@early_'):
            what = a[len('@early_'):].split('=')[0]
            for k in ('same_lexicon_', 'constant_'):
                if what.startswith(k) and what not in ('constant_names',): what = what[len(k):]
            if any(what == e or what.startswith(e + '_of_') for e in EARLY[pid]):
                out.append(a)
    return out


EARLY_TEXT = ('a Lexicon used from the initialiser of a namespace-scope object of a client translation unit linked before the library '
              '(harness/unifyprobe.cxx, object `early`) and asked the same questions again in main(): `@early_same_lexicon_<what>=0` = the same '
              'Lexicon answers the same request with another node now; `@early_constant_<what>=0` = a process-wide constant (two fresh Lexicons '
              'answer one node) was not that node then; `@early_*_names=0` = the name of a built-in type / symbolic constant was not the '
              'Identifier get_identifier answered; `@early_qualified_normal=0` = successive qualification did not end at the node of the union')


def explain(spec_before_line, line, want, got):
    return ('`%s` answered `%s`; the statement requires `%s` (one node per normal form, n<k> = k-th node to appear; '
            'a smaller k than required = an existing node was answered for a different key, a new k = a second node for a key '
            'already answered)' % (line, got, want))


def slice_ops(lines, expect, i):
    """Dependency-closed sub-history that still contains op i: producers of every operand, transitively,
    plus the first producer of the node the specification requires as answer."""
    producer = {}
    for j, out in enumerate(expect[:i + 1]):
        if out and out.startswith('n') and out not in producer:
            producer[out] = j
    need, todo = set(), [i]
    if expect[i] and expect[i].startswith('n') and expect[i] in producer:
        todo.append(producer[expect[i]])
    while todo:
        j = todo.pop()
        if j in need: continue
        need.add(j)
        for t in lines[j].split()[1:]:
            if re.fullmatch(r'n\d+', t) and t in producer:
                todo.append(producer[t])
    keep = sorted(need)
    ren, out_lines = {}, []
    for j in keep:
        toks = lines[j].split()
        new = [toks[0]]
        for t in toks[1:]:
            if re.fullmatch(r'n\d+', t):
                if t not in ren: return None          # operand first named by an op we did not keep: give up
                new.append(ren[t])
            else:
                new.append(t)
        out_lines.append(' '.join(new))
        o = expect[j]
        if o and o.startswith('n') and o not in ren:
            ren[o] = 'n%d' % len(ren)
    return out_lines


def early_env(words_hint=None):
    """The spellings the probe's namespace-scope object asks for during static initialisation: every candidate literal of the sources."""
    return {'UNIFY_EARLY_WORDS': ','.join(w.hex() for w in (words_hint if words_hint is not None else candidates()))}


def boot(probe):
    """Does the probe reach main() at all?  -> (ok, rc, out, err)"""
    rc, out, err = C.run_exe(probe, [], '', env=early_env())
    return rc == 0 and '#main-reached' in out, rc, out, err


class Runner:
    def __init__(self, pid, words, builtins, probe):
        self.pid, self.words, self.builtins, self.probe = pid, words, builtins, probe
        self.cfg = cfg_lines(words, builtins)
        self.env = early_env()
        self.limit = 3600
        self.shapes, self.notes = [], []

    def run_impl(self, flat):
        """flat: the whole script, configuration lines included."""
        text = '\n'.join(flat + [''])
        # (a request that never returns is a result: the probe is stopped after `limit` seconds and what it had answered is kept)
        rc, out, err = C.run_exe(self.probe, [], text, timeout=self.limit, env=self.env)
        self.shapes, self.notes = [], []
        lines, failed = split_impl(out, self.shapes, self.notes)
        return rc, lines, failed, err, text

    def run_model(self, text):
        rc, out, err = C.run_model(self.pid, text)
        if rc != 0:
            raise C.BuildError('model driver failed: ' + err[-2000:])
        return [l for l in out.splitlines() if not l.startswith('#')]

    def shared_violation(self, flat, want_names):
        """`#shared n<k> <place>`: the node just named n<k> was also answered to the live Lexicon in <place>.  Legitimate for the
        process-wide constants only.  want_names(flat index, k) -> True iff the specification's k-th node of that history is a constant."""
        for idx, note in self.notes:
            if note.startswith('#shared '):
                _, nk, place = note.split()
                if not want_names(idx, int(nk[1:])):
                    return idx, nk, place
        return None

    def fails(self, flat):
        """Does this script violate the specification on the implementation?"""
        rc, lines, failed, err, _ = self.run_impl(flat)
        want = spec_of_script(flat, self.words, self.builtins)
        return rc != 0 or bool(early_failures(self.pid, failed)) or C.first_diff(lines, want) is not None


def check(pid, tier, manifest_rule):
    res = C.Result(pid, tier)
    ok, info, detail = C.prove(res, pid)
    whitebox = tier == 'thorough'
    probe = None
    if whitebox:
        try:
            probe = C.build_harness(PROBE, 'asan', extra=('-DUNIFY_WHITEBOX',))
        except C.BuildError as e:
            # The white-box unit (private member names) no longer compiles against this tree.  It is a supplementary reading:
            # the black-box tie below still runs in full, so this is recorded, not alarmed (a renamed private member is harmless).
            res.cov['whitebox'] = 'unavailable: harness/unifyprobe.cxx -DUNIFY_WHITEBOX does not compile against this tree: ' + str(e)[-400:]
            whitebox = False
    if probe is None:
        probe = C.build_harness(PROBE, 'asan')
    alive, rc0, out0, err0 = boot(probe)
    early_dead = None
    if not alive:
        # Is it the use during static initialisation that kills it?  (Without UNIFY_EARLY_WORDS the namespace-scope object does nothing.)
        rc1, out1, err1 = C.run_exe(probe, [], '')
        early_dead = ('unifyprobe died during static initialisation (exit %d, main() %s): a client translation unit linked '
                      'before the library creates a Lexicon and asks it for strings, identifiers, logograms, linkages and types from the '
                      'initialiser of a namespace-scope object%s\n%s' % (
                          rc0, 'not reached' if '#main-reached' not in out0 else 'reached',
                          '; the same probe started without that use reaches main() and exits normally' if rc1 == 0 and '#main-reached' in out1 else
                          '; it does not survive without that use either (the requests that follow say where it stops)', err0[-3000:]))
        if rc1 == 0 and '#main-reached' in out1:
            res.violation('crash:static-init', early_dead,
                          '# static-init: run the probe with no op line (UNIFY_EARLY_WORDS = the candidate literals of the sources)\n')
            early_dead = None
    words, builtins = load_config(probe)
    R = Runner(pid, words, builtins, probe)
    R.limit = 120 if tier == 'quick' else 3600
    if not alive:
        R.env = {}                       # (the rest of the check runs without the use during static initialisation)
    hs, succ = build_histories(pid, tier, C.seed(), words, builtins)
    if whitebox:
        for g in hs:
            for t in TREE_TAGS:
                g.emit('tree', [t], False)
    sc, gens = build_script(R.cfg, hs, succ, random.Random(C.seed() * 7919 + {'C01': 1, 'C04': 4, 'C11': 11}[pid]))
    flat, want, owner = sc.flat, sc.want, sc.owner
    rc, impl, failed, err, text = R.run_impl(flat)
    ncfg = len(R.cfg)

    def where(k):
        k = min(k, len(flat) - 1)
        o = owner[k]
        if o is None:
            return 'script line %d (`%s`)' % (k, flat[k])
        inst = sc.instances[o[0]]
        return 'script line %d = op %d of history %d (Lexicon in place %d%s)' % (
            k, o[1], inst['gen'], inst['slot'], ', constructed in place of its destroyed predecessor' if inst['mode'] == 'renew' else '')

    def replay_text(k):
        """The smallest of: the dependency slice alone / the history alone in its place / its place's earlier occupants and it / the whole prefix."""
        k = min(k, len(flat) - 1)
        o = owner[k]
        cands = []
        if o is not None:
            inst = sc.instances[o[0]]
            g = gens[inst['gen']]
            sl = slice_ops(g.lines, g.expect, o[1])
            if sl is not None:
                cands.append(['new'] + sl)
                if inst['mode'] == 'renew': cands.append(['lexicon %d' % inst['slot'], 'renew'] + sl)
            cands.append(['lexicon %d' % inst['slot'], inst['mode']] + g.lines[:o[1] + 1])
            chain = []
            for i2, other in enumerate(sc.instances[:o[0]]):
                if other['slot'] == inst['slot']:
                    chain += [other['mode']] + gens[other['gen']].lines
            cands.append(['lexicon %d' % inst['slot']] + chain + [inst['mode']] + g.lines[:o[1] + 1])
        keep, R.limit = R.limit, min(R.limit, 30 if tier == 'quick' else 300)     # (a candidate that hangs is a candidate that reproduces)
        try:
            for c in cands:
                if len(c) < k - ncfg and R.fails(R.cfg + c):
                    return '\n'.join(R.cfg + c), len(c)
        finally:
            R.limit = keep
        return '\n'.join(flat[:k + 1]), k + 1 - ncfg

    def is_constant(idx, k):
        o = owner[idx]
        if o is None: return True
        names = gens[sc.instances[o[0]]['gen']].spec.names
        return k < len(names) and names[k].tag == 'static'

    early_bad = early_failures(pid, failed)
    other_bad = [(k, a) for k, a in failed if not a.startswith('@early_')]
    d = C.first_diff(impl, want)
    shared = R.shared_violation(flat, is_constant)
    if shared is not None and d is not None and shared[0] >= d:
        shared = None
    if rc != 0 and (d is None or d >= len(impl)):
        rt, n = replay_text(len(impl))
        res.violation('crash', 'unifyprobe %s after %d of %d script lines, at %s\n%s' % (
            'did not return from a request within %d s (stopped)' % R.limit if rc == C.TIMEOUT else 'stopped (exit %d)' % rc,
            len(impl), len(flat), where(len(impl)), err[-3000:]), rt)
    elif shared is not None:
        idx, nk, place = shared
        res.violation('statement:foreign-node', '%s: `%s` answered a node (%s) that the live Lexicon in place %s had been answered as well; it is not a '
                      'process-wide constant (the statement: a Lexicon answers its own node for each normal form)' % (where(idx), flat[idx], nk, place),
                      '\n'.join(flat[:idx + 1]))
    elif d is not None:
        rt, n = replay_text(d)
        res.violation('statement', where(d) + ': ' + explain(None, flat[d], want[d], impl[d] if d < len(impl) else '<none>') +
                      '\nreplay: %d lines after the configuration (the smallest of: dependency slice / the history alone / with the earlier occupants '
                      'of its place / the whole script prefix -- whichever still reproduces)' % n, rt)
    elif any(a.startswith('@foreign_string_') for _, a in other_bad):
        k, a = next((k, a) for k, a in other_bad if a.startswith('@foreign_string_'))
        res.violation('statement:foreign-string', '%s: `%s` answered one node for a String of its own Lexicon and ANOTHER node for a String with the same '
                      'characters interned by another Lexicon (%s): names and atoms are told apart by spelling' % (where(k), flat[k] if 0 <= k < len(flat) else '?', a),
                      '\n'.join(flat[:k + 1]))
    elif any(a.startswith('@foreign_qualified_operand') for _, a in other_bad):
        k, a = next((k, a) for k, a in other_bad if a.startswith('@foreign_qualified_operand'))
        res.violation('statement:foreign-qualified-operand', '%s: before `%s` the same set of qualifiers was requested in two steps, the first taken by '
                      'ANOTHER Lexicon (its Qualified node is the operand of the second step, asked here): the answer is not this Lexicon\'s node '
                      'for (the union of the qualifiers, the unqualified type), or its main variant is not that unqualified type (%s)' % (
                          where(k), flat[k] if 0 <= k < len(flat) else '?', a), '\n'.join(flat[:k + 1]))
    elif other_bad:
        k, a = other_bad[0]
        res.violation('config', 'the implementation disagrees with the tables read from the sources: %s after `%s`; every generated request '
                      'was nevertheless answered as the statement requires' % (a, flat[k] if 0 <= k < len(flat) else '?'),
                      'correspondence: reserved words / built-in names read from src/impl.cxx, src/builtin.def vs execution\n' + '\n'.join(flat[:k + 1]), found_input=False)
    else:
        model = R.run_model(text)
        dm = C.first_diff(impl, model)
        if dm is not None:
            res.violation('correspondence:unify-model',
                          'implementation and Lean model disagree at %s `%s`\n impl : %s\n model: %s\n'
                          'the implementation trace itself satisfies the statement (specification oracle), so the theorems no longer '
                          'speak about this code' % (where(dm), flat[min(dm, len(flat) - 1)], impl[dm] if dm < len(impl) else '<none>', model[dm] if dm < len(model) else '<none>'),
                          'correspondence: harness/unifyprobe.cxx vs lean/IprModel/Unify.lean (theorems IprProps/%s.lean)\n' % pid +
                          '\n'.join(flat[:dm + 1]), found_input=False)
    if early_bad:
        notes = [n for _, n in R.notes if n.startswith('#early')]
        res.violation('static-init:' + early_bad[0][1:].split('=')[0], '%s\nfailed: %s\n%s' % (EARLY_TEXT, ' '.join(early_bad), '\n'.join(notes)),
                      '# static-init: %s\n# (no op line is needed: the probe reports these before it reads any)\n' % ' '.join(early_bad))
    if early_dead is not None and not res.violations:
        res.violation('crash:static-init', early_dead, '# static-init: run the probe with no op line\n')
    if whitebox and not res.violations and R.shapes:
        # the verified checkers of C08 (checkRB, height bound; keys are in-order ranks) on every real tree
        rc_c, out_c, _ = C.run_model('c08', ''.join('chk %s\n' % sh.split(' ', 1)[1] for _, sh in R.shapes))
        answers = out_c.splitlines()
        badshape = [(R.shapes[i], a) for i, a in enumerate(answers) if a != 'rb=true bst=true height_ok=true']
        res.cov['real_trees_checked_by_verified_checkers'] = len(answers)
        if badshape or len(answers) != len(R.shapes):
            (k, sh), a = badshape[0] if badshape else (R.shapes[-1], '<no answer>')
            res.violation('tree-shape', 'the real tree of table %s violates the red-black rules / height bound (verified checkers: %s), at %s' % (sh.split()[0], a, where(k)),
                          '\n'.join(flat[:k + 1]))
    if not ok:
        res.proof_broken('IprProps.' + pid, detail)

    agg = {}
    for g in gens:
        for k, v in g.stats.items():
            agg[k] = agg.get(k, 0) + v
    reqs = agg.get('_requests', 0)
    res.cov['traces_validated_against_impl'] = len(sc.instances)
    res.cov['ops'] = len(flat)
    res.cov['ops_sha256'] = __import__('hashlib').sha256('\n'.join(flat).encode()).hexdigest()[:16]
    res.cov['requests'] = reqs
    res.cov['requests_repeating_an_earlier_key(hits)'] = agg.get('_hits', 0)
    res.cov['hit_ratio'] = round(agg.get('_hits', 0) / max(1, reqs), 3)
    res.cov['alternative_spelling_repeats'] = agg.get('_alternative_spellings', 0)
    res.cov['sequences_sharing_a_prefix_with_an_earlier_one'] = agg.get('_shared_prefix_seqs', 0)
    res.cov['near_miss_requests(one argument changed)'] = agg.get('_near_miss_requests', 0)
    res.cov['qualifier_chains_enumerated'] = agg.get('_qualifier_chains', 0)
    res.cov['requalification_requests_by_relation_of_the_new_set_to_the_sets_so_far'] = {
        k[len('_requalification_'):]: v for k, v in sorted(agg.items()) if k.startswith('_requalification_')}
    res.cov['op_distribution'] = {k: v for k, v in sorted(agg.items()) if not k.startswith('_')}
    res.cov['nodes_per_history'] = [g.spec.created for g in gens]
    tags = {}
    for g in gens:
        for key in g.spec.table:
            tags[key[0]] = tags.get(key[0], 0) + 1
    res.cov['nodes_per_table'] = dict(sorted(tags.items()))
    res.cov['largest_table'] = max(tags.items(), key=lambda kv: kv[1])[0] if tags else None
    res.cov['reserved_words'] = len(words)
    res.cov['builtins'] = len(builtins)
    # several Lexicons in one process
    stat = {}
    for _, n in R.notes:
        if n.startswith('# recycled=') or n.startswith('#placed ') or n.startswith('#early words='):
            for kv in n.replace('#placed ', '').replace('#early ', '').lstrip('# ').split():
                if '=' in kv: stat[kv.split('=')[0]] = int(kv.split('=')[1])
    res.cov['lexicons_in_one_process'] = {
        'histories (Lexicon incarnations) run': len(sc.instances),
        'most Lexicons alive at once': sc.max_live,
        'switches between Lexicons': sc.switches,
        'interleaving chunk sizes (ops: how many chunks)': {str(k): v for k, v in sorted(sc.chunks.items())},
        'lockstep rounds (the same chunk asked of a second Lexicon right after the first)': sc.lockstep_rounds,
        'Lexicons constructed in place of a destroyed one': sum(1 for i in sc.instances if i['mode'] == 'renew'),
        'blocks of a destroyed Lexicon handed out again to its successor': stat.get('recycled', 0),
        'brand-new operands used at once by the successors': agg.get('_fresh_operands_used_at_once', 0),
        'process-wide constants answered to two live Lexicons (#shared, all legitimate)': sum(1 for _, n in R.notes if n.startswith('#shared ')),
    }
    res.cov['operands_at_unusual_addresses'] = {
        'address hints honoured by mmap': bool(stat.get('honoured', 0)),
        'client-built type nodes placed far apart': stat.get('placed_far', 0),
        'placed on the free store instead (hint refused)': stat.get('placed_fallback', 0),
        'page offsets from the base (GiB)': [0, 0.000004, 2, 4, 4.000004, 32, 32.000004, 64, 64.000004, 96, 128, 256],
        'requests over them (each twice, scrambled)': agg.get('_placed_requests', 0),
    }
    res.cov['use_during_static_initialisation'] = {
        'spellings asked of a Lexicon before main()': stat.get('words', 0),
        'of them process-wide constants, by constructor': {k[:-len('_constants')]: v for k, v in stat.items() if k.endswith('_constants')},
        'assertions checked': sum(1 for l in out0.splitlines() if l.startswith('@early_')),
        'assertions that are part of this statement': list(EARLY[pid]),
    }
    res.cov['exhaustive'] = False
    for g in gens[:2]:
        k = min(len(g.lines) - 12, 400)
        res.sample({'ops': g.lines[k:k + 12], 'answers(impl = specification = model)': g.expect[k:k + 12]})
    k = next((i for i in range(ncfg, len(flat) - 12) if sum(1 for l in flat[i:i + 12] if l.startswith('lexicon ')) >= 3), None)
    if k is not None:
        res.sample({'interleaved script': flat[k:k + 12], 'answers': want[k:k + 12]})
    res.assumptions += [
        'operands are live nodes of the same Lexicon and of the sort the C++ signature takes (client precondition; the probe rejects anything else)',
        'a sequence handed to get_product/get_sum(const Sequence&) is kept alive and unchanged by the client (DESIGN.md C01 Limits)',
        'util::string_pool is represented by its specification (one String per content, reserved words constant): that is C03',
        'reserved words and built-in names are found by execution over every u8 literal of src/impl.cxx and src/builtin.def (two Lexicons answer the same Identifier node / a type constant carries the name)',
        'static initialisation order: the probe translation unit precedes libipr.a on the link line, so with GNU ld its initialisers run before any dynamic initialiser the library may have',
    ]
    return res.finish(info, rule=manifest_rule)


def replay(pid, path):
    probe = C.build_harness(PROBE, 'asan')
    alive, rc0, out0, err0 = boot(probe)
    if not alive:
        print('unifyprobe died during static initialisation (exit %d)\n%s' % (rc0, err0[-2000:]))
        print('VIOLATION property=%s replay=%s' % (pid, path))
        return 1
    words, builtins = load_config(probe)
    ops = [l.strip() for l in open(path) if l.strip() and not l.startswith('#') and not l.startswith('correspondence:') and not l.startswith('theorem')]
    C.lean_build(['model_' + pid.lower()])
    R = Runner(pid, words, builtins, probe)
    rc, impl, failed, err, text = R.run_impl(ops)
    model = R.run_model(text)
    want, specs, hist_of = spec_of_script(ops, words, builtins, with_specs=True)
    bad = False
    for i, l in enumerate(ops):
        if l.startswith('cfg'): continue
        a = impl[i] if i < len(impl) else '<none>'
        m = model[i] if i < len(model) else '<none>'
        mark = '' if a == want[i] == m else '   <-- ' + ('violates the statement' if a != want[i] else 'differs from the model')
        bad = bad or bool(mark)
        print('%-3s %-44s impl: %-8s required: %-8s model: %-8s%s' % ('' if hist_of[i] is None else 'L%d' % hist_of[i], l[:44], a, want[i], m, mark))
    early_bad = early_failures(pid, failed)
    if early_bad:
        print('use during static initialisation: ' + ' '.join(early_bad))
        for _, n in R.notes:
            if n.startswith('#early'): print(n)
    def is_constant(idx, k):
        names = specs[hist_of[idx]].names if 0 <= idx < len(ops) and hist_of[idx] is not None else []
        return k < len(names) and names[k].tag == 'static'
    foreign = R.shared_violation(ops, is_constant) if not bad else None
    if rc != 0:
        print(err[-2000:])
    if bad or rc != 0 or early_bad or foreign is not None or any(not a.startswith('@early_') for _, a in failed):
        if foreign is not None: print('line %d: node %s was also answered to the live Lexicon in place %s' % foreign)
        print('VIOLATION property=%s replay=%s' % (pid, path))
        return 1
    print('replay: property holds on this input')
    return 0
