"""C16 — substitutions behave as finite maps from parameters to expressions (DESIGN.md §4 C16)."""
import random
from . import common as C

PID = 'C16'
MANIFEST = dict(
    text='Theorems C16_* prove for every parameter, value and query that an elementary substitution has exactly its one binding, and for '
         'EVERY history of bindings (any length, any rebinding) that a general substitution maps a parameter to the value of its latest '
         'binding and every other parameter to itself. The model is tied to impl::Elementary_substitution / impl::General_substitution '
         'by running random binding histories on real Parameter / Expr nodes and comparing every query after every step, by node identity.',
    note='Lean kernel; axioms propext/Classical.choice/Quot.sound; std::map represented by its specification (association list); '
         'hand-written model tied by correspondence on generated histories; ASan/UBSan.',
    technique='Lean 4 theorems (induction over binding histories) + differential correspondence',
    ref='§4 C16')


def gen_ops(tier, rng):
    nparams, nvals = 30, 16
    nparams_wide = 70          # one parameter list with more parameters than a machine word has bits (positions 0..69)
    ops = ['params %d' % nparams, 'vals %d' % nvals, 'wide %d' % nparams_wide]
    nsub = 0
    def val():
        return 'p%d' % rng.randrange(nparams) if rng.random() < 0.25 else 'v%d' % rng.randrange(nvals)
    # elementary: every parameter as domain, every parameter queried (value may itself be a parameter, even the same one)
    for p in range(nparams):
        for v in (['v%d' % rng.randrange(nvals), 'p%d' % p, 'p%d' % ((p + 1) % nparams)]):
            ops.append('elem p%d %s' % (p, v))
            for q in range(nparams):
                ops.append('app S%d p%d' % (nsub, q))
            nsub += 1
    # every elementary substitution made so far is asked again after all of them exist (the factory must not confuse two substitutions
    # of one parameter, nor two parameters bound to one value)
    for k in range(nsub):
        for q in range(nparams):
            ops.append('app S%d p%d' % (k, q))
    # several general substitutions made back to back BEFORE any of them is bound, then bound alternately: each has exactly its own bindings
    for _ in range(6 if tier == 'quick' else 200):
        group = []
        for _ in range(rng.randint(2, 4)):
            ops.append('gen')
            group.append(nsub)
            nsub += 1
        for _ in range(rng.randint(1, 12)):
            k = rng.choice(group)
            ops.append('bind S%d p%d %s' % (k, rng.randrange(nparams), val()))
            for j in group:
                for q in rng.sample(range(nparams), 4):
                    ops.append('app S%d p%d' % (j, q))
        for j in group:
            for q in range(nparams):
                ops.append('app S%d p%d' % (j, q))
    # a wide parameter list: every position bound and asked, also only the high positions, also one position alone
    for bound in (list(range(nparams_wide)), list(range(31, nparams_wide, 3)), [40], [63, 64, 32]):
        ops.append('gen')
        k = nsub
        nsub += 1
        for q in bound:
            ops.append('bind S%d p%d %s' % (k, nparams + q, val()))
        for q in range(nparams_wide):
            ops.append('app S%d p%d' % (k, nparams + q))
    # many bindings (with rebinding) recorded BEFORE the first look-up: the latest binding of each parameter wins however many there are
    for n in (17, 18, 24, 36, 64, 150):
        ops.append('gen')
        k = nsub
        nsub += 1
        order = [rng.randrange(nparams_wide) for _ in range(n)] + list(range(0, nparams_wide, 2))
        for rounds in range(3):
            for q in order:
                ops.append('bind S%d p%d %s' % (k, nparams + q, val()))
        for q in range(nparams_wide):
            ops.append('app S%d p%d' % (k, nparams + q))
    # more elementary substitutions than any block of a block allocator holds, each asked again after all of them exist
    first = nsub
    for j in range(150 if tier == 'quick' else 1200):
        ops.append('elem p%d %s' % (nparams + j % nparams_wide, val()))
        ops.append('app S%d p%d' % (nsub, nparams + j % nparams_wide))
        nsub += 1
    for k in range(first, nsub):
        j = k - first
        ops.append('app S%d p%d' % (k, nparams + j % nparams_wide))
        ops.append('app S%d p%d' % (k, nparams + (j + 1) % nparams_wide))
    # a substitution with THOUSANDS of bindings (one more very wide parameter list): bound, rebound in part, every parameter asked
    nhuge = 4200 if tier == 'quick' else 20000
    base = nparams + nparams_wide
    ops.append('wide %d' % nhuge)
    ops.append('gen')
    k = nsub
    nsub += 1
    for q in range(nhuge):
        ops.append('bind S%d p%d %s' % (k, base + q, val()))
    for q in range(0, nhuge, 7):
        ops.append('bind S%d p%d %s' % (k, base + q, val()))
    for q in range(nhuge):
        ops.append('app S%d p%d' % (k, base + q))
    for q in range(nparams + nparams_wide):
        ops.append('app S%d p%d' % (k, q))
    nhist = 40 if tier == 'quick' else 1500
    for h in range(nhist):
        pool = rng.randint(1, nparams)
        ops.append('gen')
        k = nsub
        nsub += 1
        for q in range(nparams):
            ops.append('app S%d p%d' % (k, q))
        for _ in range(rng.choice([0, 1, 2, 5, 20, 60, 200])):
            if rng.random() < 0.15:
                ops.append('inst S%d' % k)          # the substitution is made the operand of an instantiation, and goes on being bound
            ops.append('bind S%d p%d %s' % (k, rng.randrange(pool), val()))
            qs = range(nparams) if rng.random() < 0.3 else [rng.randrange(nparams) for _ in range(3)]
            for q in qs:
                ops.append('app S%d p%d' % (k, q))
        for q in range(nparams):
            ops.append('app S%d p%d' % (k, q))
    return ops


def oracle(ops, impl):
    subs = []
    for i, (op, (line, asserts)) in enumerate(zip(ops, impl)):
        w = op.split()
        for a in asserts:
            if not a.endswith('=1'):
                return i, 'implementation assertion failed: %s after `%s`' % (a, op)
        if w[0] == 'elem':
            subs.append({w[1]: w[2]})
        elif w[0] == 'gen':
            subs.append({})
        elif w[0] == 'bind':
            subs[int(w[1][1:])][w[2]] = w[3]
        elif w[0] == 'app':
            exp = subs[int(w[1][1:])].get(w[2], w[2])
            if line != exp:
                return i, '`%s` answered `%s`; the bindings of that substitution are %s, so the statement requires `%s`' % (
                    op, line, subs[int(w[1][1:])], exp)
    return None


def parse_impl(raw):
    out = []
    for ln in raw.splitlines():
        if ln.startswith('@'):
            if out:
                out[-1][1].append(ln)
        else:
            out.append((ln, []))
    return out


def relevant(ops, i):
    """The ops that concern the substitution used by op i (creation, its bindings, the query)."""
    w = ops[i].split()
    k = w[1] if w[0] in ('app', 'bind') else None
    keep = [o for o in ops[:2]]
    n = -1
    for o in ops[2:i + 1]:
        ww = o.split()
        if ww[0] in ('elem', 'gen'):
            n += 1
            if 'S%d' % n == k:
                keep.append(o)
            else:
                keep.append('gen')          # keep numbering
        elif ww[0] == 'wide':
            keep.append(o)                  # (parameter numbering)
        elif ww[0] in ('bind', 'inst') and ww[1] == k:
            keep.append(o)
    keep.append(ops[i])
    return keep


def run(tier):
    res = C.Result(PID, tier)
    rng = random.Random(C.seed() * 31337 + 16)
    ok, info, detail = C.prove(res, PID)
    probe = C.build_harness('c16probe', 'asan')
    ops = gen_ops(tier, rng)
    text = '\n'.join(ops) + '\n'
    rc_i, out_i, err_i = C.run_exe(probe, [], text)
    impl = parse_impl(out_i)
    bad = oracle(ops, impl)
    if rc_i != 0 or len(impl) != len(ops):
        i = min(len(impl), len(ops) - 1)
        res.violation('crash', 'c16probe stopped (exit %d) after %d of %d ops\n%s' % (rc_i, len(impl), len(ops), err_i[-3000:]),
                      '\n'.join(relevant(ops, i)))
    elif bad:
        i, msg = bad
        res.violation('statement', msg, '\n'.join(relevant(ops, i)))
    else:
        rc_m, out_m, _ = C.run_model('c16', text)
        model = out_m.splitlines()
        impl_lines = [l for l, _ in impl]
        d = C.first_diff(impl_lines, model)
        if d is not None:
            res.violation('correspondence:subst', 'implementation and model disagree at `%s`: impl `%s`, model `%s`' % (
                ops[d], impl_lines[d], model[d] if d < len(model) else '<none>'),
                'correspondence: harness/c16probe.cxx vs lean/IprModel/Subst.lean (theorems IprProps/C16.lean)\n' + '\n'.join(relevant(ops, d)),
                found_input=False)
    if not ok:
        res.proof_broken('IprProps.C16', detail)
    kinds = {}
    for o in ops:
        kinds[o.split()[0]] = kinds.get(o.split()[0], 0) + 1
    res.cov['traces_validated_against_impl'] = kinds.get('elem', 0) + kinds.get('gen', 0)
    res.cov['op_distribution'] = kinds
    res.cov['exhaustive'] = False
    res.sample(ops[2:16])
    i = next(i for i, o in enumerate(ops) if o == 'gen')
    res.sample(ops[i:i + 24])
    return res.finish(info, rule='12 parameters (spread over several parameter lists) and 16 literal values; every elementary substitution '
                      'p->v (v a literal, p itself, another parameter) queried at every parameter; random binding histories of 0..200 '
                      'bindings with rebinding on a general substitution, queried after every binding; a trace is one substitution')


def replay(path):
    ops = [l.strip() for l in open(path) if l.strip() and not l.startswith(('#', 'correspondence:', 'theorem'))]
    C.lean_build(['model_c16'])
    probe = C.build_harness('c16probe', 'asan')
    text = '\n'.join(ops) + '\n'
    _, out_i, _ = C.run_exe(probe, [], text)
    _, out_m, _ = C.run_model('c16', text)
    impl = parse_impl(out_i)
    for op, a, b in zip(ops, impl, out_m.splitlines()):
        print('%-24s impl: %-10s model: %s' % (op, a[0], b))
    if oracle(ops, impl) or [l for l, _ in impl] != out_m.splitlines():
        print('VIOLATION property=C16 replay=%s' % path)
        return 1
    print('replay: property holds on this input')
    return 0
