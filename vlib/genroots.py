"""Regenerates the Lean project's root files and lakefile from the directory listing, so that adding
IprModel/X.lean, IprProofs/X.lean, IprProps/Cxx.lean or IprDriver/Cxx.lean needs no shared-file edit.
One native executable per driver (IprDriver/Cxx.lean defines a top-level `main`): a broken file of one
property cannot stop the model driver of another from building."""
import os
from . import common as C


def mods(sub):
    d = os.path.join(C.LEAN, sub)
    out = []
    for root, _, files in os.walk(d):
        for f in sorted(files):
            if f.endswith('.lean'):
                rel = os.path.relpath(os.path.join(root, f), C.LEAN)[:-5]
                out.append(rel.replace(os.sep, '.'))
    return sorted(out)


def drivers():
    return [m for m in mods('IprDriver') if m.split('.')[-1] != 'Util']


def main():
    for lib in ('IprModel', 'IprProofs', 'IprProps', 'Generated'):
        C.write_if_changed(os.path.join(C.LEAN, lib + '.lean'), ''.join('import %s\n' % m for m in mods(lib)))
    lf = 'name = "iprverif"\nversion = "0.1.0"\ndefaultTargets = [%s]\n\n' % ', '.join(
        ['"IprModel"', '"IprProofs"', '"IprProps"'] + ['"%s"' % exe_name(m) for m in drivers()])
    for lib in ('Generated', 'IprModel', 'IprProofs', 'IprProps'):
        lf += '[[lean_lib]]\nname = "%s"\n\n' % lib
    lf += '[[lean_lib]]\nname = "IprDriver"\nroots = ["IprDriver.Util"]\n\n'
    for m in drivers():
        lf += '[[lean_exe]]\nname = "%s"\nroot = "%s"\n\n' % (exe_name(m), m)
    C.write_if_changed(os.path.join(C.LEAN, 'lakefile.toml'), lf)


def exe_name(mod):
    return 'model_' + mod.split('.')[-1].lower()


if __name__ == '__main__':
    main()
