"""C20 — Lexicons are isolated: independent instances can be used from different threads (DESIGN.md §4 C20).  *partial*

Layer P: lean/IprProps/C20.lean over lean/IprModel/Isolation.lean; the premise "no shared mutable static" is discharged
over lean/Generated/Statics.lean, REWRITTEN ON EVERY RUN from `objdump -t` of the objects freshly built from the current tree.
Layer T: harness/threadprobe.cxx under ThreadSanitizer: 2-16 threads, one Lexicon each; per-thread traces compared with the
sequential run of the same programs and with the isolation model executing a random merge of them.
"""
import os, random, re, subprocess
from . import common as C
from . import c19

PID = 'C20'
MANIFEST = dict(
    text='Theorems C20_* (lean/IprProps/C20.lean): for every operation semantics whose only process-wide mutable state is the set of '
         'writable statics, every family of per-thread programs on distinct Lexicons and EVERY interleaving, each thread observes the '
         'outputs and final Lexicon state of its sequential run (induction over the interleaving; steps on distinct Lexicons commute), '
         'given that the set of writable statics is empty; that premise is re-proved on every run by kernel evaluation over the table '
         'regenerated from objdump -t of the freshly built objects (symbols in .data*/.bss*/.tdata/.tbss, not .data.rel.ro*; allow-list '
         'std::__ioinit, DW.ref.__gxx_personality_v0; any guard variable or other writable static fails, naming the symbol). Runtime '
         'tie under ThreadSanitizer: 2-16 threads each build, print and destroy a program in their own Lexicon; per-thread traces equal '
         'the sequential run and the model run of a random merge; addresses common to two Lexicons lie in read-only storage. PARTIAL: '
         'data-race freedom and the footprint of the C++ operations are runtime behaviour (TSan searches schedules), not proved.',
    note='Lean kernel; axioms propext/Classical.choice/Quot.sound; table from objdump/c++filt of g++ -O1 objects (library TUs + the '
         'probe TU for header-defined statics); harness threadprobe.cxx, ThreadSanitizer, g++.',
    technique='Lean 4 theorem (commutation over all interleavings) + table regenerated from object files + ThreadSanitizer differential runs',
    ref='§4 C20')

STATICS = os.path.join(C.LEAN, 'Generated', 'Statics.lean')
ALLOW = ['std::__ioinit', 'DW.ref.__gxx_personality_v0']
WRITABLE = re.compile(r'^\.(data|bss|tdata|tbss|ldata|lbss)(\.|$)')
IPR_ENTITY = re.compile(r'^_Z(GV|TH|TW)?Z?N[VK]*3ipr')      # variables / local statics / guards / TLS wrappers of namespace ipr
SYM = re.compile(r'^([0-9a-fA-F]+)\s(.{7})\s(\S+)\t([0-9a-fA-F]+)\s+(.*)$')


def writable_section(name):
    return bool(WRITABLE.match(name)) and not name.startswith('.data.rel.ro')


def symbols_of(obj):
    """[(section, demangled symbol, mangled symbol)] of the object symbols that live in writable sections."""
    r = subprocess.run(['objdump', '-t', obj], stdout=subprocess.PIPE, stderr=subprocess.STDOUT, text=True)
    if r.returncode != 0:
        raise C.BuildError('objdump failed on %s: %s' % (obj, r.stdout[-500:]))
    rows = []
    for ln in r.stdout.splitlines():
        m = SYM.match(ln)
        if not m:
            continue
        flags, sec, name = m.group(2), m.group(3), m.group(5).strip()
        if 'd' in flags or 'f' in flags or not writable_section(sec):
            continue
        for pre in ('.hidden ', '.protected ', '.internal '):
            if name.startswith(pre):
                name = name[len(pre):]
        rows.append((sec, name))
    if not rows:
        return []
    d = subprocess.run(['c++filt'], input='\n'.join(n for _, n in rows) + '\n', stdout=subprocess.PIPE, text=True)
    names = d.stdout.splitlines()
    if len(names) != len(rows):
        names = [n for _, n in rows]
    return [(sec, dem, mangled) for (sec, mangled), dem in zip(rows, names)]


def writable_sections_without_symbols(obj, rows):
    r = subprocess.run(['objdump', '-h', obj], stdout=subprocess.PIPE, stderr=subprocess.STDOUT, text=True)
    have = {r[0] for r in rows}
    out = []
    for ln in r.stdout.splitlines():
        w = ln.split()
        if len(w) >= 3 and w[0].isdigit() and writable_section(w[1]) and int(w[2], 16) > 0 and w[1] not in have:
            out.append((w[1], '<anonymous data in %s>' % w[1], ''))
    return out


def statics_table():
    """Rows (object, section, symbol): library objects entirely; the probe's own TU only for entities of namespace ipr
    (statics of inline functions / templates defined in the headers are emitted where they are used)."""
    lib = C.build_lib('plain')
    d = os.path.dirname(lib)
    rows = []
    for src in C.LIB_SOURCES:
        obj = os.path.join(d, os.path.basename(src).replace('.cxx', '.o'))
        r = symbols_of(obj)
        r += writable_sections_without_symbols(obj, r)
        rows += [(os.path.basename(obj), s, n) for s, n, _ in r]
    hobj = C.build_harness('threadprobe', 'plain', extra=('-c',), link_lib=False)
    for s, n, mangled in symbols_of(hobj):
        if IPR_ENTITY.match(mangled):
            rows.append(('threadprobe.o', s, n))
    return sorted(set(rows))


def lean_str(s):
    return '"' + s.replace('\\', '\\\\').replace('"', '\\"') + '"'


def write_table(rows):
    body = ',\n'.join('  (%s, %s, %s)' % tuple(lean_str(x) for x in r) for r in rows)
    text = ('/-! Rewritten on every run of `check.py C20` from `objdump -t` of the freshly built objects (do not edit). -/\n'
            'namespace Ipr.Generated\n\n'
            '/-- (object, section, symbol) of every symbol in a writable section (.data*, .bss*, .tdata, .tbss; not .data.rel.ro*) -/\n'
            'def writableStatics : List (String × String × String) := [\n' + body + ('\n' if body else '') + ']\n\n'
            'end Ipr.Generated\n')
    C.write_if_changed(STATICS, text)


def failing_rows(rows):
    return [r for r in rows if r[2] not in ALLOW]


# ------------------------------------------------------------------------------------------------ runtime

def tsan_env():
    return {'TSAN_OPTIONS': 'exitcode=66:halt_on_error=0:report_thread_leaks=0'}


def thread_round(rng, nthreads, size):
    progs = {}
    kinds = {}
    for t in range(nthreads):
        arena = 'roll' if rng.random() < 0.1 else None
        ops, k = c19.gen_program(rng, size, arena, prefix='h')
        progs[t] = ['new'] + ops
        for a, b in k.items():
            kinds[a] = kinds.get(a, 0) + b
    return progs, kinds


def merge(rng, progs):
    """A random interleaving of the thread programs (each program's order kept)."""
    pos = {t: 0 for t in progs}
    out = []
    live = [t for t in progs if progs[t]]
    while live:
        t = rng.choice(live)
        burst = rng.choice([1, 1, 2, 5])
        for _ in range(burst):
            if pos[t] < len(progs[t]):
                out.append((t, progs[t][pos[t]]))
                pos[t] += 1
        live = [t for t in live if pos[t] < len(progs[t])]
    return out


def by_thread(out):
    per, tail = {}, []
    for ln in out.splitlines():
        m = re.match(r'T(\d+) (.*)$', ln)
        if m:
            per.setdefault(int(m.group(1)), []).append(m.group(2))
        else:
            tail.append(ln)
    return per, tail


def norm_model(line):
    line = re.sub(r' \+(\d+|\?)$', '', line)
    m = re.match(r'(stat tn=\d+ tc=\d+ pools=)(\S+)( rem=\d+)$', line)
    if m:
        n = 0 if m.group(2) == '-' else len(m.group(2).split(','))
        line = '%s%d%s' % (m.group(1), n, m.group(3))
    return line


def tsan_report(rc, err):
    if 'ThreadSanitizer' in err:
        m = re.search(r'WARNING: ThreadSanitizer: ([^\n]*)', err)
        return m.group(1) if m else 'ThreadSanitizer report'
    if rc != 0:
        return 'threadprobe exited with %d: %s' % (rc, err.strip().splitlines()[-1][:200] if err.strip() else '')
    return None


def judge(probe, progs, rng, tries=1, with_model=True):
    """(kind, key, message) for one set of thread programs; kind in ok|race|statement|diff."""
    order = sorted(progs)
    text = ''.join('%d %s\n' % (t, op) for t in order for op in progs[t])
    rc_s, out_s, err_s = C.run_exe(probe, ['--seq'], text, env=tsan_env())
    if rc_s != 0:
        return 'statement', 'sequential-crash', 'the programs fail even sequentially (exit %d): %s' % (rc_s, err_s[-400:]), ''
    seq, tail_s = by_thread(out_s)
    for _ in range(tries):
        rc, out, err = C.run_exe(probe, [], text, env=tsan_env())
        rep = tsan_report(rc, err)
        if rep:
            return 'race', 'tsan', 'ThreadSanitizer: %s\n%s' % (rep, err[:3500]), err
        thr, tail = by_thread(out)
        for ln in tail:
            if ln.startswith('@') and not ln.endswith('=1'):
                notes = [l for l in tail if l.startswith('#shared_writable_node')]
                return 'statement', 'shared-node', 'two Lexicons hand out the same node in WRITABLE storage: %s' % '; '.join(notes[:4]), ''
        for t in order:
            a, b = thr.get(t, []), seq.get(t, [])
            d = C.first_diff(a, b)
            if d is not None:
                return 'statement', 'trace', ('thread %d running concurrently with %d others observed something else than alone, at its line %d:\n'
                                              ' concurrent: %s\n sequential: %s' % (t, len(order) - 1, d, a[d] if d < len(a) else '<none>',
                                                                                   b[d] if d < len(b) else '<none>')), ''
    if not with_model:
        return 'ok', '', '', ''
    # the isolation model on a random merge of the same programs
    finale = [(t, 'destroy') for t in order]              # the probe destroys every Lexicon after all programs have run
    rng.shuffle(finale)
    m_in = ''.join('%d %s\n' % (t, op) for t, op in merge(rng, progs) + finale)
    rc_m, out_m, err_m = C.run_model('c20', m_in)
    mod, _ = by_thread(out_m)
    for t in order:
        a = [l for l in seq.get(t, []) if not l.startswith(('@', '#'))]
        b = [norm_model(l) for l in mod.get(t, [])]
        d = C.first_diff(a, b)
        if d is not None:
            return 'diff', 'correspondence:isolation', ('thread %d: implementation and model (random merge executed by Ipr.Iso.exec) disagree at its line %d\n'
                                                        ' impl : %s\n model: %s' % (t, d, a[d] if d < len(a) else '<none>', b[d] if d < len(b) else '<none>')), ''
    return 'ok', '', '', ''


def program_text(progs):
    return ''.join('%d %s\n' % (t, op) for t in sorted(progs) for op in progs[t])


def shrink(probe, progs, kind, key, rng):
    items = [(t, op) for t in sorted(progs) for op in progs[t] if op != 'new']

    def rebuild(sub):
        p = {t: ['new'] for t in progs}
        for t, op in sub:
            p[t].append(op)
        return p

    def fails(sub):
        k, ky, _, _ = judge(probe, rebuild(sub), random.Random(1), tries=2 if kind == 'race' else 1)
        return k == kind and ky == key
    if not fails(items):
        return progs
    return rebuild(C.ddmin(items, fails, max_tests=60))


def run(tier):
    res = C.Result(PID, tier)
    rng = random.Random(C.seed() * 15485863 + 20)

    # ---- T-regen: the table of writable statics of the objects built from the current tree
    rows = statics_table()
    ok, info, detail = C.prove(res, PID, regen=lambda: write_table(rows))
    bad_rows = failing_rows(rows)
    for obj, sec, sym in bad_rows:
        what = 'function-local static with dynamic initialisation' if sym.startswith('guard variable') else \
               ('thread-local static' if sec.startswith(('.tdata', '.tbss')) else 'writable static')
        res.violation('static:' + sym, '%s shared by all Lexicons: `%s` in section %s of %s' % (what, sym, sec, obj),
                      'static: %s\t%s\t%s\n' % (obj, sec, sym))
    if not ok and not bad_rows:
        res.proof_broken('IprProps.C20', detail)

    # ---- runtime under ThreadSanitizer
    probe, whitebox_error = c19.build_probe('threadprobe', 'tsan')
    if whitebox_error:
        res.violation('correspondence:whitebox', 'the white-box part of the probe (node counts of the owning tables, pool chain) no longer '
                      'compiles against the current tree; traces are compared without it\n' + whitebox_error[-2500:],
                      'correspondence: harness/allocprobe.cxx (white-box reads) vs the private members of impl::Lexicon\n' + whitebox_error[-4000:],
                      found_input=False)
    if tier == 'quick':
        plan = [(2, 60), (3, 40), (4, 60), (8, 40), (16, 25), (5, 90), (2, 150), (6, 50), (12, 30), (16, 60)]
        tries = 3
    else:
        plan = [(n, s) for n in (2, 3, 4, 6, 8, 12, 16) for s in (20, 60, 120)] * 5
        tries = 5
    nthreads_seen, kinds, reported = {}, {}, set()
    for (n, size) in plan:
        progs, k = thread_round(rng, n, size)
        for a, b in k.items():
            kinds[a] = kinds.get(a, 0) + b
        kind, key, msg, _ = judge(probe, progs, rng, tries, with_model=not whitebox_error)
        nthreads_seen[n] = nthreads_seen.get(n, 0) + 1
        res.count('traces_validated_against_impl', n)
        res.count('ops', sum(len(p) for p in progs.values()))
        if kind != 'ok' and key not in reported:
            reported.add(key)
            small = shrink(probe, progs, kind, key, rng)
            k2, _, msg2, _ = judge(probe, small, random.Random(1), tries=2)
            if k2 == kind:
                msg = msg2
            head = '' if kind != 'diff' else 'correspondence: harness/threadprobe.cxx vs lean/IprModel/Isolation.lean + Own.lean (theorems IprProps/C20.lean)\n'
            res.violation(key, msg, head + program_text(small), found_input=(kind != 'diff'))
        if len(res.cov['samples']) < 2:
            res.sample({'threads': n, 'first_ops_of_thread_0': progs[0][:10]})
    res.cov['rounds_by_thread_count'] = nthreads_seen
    res.cov['schedules_per_round'] = tries
    res.cov['op_kinds'] = dict(sorted(kinds.items()))
    res.cov['writable_statics_table'] = [list(r) for r in rows]
    res.cov['writable_statics_not_allowed'] = [list(r) for r in bad_rows]
    res.cov['objects_scanned'] = [os.path.basename(s).replace('.cxx', '.o') for s in C.LIB_SOURCES] + ['threadprobe.o (entities of namespace ipr only)']
    res.cov['exhaustive'] = False
    res.assumptions += [
        'the C++ operations have the footprint the model gives them (constants, writable statics, ONE Lexicon): observed (TSan, trace '
        'comparison, address sets), not proved',
        'data-race freedom is runtime behaviour: ThreadSanitizer examines the schedules that occurred (%d per round), not all' % tries,
        'the process free store (malloc) is shared by all threads and trusted to be thread-safe',
        'statics of header-defined inline functions / templates are seen only where the probe instantiates them',
    ]
    return res.finish(info, rule='table: every non-section symbol in .data*/.bss*/.tdata/.tbss (not .data.rel.ro*) of the five library objects '
                      '(g++ -O1) and of the probe TU (namespace ipr only), rewritten into lean/Generated/Statics.lean and checked by '
                      'C20_no_shared_mutable; runtime: rounds of 2-16 threads, each thread builds a random program (C19 generator: names, '
                      'types, literals, expressions, units/modules, scopes, declarations), prints through ipr::Printer and destroys its '
                      'own Lexicon, all threads released by a barrier, under ThreadSanitizer; compared: each thread\'s full trace (node '
                      'identities by first appearance, table counts, printed text hashes) with the sequential run of the same programs, '
                      'and with the isolation model executing a random merge; addresses handed out by two Lexicons must be in '
                      'non-writable mappings; a trace is one thread program')


def replay(path):
    lines = [l.rstrip('\n') for l in open(path)]
    body = [l for l in lines if l.strip() and not l.startswith('#') and not l.startswith('correspondence:') and not l.startswith('theorem')]
    if body and body[0].startswith('static:'):
        rows = statics_table()
        bad = failing_rows(rows)
        hit = 0
        for l in body:
            obj, sec, sym = l[len('static:'):].strip().split('\t')
            present = any(r[2] == sym for r in bad)
            print('%-60s %s' % (sym, 'STILL a writable static of the current build' if present else 'no longer present'))
            hit += present
        if hit:
            print('VIOLATION property=C20 replay=%s' % path)
            return 1
        print('replay: property holds on this input')
        return 0
    C.lean_build(['model_c20'])
    probe = C.build_harness('threadprobe', 'tsan')
    progs = {}
    for l in body:
        t, op = l.split(' ', 1)
        progs.setdefault(int(t), []).append(op)
    kind, key, msg, err = judge(probe, progs, random.Random(1), tries=3)
    print('threads: %d, ops: %d' % (len(progs), sum(len(p) for p in progs.values())))
    if kind != 'ok':
        print('VIOLATION property=C20 replay=%s%s' % (path, ' no-failing-input-found' if kind == 'diff' else ''))
        print(msg)
        return 1
    print('replay: property holds on this input')
    return 0
