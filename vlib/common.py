"""Shared machinery of the IPR verification checks: builds, Lean audit, diffing, evidence, verdicts.

Everything here is derived from the location of this file, so a snapshot of /verif (vp run) works too.
"""
import fcntl, hashlib, json, os, random, re, shutil, subprocess, sys, time
from concurrent.futures import ThreadPoolExecutor

VERIF = os.path.dirname(os.path.dirname(os.path.abspath(__file__)))
REPO = os.environ.get('VERIF_REPO', '/repo')
CACHE = os.path.join(VERIF, '.cache')
LEAN = os.path.join(VERIF, 'lean')
HARNESS = os.path.join(VERIF, 'harness')
EVIDENCE = os.path.join(VERIF, 'evidence')
REPLAYS = os.path.join(VERIF, 'replays')
KNOWN = os.path.join(VERIF, 'KNOWN_FINDINGS.txt')
MODEL_BIN = os.path.join(LEAN, '.lake', 'build', 'bin')
GUARD = 'IPR_VERIF'
NCPU = os.cpu_count() or 4
TIMEOUT = -999          # run_exe's return code for a process stopped by the time limit

LIB_SOURCES = ['src/interface.cxx', 'src/impl.cxx', 'src/io.cxx', 'src/traversal.cxx', 'src/utility.cxx']
FLAVORS = {
    'plain': ['-O1', '-g'],
    'asan': ['-O1', '-g', '-fsanitize=address,undefined', '-fno-sanitize-recover=all', '-fno-omit-frame-pointer'],
    'tsan': ['-O1', '-g', '-fsanitize=thread'],
}
CXXFLAGS = ['-std=c++20', '-D' + GUARD, '-Wno-overloaded-virtual', '-I' + os.path.join(REPO, 'include')]

ALLOWED_AXIOMS = {'propext', 'Classical.choice', 'Quot.sound'}
FORBIDDEN = re.compile(r'\b(sorry|admit|native_decide|bv_decide|implemented_by|unsafe)\b|^\s*axiom\s|maxHeartbeats\s+0')


class BuildError(Exception):
    """The framework could not build something: not a verdict about the property (exit 2)."""


def log(*a):
    print(*a, file=sys.stderr, flush=True)


def seed():
    try:
        return int(os.environ.get('VERIF_SEED', '1'))
    except ValueError:
        return 1


class lock:
    def __init__(self, name):
        os.makedirs(CACHE, exist_ok=True)
        self.path = os.path.join(CACHE, name + '.lock')

    def __enter__(self):
        self.f = open(self.path, 'w')
        fcntl.flock(self.f, fcntl.LOCK_EX)

    def __exit__(self, *a):
        fcntl.flock(self.f, fcntl.LOCK_UN)
        self.f.close()


# ---------------------------------------------------------------------------------------------- C++ builds

def repo_hash():
    h = hashlib.sha256()
    for d in ('include/ipr', 'src'):
        base = os.path.join(REPO, d)
        for root, _, files in sorted(os.walk(base)):
            for f in sorted(files):
                p = os.path.join(root, f)
                h.update(os.path.relpath(p, REPO).encode())
                with open(p, 'rb') as fh:
                    h.update(fh.read())
    return h.hexdigest()[:16]


def _prune_cache(keep):
    """Drop library builds of trees not seen for a while (never one touched in the last 2 hours: another check may be
    using it), keeping the total bounded."""
    try:
        dirs = [d for d in os.listdir(CACHE) if d.startswith('lib-') and os.path.isdir(os.path.join(CACHE, d))]
    except FileNotFoundError:
        return
    now = time.time()
    dirs.sort(key=lambda d: os.path.getmtime(os.path.join(CACHE, d)))
    stale = [d for d in dirs if d != keep and now - os.path.getmtime(os.path.join(CACHE, d)) > 7200]
    for d in stale[:max(0, len(dirs) - 6)]:
        shutil.rmtree(os.path.join(CACHE, d), ignore_errors=True)
        for f in os.listdir(CACHE):
            if f.startswith(d + '-') and f.endswith('.lock'):
                try:
                    os.unlink(os.path.join(CACHE, f))
                except OSError:
                    pass


def run_cmd(cmd, **kw):
    return subprocess.run(cmd, stdout=subprocess.PIPE, stderr=subprocess.STDOUT, text=True, **kw)


def build_lib(flavor):
    """Static library of /repo's *current working tree* in the given flavour; cached by source hash."""
    rh = repo_hash()
    d = os.path.join(CACHE, 'lib-' + rh, flavor)
    lib = os.path.join(d, 'libipr.a')
    with lock('lib-%s-%s' % (rh, flavor)):
        if os.path.exists(lib):
            os.utime(os.path.join(CACHE, 'lib-' + rh))
            return lib
        os.makedirs(d, exist_ok=True)
        _prune_cache('lib-' + rh)
        t0 = time.time()

        def cc(src):
            obj = os.path.join(d, os.path.basename(src).replace('.cxx', '.o'))
            r = run_cmd(['g++'] + CXXFLAGS + FLAVORS[flavor] + ['-c', os.path.join(REPO, src), '-o', obj])
            if r.returncode != 0:
                raise BuildError('compiling %s (%s) failed:\n%s' % (src, flavor, r.stdout[-4000:]))
            return obj
        with ThreadPoolExecutor(5) as ex:
            objs = list(ex.map(cc, LIB_SOURCES))
        tmp = lib + '.tmp'
        r = run_cmd(['ar', 'rcs', tmp] + objs)
        if r.returncode != 0:
            raise BuildError('ar failed: ' + r.stdout)
        os.replace(tmp, lib)
        log('[build] libipr (%s) from %s in %.1fs' % (flavor, REPO, time.time() - t0))
    return lib


def build_harness(name, flavor='asan', sources=None, extra=(), link_lib=True, whitebox=True):
    """Compile a harness program against the current tree.  Returns the executable path."""
    sources = sources or [name + '.cxx']
    srcs = [os.path.join(HARNESS, s) for s in sources]
    rh = repo_hash()
    hh = hashlib.sha256()
    deps = list(srcs)
    for root, _, files in sorted(os.walk(HARNESS)):          # headers shared between probes
        deps += [os.path.join(root, f) for f in sorted(files) if f.endswith(('.hxx', '.h', '.hpp'))]
    # files of the harness directory a source pulls in with #include "..." (probes include each other's .cxx / .inc), transitively
    todo, seen = list(srcs), set(srcs)
    while todo:
        f = todo.pop()
        try:
            text = open(f, errors='replace').read()
        except OSError:
            continue
        for inc in re.findall(r'^\s*#\s*include\s+"([^"]+)"', text, re.M):
            g = os.path.normpath(os.path.join(os.path.dirname(f), inc))
            if g not in seen and os.path.isfile(g):
                seen.add(g); todo.append(g)
                if g not in deps: deps.append(g)
    for f in deps:
        with open(f, 'rb') as fh:
            hh.update(os.path.basename(f).encode() + fh.read())
    hh.update(repr((flavor, tuple(extra), link_lib, whitebox)).encode())
    d = os.path.join(CACHE, 'lib-' + rh, flavor)
    exe = os.path.join(d, '%s-%s' % (name, hh.hexdigest()[:12]))
    lib = build_lib(flavor) if link_lib else None
    with lock('har-%s-%s-%s' % (rh, flavor, name)):
        if os.path.exists(exe):
            return exe
        os.makedirs(d, exist_ok=True)
        t0 = time.time()
        cmd = ['g++'] + CXXFLAGS + FLAVORS[flavor] + (['-fno-access-control'] if whitebox else []) + \
              ['-I' + HARNESS] + list(extra) + srcs + ([lib] if lib else []) + ['-o', exe + '.tmp', '-pthread']
        r = run_cmd(cmd)
        if r.returncode != 0:
            raise BuildError('compiling harness %s failed:\n%s' % (name, r.stdout[-6000:]))
        os.replace(exe + '.tmp', exe)
        log('[build] harness %s (%s) in %.1fs' % (name, flavor, time.time() - t0))
    return exe


# ---------------------------------------------------------------------------------------------- Lean

def write_if_changed(path, content):
    try:
        if open(path).read() == content:
            return False
    except FileNotFoundError:
        pass
    os.makedirs(os.path.dirname(path), exist_ok=True)
    tmp = path + '.tmp%d' % os.getpid()
    with open(tmp, 'w') as f:
        f.write(content)
    os.replace(tmp, path)
    return True


def lean_build(targets=()):
    """`lake build` (proofs are re-checked whenever a source or a regenerated table changed).
    Returns (ok, output)."""
    from . import genroots
    with lock('lake'):
        genroots.main()
        t0 = time.time()
        r = run_cmd(['lake', 'build'] + list(targets), cwd=LEAN)
        log('[lean] lake build %s: %s in %.1fs' % (' '.join(targets), 'ok' if r.returncode == 0 else 'FAILED', time.time() - t0))
        return r.returncode == 0, r.stdout


def strip_lean_comments(text):
    text = re.sub(r'/-.*?-/', lambda m: '\n' * m.group(0).count('\n'), text, flags=re.S)
    return re.sub(r'--.*', '', text)


def lean_sources(roots=None):
    """Lean files of the project; with `roots` (module names) only their transitive import closure inside the project."""
    if roots is None:
        out = []
        for sub in ('IprModel', 'IprProofs', 'IprProps', 'IprDriver', 'Generated'):
            for root, _, files in os.walk(os.path.join(LEAN, sub)):
                for f in files:
                    if f.endswith('.lean'):
                        out.append(os.path.join(root, f))
        return sorted(out)
    seen, todo = set(), list(roots)
    while todo:
        m = todo.pop()
        path = os.path.join(LEAN, *m.split('.')) + '.lean'
        if m in seen or not os.path.exists(path):
            continue
        seen.add(m)
        for ln in open(path):
            mm = re.match(r'\s*(?:public\s+)?import\s+(\S+)', ln)
            if mm:
                todo.append(mm.group(1))
    return sorted(os.path.join(LEAN, *m.split('.')) + '.lean' for m in seen)


def property_targets(pid):
    t = ['IprProps.' + pid]
    if os.path.exists(os.path.join(LEAN, 'IprDriver', pid + '.lean')):
        t.append('model_' + pid.lower())
    return t


def property_theorems(pid):
    """Names of the theorems stated in IprProps/<pid>.lean (the registered obligations of the property)."""
    path = os.path.join(LEAN, 'IprProps', pid + '.lean')
    text = strip_lean_comments(open(path).read())
    ns = []
    names = []
    for line in text.splitlines():
        m = re.match(r'\s*namespace\s+(\S+)', line)
        if m:
            ns.append(m.group(1))
        m = re.match(r'\s*end\s+(\S+)', line)
        if m and ns and ns[-1] == m.group(1):
            ns.pop()
        m = re.match(r'\s*(?:private\s+|protected\s+)?theorem\s+(\S+)', line)
        if m and m.group(1).startswith(pid + '_'):
            names.append('.'.join(ns + [m.group(1)]))
    return names


def audit(pid):
    """Forbidden-token grep over all Lean sources + `#print axioms` on every property theorem.
    Returns dict(obligations, discharged, axioms={thm: [..]}, problems=[..])."""
    problems = []
    for p in lean_sources(['IprProps.' + pid, 'IprDriver.' + pid]):
        for i, line in enumerate(strip_lean_comments(open(p).read()).splitlines(), 1):
            if FORBIDDEN.search(line):
                problems.append('%s:%d: forbidden token: %s' % (os.path.relpath(p, VERIF), i, line.strip()[:80]))
    thms = property_theorems(pid)
    axioms = {}
    if thms:
        tmp = os.path.join(CACHE, 'audit-%s-%d.lean' % (pid, os.getpid()))
        with open(tmp, 'w') as f:
            f.write('import IprProps.%s\n' % pid + ''.join('#print axioms %s\n' % t for t in thms))
        r = run_cmd(['lake', 'env', 'lean', tmp], cwd=LEAN)
        os.unlink(tmp)
        out = r.stdout.replace('\n  ', ' ')
        for t in thms:
            m = re.search(r"'%s' depends on axioms: \[(.*?)\]" % re.escape(t), out, re.S)
            if m:
                axioms[t] = [a.strip() for a in m.group(1).split(',') if a.strip()]
            elif re.search(r"'%s' does not depend on any axioms" % re.escape(t), out):
                axioms[t] = []
            else:
                axioms[t] = None
                problems.append('theorem %s not found in the compiled environment: %s' % (t, r.stdout[-300:]))
    discharged = 0
    for t, ax in axioms.items():
        if ax is None:
            continue
        bad = [a for a in ax if a not in ALLOWED_AXIOMS]
        if bad:
            problems.append('theorem %s depends on disallowed axioms %s' % (t, bad))
        else:
            discharged += 1
    return {'obligations': len(thms), 'discharged': discharged, 'axioms': axioms, 'problems': problems}


def leanchecker(modules):
    probs = []
    for m in modules:
        r = run_cmd(['lake', 'env', 'leanchecker', m], cwd=LEAN)
        if r.returncode != 0:
            probs.append('leanchecker %s failed: %s' % (m, r.stdout[-500:]))
    return probs


# ---------------------------------------------------------------------------------------------- running both sides

def run_exe(exe, args, input_text, timeout=3600, env=None):
    e = dict(os.environ)
    e.setdefault('ASAN_OPTIONS', 'detect_leaks=0:abort_on_error=0:allocator_may_return_null=1')
    e.setdefault('UBSAN_OPTIONS', 'print_stacktrace=1')
    if env:
        e.update(env)
    try:
        p = subprocess.run([exe] + list(args), input=input_text, stdout=subprocess.PIPE, stderr=subprocess.PIPE,
                           text=True, timeout=timeout, env=e, errors='replace')
    except subprocess.TimeoutExpired as t:
        # A hang is a result, not a framework error: hand back what was printed so far with rc = TIMEOUT.
        def txt(b):
            return b.decode('utf-8', 'replace') if isinstance(b, bytes) else (b or '')
        return TIMEOUT, txt(t.stdout), txt(t.stderr) + '\n[timeout after %ds]' % timeout
    return p.returncode, p.stdout, p.stderr


def run_model(mode, input_text, timeout=3600, args=()):
    exe = os.path.join(MODEL_BIN, 'model_' + mode.lower())
    if not os.path.exists(exe):
        raise BuildError('model driver %s missing (lake build failed?)' % exe)
    return run_exe(exe, list(args), input_text, timeout)


def split_streams(out):
    """Separate an output stream into compared lines, '@' implementation assertions and '#' statistics."""
    cmp_lines, asserts, stats = [], [], []
    for ln in out.splitlines():
        if ln.startswith('@'):
            asserts.append(ln)
        elif ln.startswith('#'):
            stats.append(ln)
        else:
            cmp_lines.append(ln)
    return cmp_lines, asserts, stats


def first_diff(a, b):
    n = min(len(a), len(b))
    for i in range(n):
        if a[i] != b[i]:
            return i
    return None if len(a) == len(b) else n


# ---------------------------------------------------------------------------------------------- verdicts

class Result:
    """Collects what a check did and decides exit code / VIOLATION lines / evidence."""

    def __init__(self, pid, tier, level='proof'):
        self.pid, self.tier, self.level = pid, tier, level
        self.t0 = time.time()
        self.violations = []        # (key, description, replay path, found_input)
        self.known = []
        self.cov = {'samples': [], 'traces_validated_against_impl': 0}
        self.assumptions = []
        os.makedirs(REPLAYS, exist_ok=True)
        os.makedirs(EVIDENCE, exist_ok=True)

    def count(self, key, n=1):
        self.cov[key] = self.cov.get(key, 0) + n

    def sample(self, s, cap=6):
        if len(self.cov['samples']) < cap:
            self.cov['samples'].append(s)

    def known_findings(self):
        out = []
        try:
            for ln in open(KNOWN):
                m = re.match(r'finding:\s+property=(\S+)\s+key=(\S+)\s*(.*)', ln.strip())
                if m and m.group(1) == self.pid:
                    out.append((m.group(2), m.group(3)))
        except FileNotFoundError:
            pass
        return out

    def violation(self, key, description, replay_text, found_input=True):
        """Report a violation identified by `key` (matched against the known-findings file)."""
        for k, what in self.known_findings():
            if k == key:
                if key not in self.known:
                    self.known.append(key)
                    print('KNOWN-FINDING: property=%s %s %s' % (self.pid, key, what), flush=True)
                return
        safe = re.sub(r'[^A-Za-z0-9_.-]+', '_', key)[:80]
        path = os.path.join(REPLAYS, '%s-%s-seed%d-%s.txt' % (self.pid, self.tier, seed(), safe))
        with open(path, 'w') as f:
            f.write('# property=%s tier=%s seed=%d\n# %s\n' % (self.pid, self.tier, seed(), description.replace('\n', '\n# ')))
            f.write(replay_text if replay_text.endswith('\n') else replay_text + '\n')
        self.violations.append((key, description, path, found_input))
        print('VIOLATION property=%s replay=%s%s' % (self.pid, path, '' if found_input else ' no-failing-input-found'), flush=True)
        log('  -> ' + description.splitlines()[0][:300])

    def proof_broken(self, what, detail):
        """A proof obligation or the audit failed and no concrete failing input was found."""
        self.violation('proof:' + what, 'proof obligation no longer checks: %s\n%s' % (what, detail[-3000:]),
                       'theorem-or-correspondence: %s\n%s\n' % (what, detail[-6000:]), found_input=False)

    def finish(self, audit_info=None, rule='', extra=None):
        cov = self.cov
        if audit_info:
            cov['obligations'] = audit_info['obligations']
            cov['discharged'] = audit_info['discharged']
            cov['axioms'] = {k: v for k, v in audit_info['axioms'].items()}
        cov.setdefault('obligations', 0)
        cov.setdefault('discharged', 0)
        cov['checker_cmd'] = 'cd %s && lake build && lake env lean <#print axioms of every %s_* theorem>' % (LEAN, self.pid) + \
            ('; lake env leanchecker IprProps.%s' % self.pid if self.tier == 'thorough' else '')
        cov['trusted_base'] = [
            'Lean 4.33.0 kernel' + (' + leanchecker re-check' if self.tier == 'thorough' else ''),
            'axioms: subset of {propext, Classical.choice, Quot.sound} (audited per theorem, listed under coverage.axioms)',
            'hand-written model lean/IprModel; tied to the C++ only by the correspondence run described in rule',
            'harness/*.cxx, vlib/*.py, g++ 12, ASan/UBSan, Lean compiler for the native model driver',
        ]
        if rule:
            cov['rule'] = rule
        if extra:
            cov.update(extra)
        ev = {
            'property_id': self.pid, 'tier': self.tier, 'seed': seed(), 'level': self.level, 'coverage': cov,
            'assumptions': self.assumptions, 'wall_s': round(time.time() - self.t0, 2),
            'violations': len(self.violations), 'known_findings_reported': self.known,
            'repo_hash': repo_hash(),
        }
        with open(os.path.join(EVIDENCE, self.pid + '.json'), 'w') as f:
            json.dump(ev, f, indent=1, sort_keys=True)
            f.write('\n')
        if self.violations:
            return 1
        print('OK property=%s tier=%s obligations=%d discharged=%d traces=%d wall=%.1fs' % (
            self.pid, self.tier, cov['obligations'], cov['discharged'], cov['traces_validated_against_impl'],
            time.time() - self.t0), flush=True)
        return 0


def prove(res, pid, regen=None):
    """Layer P for one property: (regenerate tables), lake build, audit.  Returns (ok, audit_info, detail)."""
    if regen:
        regen()
    # Only this property's own targets (its theorems, their imports, its model driver): a file of another property
    # that does not build at the moment is not this property's business.
    ok, out = lean_build(property_targets(pid))
    if not ok:
        errs = '\n'.join(l for l in out.splitlines() if 'error' in l.lower() or l.startswith('✖'))[:3000]
        return False, {'obligations': len(property_theorems(pid)), 'discharged': 0, 'axioms': {}, 'problems': [errs]}, out
    info = audit(pid)
    if res.tier == 'thorough':
        info['problems'] += leanchecker(['IprProps.' + pid])
    ok = not info['problems'] and info['obligations'] > 0 and info['discharged'] == info['obligations']
    return ok, info, '\n'.join(info['problems'])


def ddmin(items, fails, max_tests=400):
    """Delta debugging: minimal sub-list on which `fails` is still true."""
    n = 2
    tests = 0
    while len(items) >= 2 and tests < max_tests:
        chunk = max(1, len(items) // n)
        subsets = [items[i:i + chunk] for i in range(0, len(items), chunk)]
        reduced = False
        for i in range(len(subsets)):
            comp = [x for j, s in enumerate(subsets) if j != i for x in s]
            tests += 1
            if comp and fails(comp):
                items = comp
                n = max(n - 1, 2)
                reduced = True
                break
        if not reduced:
            if n >= len(items):
                break
            n = min(len(items), n * 2)
    return items


# ---------------------------------------------------------------------------------------------- equal-hash words (libstdc++, 64 bit)
# std::hash<std::u8string_view> of libstdc++ is _Hash_bytes (a Murmur variant whose per-block mixing is a bijection), so two different
# 16-byte words with the same hash code are obtained by choosing the first 8 bytes of the second word freely and solving for its last 8.
# The probes that use such pairs check with the real std::hash that the codes are equal (another standard library: the pairs are just words).
_M64 = (1 << 64) - 1
_MUL = ((0xc6a4a793 << 32) + 0x5bd1e995) & _M64
_SEED = 0xc70f6907
_INV_MUL = pow(_MUL, -1, 1 << 64)


def _smix(v):
    return v ^ (v >> 47)


def _block(k):
    return (_smix((k * _MUL) & _M64) * _MUL) & _M64


def _unblock(d):
    # inverse of _block: d = smix(k*mul)*mul  ->  smix(k*mul) = d*inv ; smix is an involution on 64 bits (v ^ v>>47, 47 >= 32)
    return (_smix((d * _INV_MUL) & _M64) * _INV_MUL) & _M64


def std_hash_model(w):
    n = len(w)
    h = _SEED ^ ((n * _MUL) & _M64)
    i = 0
    while i + 8 <= n:
        h = ((h ^ _block(int.from_bytes(w[i:i + 8], 'little'))) * _MUL) & _M64
        i += 8
    if n & 7:
        h = ((h ^ int.from_bytes(w[i:], 'little')) * _MUL) & _M64
    h = (_smix(h) * _MUL) & _M64
    return _smix(h)


def equal_hash_partner(word16, first8):
    """The 16-byte word starting with `first8` that has the std::hash code of `word16`."""
    assert len(word16) == 16 and len(first8) == 8
    h0 = _SEED ^ ((16 * _MUL) & _M64)
    target = (((h0 ^ _block(int.from_bytes(word16[:8], 'little'))) * _MUL) & _M64) ^ _block(int.from_bytes(word16[8:], 'little'))
    after_first = ((h0 ^ _block(int.from_bytes(first8, 'little'))) * _MUL) & _M64
    k2 = _unblock(target ^ after_first)
    return first8 + k2.to_bytes(8, 'little')


def equal_hash_pairs(rng, n):
    """n pairs (A, B) of different 16-byte words with std_hash_model(A) == std_hash_model(B)."""
    out = []
    while len(out) < n:
        a = bytes(rng.choice(b'abcdefghijklmnopqrstuvwxyz_0123456789') for _ in range(16))
        b = equal_hash_partner(a, bytes(rng.choice(b'abcdefghijklmnopqrstuvwxyz') for _ in range(8)))
        if b != a and std_hash_model(a) == std_hash_model(b):
            out.append((a, b))
    return out


def equal_hash_group(rng, size):
    """`size` different 16-byte words that all have one std::hash code (libstdc++)."""
    a = bytes(rng.choice(b'abcdefghijklmnopqrstuvwxyz_0123456789') for _ in range(16))
    out = [a]
    while len(out) < size:
        b = equal_hash_partner(a, bytes(rng.choice(b'abcdefghijklmnopqrstuvwxyz') for _ in range(8)))
        if b not in out and std_hash_model(a) == std_hash_model(b):
            out.append(b)
    return out


def equal_hash_extension(prefix16):
    """The 24-byte word that starts with the 16-byte `prefix16` and has the SAME std::hash code as that prefix."""
    assert len(prefix16) == 16
    k1, k2 = int.from_bytes(prefix16[:8], 'little'), int.from_bytes(prefix16[8:], 'little')
    def two_blocks(n):
        h = _SEED ^ ((n * _MUL) & _M64)
        h = ((h ^ _block(k1)) * _MUL) & _M64
        return ((h ^ _block(k2)) * _MUL) & _M64
    s16, h2 = two_blocks(16), two_blocks(24)
    k3 = _unblock(((s16 * _INV_MUL) & _M64) ^ h2)
    w = prefix16 + k3.to_bytes(8, 'little')
    assert std_hash_model(w) == std_hash_model(prefix16)
    return w
