#include <ipr/impl>
#include <ipr/io>
#include <ipr/traversal>
#include <iostream>
#include <sstream>
#include <vector>
#include <string>
#include <functional>
#include <sys/wait.h>
#include <sys/resource.h>
#include <unistd.h>
using namespace ipr;
struct Item { std::string name; const Expr* e; };
int main() {
  impl::Lexicon lex; impl::Translation_unit unit{lex};
  auto& G = *unit.global_region();
  auto& I = lex.int_type(); auto& B = lex.bool_type();
  auto& a = *lex.make_id_expr(lex.get_identifier(u8"a"), I);
  auto& b = *lex.make_id_expr(lex.get_identifier(u8"b"), I);
  auto& T = lex.true_value();
  std::vector<Item> items;
  auto add = [&](std::string n, const Expr* e) { items.push_back({n, e}); };
  auto& xl = *lex.make_expr_list(); xl.push_back(&a); xl.push_back(&b);
  auto& encl = *lex.make_enclosure(Delimiter::Paren, xl);
  // unary
  add("Address", lex.make_address(a)); add("Array_delete", lex.make_array_delete(a)); add("Complement", lex.make_complement(a));
  add("Delete", lex.make_delete(a)); add("Demotion", lex.make_demotion(a, I)); add("Deref", lex.make_deref(a));
  add("Expr_list", &xl); add("Alignof", lex.make_alignof(a)); add("Sizeof", lex.make_sizeof(a)); add("Args_cardinality", lex.make_args_cardinality(a));
  add("Typeid", lex.make_typeid(a)); add("Restriction", lex.make_restriction(T)); add("Id_expr", &a); add("Label", lex.make_label(lex.get_identifier(u8"L")));
  add("Materialization", lex.make_materialization(a, I)); add("Not", lex.make_not(a)); add("Enclosure", &encl);
  add("Post_increment", lex.make_post_increment(a)); add("Post_decrement", lex.make_post_decrement(a)); add("Pre_increment", lex.make_pre_increment(a)); add("Pre_decrement", lex.make_pre_decrement(a));
  add("Promotion", lex.make_promotion(a, I)); add("Read", lex.make_read(a, I)); add("Throw", lex.make_throw(a)); add("Unary_minus", lex.make_unary_minus(a)); add("Unary_plus", lex.make_unary_plus(a));
  add("Expansion", lex.make_expansion(a)); auto& cons = *lex.make_construction(I, encl); add("Construction", &cons); add("Noexcept", lex.make_noexcept(a));
  add("Rewrite", lex.make_rewrite(a, b)); add("And", lex.make_and(a, b)); add("Array_ref", lex.make_array_ref(a, b)); add("Arrow", lex.make_arrow(a, b)); add("Arrow_star", lex.make_arrow_star(a, b));
  add("Assign", lex.make_assign(a, b)); add("Bitand", lex.make_bitand(a, b)); add("Bitand_assign", lex.make_bitand_assign(a, b)); add("Bitor", lex.make_bitor(a, b)); add("Bitor_assign", lex.make_bitor_assign(a, b));
  add("Bitxor", lex.make_bitxor(a, b)); add("Bitxor_assign", lex.make_bitxor_assign(a, b)); add("Cast", lex.make_cast(I, a)); add("Call", lex.make_call(a, xl)); add("Coercion", lex.make_coercion(a, I, I));
  add("Comma", lex.make_comma(a, b)); add("Const_cast", lex.make_const_cast(I, a)); add("Div", lex.make_div(a, b)); add("Div_assign", lex.make_div_assign(a, b)); add("Dot", lex.make_dot(a, b)); add("Dot_star", lex.make_dot_star(a, b));
  add("Dynamic_cast", lex.make_dynamic_cast(I, a)); add("Equal", lex.make_equal(a, b)); add("Greater", lex.make_greater(a, b)); add("Greater_equal", lex.make_greater_equal(a, b)); add("Less", lex.make_less(a, b)); add("Less_equal", lex.make_less_equal(a, b));
  add("Literal", lex.make_literal(I, u8"42")); add("Lshift", lex.make_lshift(a, b)); add("Lshift_assign", lex.make_lshift_assign(a, b)); add("Member_init", lex.make_member_init(a, b));
  add("Minus", lex.make_minus(a, b)); add("Minus_assign", lex.make_minus_assign(a, b)); add("Modulo", lex.make_modulo(a, b)); add("Modulo_assign", lex.make_modulo_assign(a, b)); add("Mul", lex.make_mul(a, b)); add("Mul_assign", lex.make_mul_assign(a, b));
  add("Narrow", lex.make_narrow(a, I, I)); add("Not_equal", lex.make_not_equal(a, b)); add("Or", lex.make_or(a, b)); add("Plus", lex.make_plus(a, b)); add("Plus_assign", lex.make_plus_assign(a, b)); add("Pretend", lex.make_pretend(a, I, I));
  add("Qualification", lex.make_qualification(a, lex.const_qualifier(), I)); add("Reinterpret_cast", lex.make_reinterpret_cast(I, a)); add("Scope_ref", lex.make_scope_ref(a, b)); add("Rshift", lex.make_rshift(a, b)); add("Rshift_assign", lex.make_rshift_assign(a, b));
  add("Static_cast", lex.make_static_cast(I, a)); add("Widen", lex.make_widen(a, I, I)); add("Binary_fold", lex.make_binary_fold(Category_code::Plus, a, b)); add("Where_no_decl", lex.make_where(a, b));
  { auto* w = lex.make_where(G); w->result = &a; add("Where", w); }
  add("Conditional", lex.make_conditional(a, b, a)); add("New", lex.make_new({}, cons));
  { auto* m = lex.make_mapping(G, Mapping_level{0}); m->param(lex.get_identifier(u8"p"), I); m->body = &a; impl::Warehouse<Type> w; w.push_back(I); m->typing = &lex.get_function(lex.get_product(w), I); add("Mapping", m); }
  { auto* l = lex.make_lambda(G, Mapping_level{0}); l->body = &a; l->typing = lex.make_closure(G); add("Lambda", l); }
  add("Requires", lex.make_requires(G, Mapping_level{0})); add("Phantom", lex.make_phantom()); add("Eclipsis", lex.make_eclipsis(I));
  add("Symbol", &T); add("Nullptr", &lex.nullptr_value());
  add("Asm", lex.make_asm(lex.get_string(u8"nop"))); add("Static_assert", lex.make_static_assert(T, {}));
  { auto* p = lex.make_mapping(G, Mapping_level{0}); add("Parameter_list", &p->parameters()); }
  { auto* ps = lex.make_elementary_substitution(*lex.make_mapping(G, Mapping_level{0})->param(lex.get_identifier(u8"q"), I), a); add("Instantiation", lex.make_instantiation(a, *ps)); }
  add("Scope", unit.global_scope());
  // directives
  add("Specifiers_spread", lex.make_specifiers_spread()); add("Structured_binding", lex.make_structured_binding()); add("Using_declaration", lex.make_using_declaration());
  add("Using_directive", lex.make_using_directive(*unit.global_scope(), lex.namespace_type())); add("Pragma", lex.make_pragma());
  // statements
  auto* blk = lex.make_block(G); blk->add_stmt(*lex.make_expr_stmt(a)); add("Block", blk);
  { auto* tb = lex.make_block(G); tb->add_stmt(*lex.make_expr_stmt(a)); auto* h = tb->new_handler(lex.get_identifier(u8"e"), I); h->body().add_stmt(*lex.make_expr_stmt(b)); add("TryBlock", tb); add("Handler", h); }
  add("Break", lex.make_break()); add("Continue", lex.make_continue()); add("Ctor_body", lex.make_ctor_body(xl, *blk)); add("Expr_stmt", lex.make_expr_stmt(a));
  add("Goto", lex.make_goto(a)); add("Return", lex.make_return(a)); add("If2", lex.make_if(a, *blk)); add("If3", lex.make_if(a, *blk, *blk)); add("Labeled_stmt", lex.make_labeled_stmt(a, *blk));
  { auto* d = lex.make_do(); d->control = &a; d->stmt = blk; add("Do", d); } { auto* d = lex.make_while(); d->control = &a; d->stmt = blk; add("While", d); } { auto* d = lex.make_switch(); d->control = &a; d->stmt = blk; add("Switch", d); }
  { auto* f = lex.make_for(); f->init = &a; f->cond = &a; f->inc = &a; f->stmt = blk; add("For", f); }
  { auto* f = lex.make_for_in(); f->var = unit.global_scope()->make_var(lex.get_identifier(u8"v"), I); f->seq = &a; f->stmt = blk; add("For_in", f); }
  // decls
  auto* sc = G.make_subregion();
  add("Var", sc->declare_var(lex.get_identifier(u8"x"), I)); add("Alias", sc->declare_alias(lex.get_identifier(u8"al"), I)); add("Field", sc->declare_field(lex.get_identifier(u8"f"), I));
  { auto* bf = sc->declare_bitfield(lex.get_identifier(u8"bf"), I); bf->length = &a; add("Bitfield", bf); }
  add("Typedecl", sc->declare_type(lex.get_identifier(u8"S"), lex.class_type()));
  { impl::Warehouse<Type> w; w.push_back(I); auto& ft = lex.get_function(lex.get_product(w), I); auto* fd = sc->declare_fun(lex.get_identifier(u8"fn"), ft); add("Fundecl_nodata", fd);
    auto* fd2 = sc->declare_fun(lex.get_identifier(u8"fn2"), ft); auto* m = lex.make_mapping(G, Mapping_level{0}); m->param(lex.get_identifier(u8"p"), I); m->body = blk; m->typing = &ft; fd2->data = impl::fundecl_data{ m }; add("Fundecl_def", fd2);
    auto& fa = lex.get_forall(lex.get_product(w), I); auto* tp = sc->declare_primary_template(lex.get_identifier(u8"tp"), fa); auto* m2 = lex.make_mapping(G, Mapping_level{0}); m2->body = &a; m2->typing = &fa; tp->init = m2; add("Template", tp); }
  { auto* en = lex.make_enum(G, Enum::Kind::Legacy); en->id = &lex.get_identifier(u8"E"); add("Enumerator", en->add_member(lex.get_identifier(u8"e0"))); add("Enum", en); }
  { auto* cl = lex.make_class(G); cl->id = &lex.get_identifier(u8"C"); add("Base_type", cl->declare_base(I)); cl->declare_field(lex.get_identifier(u8"m"), I); add("Class", cl); }
  { auto* u = lex.make_union(G); u->id = &lex.get_identifier(u8"U"); add("Union", u); auto* ns = lex.make_namespace(G); ns->id = &lex.get_identifier(u8"N"); add("Namespace", ns); auto* c = lex.make_closure(G); add("Closure_noname", c); }
  { auto* m = lex.make_mapping(G, Mapping_level{0}); add("Parameter", m->param(lex.get_identifier(u8"pp"), I)); }
  // types
  impl::Warehouse<Type> w; w.push_back(I); w.push_back(B);
  auto& prod = lex.get_product(w); auto& sum = lex.get_sum(w);
  add("Array", &lex.get_array(I, a)); add("ArrayPhantom", &lex.get_array(I, *lex.make_phantom())); add("As_type", &lex.get_as_type(a)); add("Decltype", &lex.get_decltype(a)); add("Tor", &lex.get_tor(prod, sum));
  add("Function", &lex.get_function(prod, I)); add("FunctionThrows", &lex.get_function(prod, I, sum)); add("Pointer", &lex.get_pointer(I)); add("Product", &prod); add("Ptr_to_member", &lex.get_ptr_to_member(I, B));
  add("Qualified", &lex.get_qualified(lex.const_qualifier(), I)); add("Reference", &lex.get_reference(I)); add("Rvalue_reference", &lex.get_rvalue_reference(I)); add("Sum", &sum); add("Forall", &lex.get_forall(prod, I)); add("Auto", &lex.get_auto());
  add("Builtin", &I); add("Extended", &lex.get_as_type(lex.get_identifier(u8"__int128")));
  add("Overload", &unit.global_scope()->operator[](lex.get_identifier(u8"v")).get());

  const char* routes[] = {"expr", "stmt", "decl", "type"};
  for (auto& it : items) for (int r = 0; r < 4; ++r) {
    const Type* ty = util::view<Type>(*it.e) ? nullptr : nullptr;
    int fd[2]; pipe(fd);
    pid_t pid = fork();
    if (pid == 0) {
      close(fd[0]);
      struct rlimit rl{8u<<20, 8u<<20}; setrlimit(RLIMIT_STACK, &rl);
      std::stringstream ss; Printer pp{lex, ss}; std::string res;
      auto before_flags = ss.flags(); int before_indent = pp.indent();
      try {
        if (r == 0) pp << xpr_expr(*it.e); else if (r == 1) pp << xpr_stmt(*it.e); else if (r == 2) pp << xpr_decl(*it.e);
        else { struct V : Constant_visitor<No_op> { const Type* t = nullptr; void visit(const Type& x) override { t = &x; } } v; it.e->accept(v); if (!v.t) { res = "n/a"; } else pp << xpr_type(*v.t); }
        if (res.empty()) { res = "ok"; std::string s = ss.str(); for (unsigned char c : s) if (c < 32 && c != '\n') { res = "ok-CTRL"; break; } if (ss.flags() != before_flags) res += "-FLAGS"; if (pp.indent() != before_indent) res += "-INDENT" + std::to_string(pp.indent()); }
      } catch (std::logic_error&) { res = "logic_error"; } catch (std::exception& e) { res = std::string("EXC:") + e.what(); } catch (...) { res = "EXC:non-std"; }
      (void)!write(fd[1], res.data(), res.size()); _exit(0);
    }
    close(fd[1]); char buf[256]; ssize_t n = read(fd[0], buf, 255); close(fd[0]); int st; waitpid(pid, &st, 0);
    std::string res = n > 0 ? std::string(buf, n) : (WIFSIGNALED(st) ? "CRASH sig " + std::to_string(WTERMSIG(st)) : "CRASH exit " + std::to_string(WEXITSTATUS(st)));
    if (res != "ok" && res != "logic_error" && res != "n/a") std::cout << it.name << " via " << routes[r] << ": " << res << "\n";
  }
  std::cout << "swept " << items.size() << " kinds x 4 routes\n";
}
