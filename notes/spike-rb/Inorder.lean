inductive Color | red | black deriving DecidableEq, Repr
inductive Tree (α : Type) | nil | node (c : Color) (l : Tree α) (k : α) (r : Tree α) deriving Repr
inductive Dir | L | R deriving DecidableEq, Repr
structure Frame (α : Type) where
  dir : Dir
  c : Color
  k : α
  sib : Tree α
abbrev Path (α) := List (Frame α)
namespace Tree
variable {α : Type}
def plug (t : Tree α) (f : Frame α) : Tree α :=
  match f.dir with
  | .L => .node f.c t f.k f.sib
  | .R => .node f.c f.sib f.k t
def zip (t : Tree α) : Path α → Tree α
  | [] => t
  | f :: fs => zip (t.plug f) fs
def blacken : Tree α → Tree α
  | .nil => .nil
  | .node _ l k r => .node .black l k r
def isRed : Tree α → Bool
  | .node .red _ _ _ => true
  | _ => false
def fixup : Tree α → Path α → Tree α
  | z, [] => z.blacken
  | z, [p] => (z.plug p).blacken
  | z, p :: g :: rest =>
    if p.c == .black then (zip z (p :: g :: rest)).blacken
    else if g.sib.isRed then
      let pT := z.plug { p with c := .black }
      let gT := pT.plug { g with c := .red, sib := g.sib.blacken }
      fixup gT rest
    else
      match z with
      | .nil => .nil
      | .node _ zl zk zr =>
      let sub : Tree α :=
        match g.dir, p.dir with
        | .L, .L => .node .black (.node .red zl zk zr) p.k (.node .red p.sib g.k g.sib)
        | .L, .R => .node .black (.node .red p.sib p.k zl) zk (.node .red zr g.k g.sib)
        | .R, .R => .node .black (.node .red g.sib g.k p.sib) p.k (.node .red zl zk zr)
        | .R, .L => .node .black (.node .red g.sib g.k zl) zk (.node .red zr p.k p.sib)
      (zip sub rest).blacken
termination_by _ p => p.length


def inorder : Tree α → List α
  | .nil => []
  | .node _ l k r => inorder l ++ k :: inorder r
def fL (f : Frame α) : List α := match f.dir with | .L => [] | .R => inorder f.sib ++ [f.k]
def fR (f : Frame α) : List α := match f.dir with | .L => f.k :: inorder f.sib | .R => []
def ctxL : Path α → List α | [] => [] | f :: fs => ctxL fs ++ fL f
def ctxR : Path α → List α | [] => [] | f :: fs => fR f ++ ctxR fs

@[simp] theorem inorder_blacken (t : Tree α) : inorder t.blacken = inorder t := by cases t <;> simp [blacken, inorder]
theorem inorder_plug (t : Tree α) (f : Frame α) : inorder (t.plug f) = fL f ++ inorder t ++ fR f := by
  cases f with | mk d c k sib => cases d <;> simp [plug, inorder, fL, fR]
theorem inorder_zip (path : Path α) : ∀ t : Tree α, inorder (zip t path) = ctxL path ++ inorder t ++ ctxR path := by
  induction path with
  | nil => intro t; simp [zip, ctxL, ctxR]
  | cons f fs ih => intro t; simp [zip, ih, inorder_plug, ctxL, ctxR, List.append_assoc]

theorem inorder_fixup : ∀ (len : Nat) (path : Path α), path.length = len → ∀ z : Tree α, z ≠ .nil →
    inorder (fixup z path) = ctxL path ++ inorder z ++ ctxR path := by
  intro len
  induction len using Nat.strongRecOn with
  | _ len ih =>
  intro path hlen z hz
  match path with
  | [] => simp [fixup, ctxL, ctxR]
  | [p] => simp [fixup, inorder_plug, ctxL, ctxR]
  | p :: g :: rest =>
    cases z with
    | nil => exact absurd rfl hz
    | node zc zl zk zr =>
    unfold fixup
    split
    · simp [inorder_zip]
    · split
      · rename_i hred
        have hlt : rest.length < len := by simp at hlen; omega
        rw [ih _ hlt rest rfl _ (by cases g with | mk d c k s => cases d <;> simp [plug])]
        cases p with | mk pd pc pk ps => cases g with | mk gd gc gk gs =>
        cases pd <;> cases gd <;> simp [plug, inorder, ctxL, ctxR, fL, fR, List.append_assoc]
      · cases p with | mk pd pc pk ps => cases g with | mk gd gc gk gs =>
        cases pd <;> cases gd <;> simp [inorder_zip, inorder, ctxL, ctxR, fL, fR, List.append_assoc]
end Tree
#print axioms Tree.inorder_fixup
