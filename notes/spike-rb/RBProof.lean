inductive Color | red | black deriving DecidableEq, Repr
inductive Tree (α : Type) | nil | node (c : Color) (l : Tree α) (k : α) (r : Tree α) deriving Repr
inductive Dir | L | R deriving DecidableEq, Repr
structure Frame (α : Type) where
  dir : Dir
  c : Color
  k : α
  sib : Tree α
abbrev Path (α) := List (Frame α)
namespace Tree
variable {α : Type}
def plug (t : Tree α) (f : Frame α) : Tree α :=
  match f.dir with
  | .L => .node f.c t f.k f.sib
  | .R => .node f.c f.sib f.k t
def zip (t : Tree α) : Path α → Tree α
  | [] => t
  | f :: fs => zip (t.plug f) fs
def blacken : Tree α → Tree α
  | .nil => .nil
  | .node _ l k r => .node .black l k r
def isRed : Tree α → Bool
  | .node .red _ _ _ => true
  | _ => false
def fixup : Tree α → Path α → Tree α
  | z, [] => z.blacken
  | z, [p] => (z.plug p).blacken
  | z, p :: g :: rest =>
    if p.c == .black then (zip z (p :: g :: rest)).blacken
    else if g.sib.isRed then
      let pT := z.plug { p with c := .black }
      let gT := pT.plug { g with c := .red, sib := g.sib.blacken }
      fixup gT rest
    else
      match z with
      | .nil => .nil
      | .node _ zl zk zr =>
      let sub : Tree α :=
        match g.dir, p.dir with
        | .L, .L => .node .black (.node .red zl zk zr) p.k (.node .red p.sib g.k g.sib)
        | .L, .R => .node .black (.node .red p.sib p.k zl) zk (.node .red zr g.k g.sib)
        | .R, .R => .node .black (.node .red g.sib g.k p.sib) p.k (.node .red zl zk zr)
        | .R, .L => .node .black (.node .red g.sib g.k zl) zk (.node .red zr p.k p.sib)
      (zip sub rest).blacken
termination_by _ p => p.length

inductive RB : Tree α → Color → Nat → Prop
  | nil : RB .nil .black 0
  | red {l r k n} : RB l .black n → RB r .black n → RB (.node .red l k r) .red n
  | black {l r k c1 c2 n} : RB l c1 n → RB r c2 n → RB (.node .black l k r) .black (n+1)

/-- `Ctx path c n`: the hole expects a subtree of root colour `c` and black height `n`. -/
inductive Ctx : Path α → Color → Nat → Prop
  | root {c n} : Ctx [] c n
  | black {d k sib cs c n rest} : RB sib cs n → Ctx rest .black (n+1) → Ctx (⟨d, .black, k, sib⟩ :: rest) c n
  | red {d k sib n rest} : RB sib .black n → Ctx rest .red n → Ctx (⟨d, .red, k, sib⟩ :: rest) .black n

theorem blacken_rb {t : Tree α} {c n} (h : RB t c n) : ∃ m, RB t.blacken .black m := by
  cases h with
  | nil => exact ⟨0, .nil⟩
  | red hl hr => exact ⟨_, .black hl hr⟩
  | black hl hr => exact ⟨_, .black hl hr⟩

theorem zip_rb {path : Path α} : ∀ {t : Tree α} {c n}, RB t c n → Ctx path c n → ∃ c' m, RB (zip t path) c' m := by
  induction path with
  | nil => intro t c n h _; exact ⟨c, n, h⟩
  | cons f rest ih =>
    intro t c n h hc
    cases hc with
    | black hs hrest =>
      rename_i d k sib cs
      cases d with
      | L => exact ih (t := Tree.node .black t k sib) (.black h hs) hrest
      | R => exact ih (t := Tree.node .black sib k t) (.black hs h) hrest
    | red hs hrest =>
      rename_i d k sib
      cases d with
      | L => exact ih (t := Tree.node .red t k sib) (.red h hs) hrest
      | R => exact ih (t := Tree.node .red sib k t) (.red hs h) hrest

theorem isRed_false_rb {t : Tree α} {c n} (h : RB t c n) (hr : t.isRed = false) : c = .black := by
  cases h <;> simp_all [isRed]
theorem isRed_true_rb {t : Tree α} {c n} (h : RB t c n) (hr : t.isRed = true) : ∃ l k r, t = .node .red l k r ∧ RB l .black n ∧ RB r .black n := by
  cases h with
  | nil => simp [isRed] at hr
  | red hl hr' => exact ⟨_, _, _, rfl, hl, hr'⟩
  | black _ _ => simp [isRed] at hr

/-- Main invariant, by strong induction on the path length. -/
theorem fixup_rb : ∀ (len : Nat) (path : Path α), path.length = len → ∀ (zl zr : Tree α) (zk : α) (n : Nat),
    RB zl .black n → RB zr .black n → Ctx path .black n →
    ∃ m, RB (fixup (.node .red zl zk zr) path) .black m := by
  intro len
  induction len using Nat.strongRecOn with
  | _ len ih =>
  intro path hlen zl zr zk n hl hr hctx
  have hz : RB (Tree.node .red zl zk zr) .red n := .red hl hr
  match path, hctx with
  | [], _ => exact ⟨_, by simpa [fixup, blacken] using RB.black hl hr⟩
  | [p], hctx =>
    cases hctx with
    | black hs hrest =>
      rename_i d k sib cs
      cases d <;> simp [fixup, plug, blacken]
      · exact ⟨_, .black hz hs⟩
      · exact ⟨_, .black hs hz⟩
    | red hs hrest =>
      rename_i d k sib
      cases d <;> simp [fixup, plug, blacken]
      · exact ⟨_, .black hz hs⟩
      · exact ⟨_, .black hs hz⟩
  | p :: g :: rest, hctx =>
    cases hctx with
    | black hs hrest =>
      -- parent black: just zip
      rename_i d k sib cs
      have hc : Ctx (⟨d, .black, k, sib⟩ :: g :: rest) .red n := .black hs hrest
      obtain ⟨c', m, h⟩ := zip_rb hz hc
      obtain ⟨m', h'⟩ := blacken_rb h
      exact ⟨m', by simpa [fixup] using h'⟩
    | red hs hrest =>
      rename_i d k sib
      -- parent red, so grandparent frame must be black
      cases hrest with
      | black hgs hgrest =>
        rename_i gd gk gsib gcs
        by_cases hu : gsib.isRed = true
        · -- case 1
          obtain ⟨ul, uk, ur, rfl, hul, hur⟩ := isRed_true_rb hgs hu
          have hub : RB (Tree.node .black ul uk ur) .black (n+1) := .black hul hur
          have : fixup (.node .red zl zk zr) (⟨d, .red, k, sib⟩ :: ⟨gd, .black, gk, .node .red ul uk ur⟩ :: rest)
               = fixup ((((Tree.node .red zl zk zr).plug ⟨d, .black, k, sib⟩)).plug ⟨gd, .red, gk, .node .black ul uk ur⟩) rest := by
            simp [fixup, isRed, blacken]
          rw [this]
          have hp : RB ((Tree.node .red zl zk zr).plug ⟨d, .black, k, sib⟩) .black (n+1) := by
            cases d <;> simp [plug]
            · exact .black hz hs
            · exact .black hs hz
          have hlt : rest.length < len := by simp at hlen; omega
          cases gd <;> simp only [plug]
          · exact ih _ hlt rest rfl _ _ _ _ hp hub hgrest
          · exact ih _ hlt rest rfl _ _ _ _ hub hp hgrest
        · -- cases 2/3
          have hu' : gsib.isRed = false := by simpa using hu
          have hgc := isRed_false_rb hgs hu'
          subst hgc
          have key : ∀ sub : Tree α, RB sub .black (n+1) → ∃ m, RB (zip sub rest).blacken .black m := by
            intro sub hsub
            obtain ⟨c', m, h⟩ := zip_rb hsub hgrest
            exact blacken_rb h
          cases gd <;> cases d <;> simp [fixup, hu'] <;> apply key
          · exact .black hz (.red hs hgs)
          · exact .black (.red hs hl) (.red hr hgs)
          · exact .black (.red hgs hl) (.red hr hs)
          · exact .black (.red hgs hs) hz
end Tree
#print axioms Tree.fixup_rb
