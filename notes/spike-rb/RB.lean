inductive Color | red | black deriving DecidableEq, Repr
inductive Tree (α : Type) | nil | node (c : Color) (l : Tree α) (k : α) (r : Tree α) deriving Repr
inductive Dir | L | R deriving DecidableEq, Repr
structure Frame (α : Type) where
  dir : Dir      -- which arm of this ancestor we went down
  c : Color
  k : α
  sib : Tree α   -- the other arm
abbrev Path (α) := List (Frame α)
namespace Tree
variable {α : Type}
def plug (t : Tree α) (f : Frame α) : Tree α :=
  match f.dir with
  | .L => .node f.c t f.k f.sib
  | .R => .node f.c f.sib f.k t
def zip (t : Tree α) : Path α → Tree α
  | [] => t
  | f :: fs => zip (t.plug f) fs
def blacken : Tree α → Tree α
  | .nil => .nil
  | .node _ l k r => .node .black l k r
def isRed : Tree α → Bool
  | .node .red _ _ _ => true
  | _ => false
/-- CLRS fixup; `z` is the subtree rooted at the current (red) node, path innermost-first. -/
def fixup : Tree α → Path α → Tree α
  | z, [] => z.blacken
  | z, [p] => (z.plug p).blacken              -- parent is root; loop stops (root black) or would be UB
  | z, p :: g :: rest =>
    if p.c == .black then (zip z (p :: g :: rest)).blacken
    else if g.sib.isRed then
      -- case 1
      let pT := z.plug { p with c := .black }
      let gT := pT.plug { g with c := .red, sib := g.sib.blacken }
      fixup gT rest
    else
      match z with
      | .nil => .nil -- impossible
      | .node _ zl zk zr =>
      let sub : Tree α :=
        match g.dir, p.dir with
        | .L, .L => -- z left of p, p left of g: rotate right at g
          .node .black (.node .red zl zk zr) p.k (.node .red p.sib g.k g.sib)
        | .L, .R => -- z right of p: rotate left at p then right at g
          .node .black (.node .red p.sib p.k zl) zk (.node .red zr g.k g.sib)
        | .R, .R =>
          .node .black (.node .red g.sib g.k p.sib) p.k (.node .red zl zk zr)
        | .R, .L =>
          .node .black (.node .red g.sib g.k zl) zk (.node .red zr p.k p.sib)
      (zip sub rest).blacken
termination_by _ p => p.length

/-- descend: comparator `cmp data key`; go left when `cmp data key < 0` (as the C++ does). -/
def descend (cmp : α → α → Int) (key : α) : Tree α → Path α → Option (Path α)
  | .nil, path => some path
  | .node c l k r, path =>
    let o := cmp k key
    if o < 0 then descend cmp key l ({dir := .L, c := c, k := k, sib := r} :: path)
    else if o > 0 then descend cmp key r ({dir := .R, c := c, k := k, sib := l} :: path)
    else none
def insert (cmp : α → α → Int) (t : Tree α) (key : α) : Tree α :=
  match descend cmp key t [] with
  | none => t
  | some path => fixup (.node .red .nil key .nil) path
def dump [ToString α] : Tree α → String
  | .nil => "."
  | .node c l k r => "(" ++ (if c == .red then "R" else "B") ++ toString k ++ " " ++ dump l ++ " " ++ dump r ++ ")"
end Tree
def icmp (a b : Int) : Int := if a < b then -1 else if b < a then 1 else 0
def run (xs : List Int) : String := (xs.foldl (Tree.insert icmp) .nil).dump
#eval run [1,2,3,4,5,6,7,8,9,10]
#eval run [10,9,8,7,6,5,4,3,2,1]
#eval run [5,3,8,1,4,7,9,2,6,10,5,3]
#eval run [50,20,70,10,30,25,27,26,60,65,62,1,2,3]
