/-! Spike for C10: decompose ∘ compose = id on sub-lists of a basis, with Nat bit operations (core only). -/
def bit (i : Nat) : Nat := 1 <<< i
def compose (S : List Nat) : Nat := S.foldl (fun acc i => acc ||| bit i) 0
def implies (a b : Nat) : Bool := (a &&& b) == b
def decompose (n : Nat) (x : Nat) : List Nat := (List.range n).filter (fun i => implies x (bit i))

theorem bit_eq (i : Nat) : bit i = 2 ^ i := by simp [bit, Nat.shiftLeft_eq]

theorem implies_bit (x i : Nat) : implies x (bit i) = x.testBit i := by
  simp only [implies, bit_eq]
  rw [Bool.eq_iff_iff]
  simp only [beq_iff_eq]
  constructor
  · intro h
    have := congrArg (fun y => y.testBit i) h
    simpa [Nat.testBit_and, Nat.testBit_two_pow_self] using this
  · intro h
    apply Nat.eq_of_testBit_eq
    intro j
    by_cases hj : i = j
    · subst hj; simp [Nat.testBit_and, h]
    · simp [Nat.testBit_and, Nat.testBit_two_pow, hj]

theorem testBit_foldl (S : List Nat) (acc j : Nat) :
    (S.foldl (fun a i => a ||| bit i) acc).testBit j = (acc.testBit j || decide (j ∈ S)) := by
  induction S generalizing acc with
  | nil => simp
  | cons i S ih =>
    rw [List.foldl_cons, ih]
    simp only [Nat.testBit_or, bit_eq, Nat.testBit_two_pow, List.mem_cons]
    by_cases h : i = j
    · subst h; simp
    · have h' : ¬ j = i := fun e => h e.symm
      simp [h, h']

theorem testBit_compose (S : List Nat) (j : Nat) : (compose S).testBit j = decide (j ∈ S) := by
  simp [compose, testBit_foldl]

theorem filter_mem_sublist {L S : List Nat} (hnd : L.Nodup) (hsub : S.Sublist L) :
    L.filter (fun i => decide (i ∈ S)) = S := by
  induction hsub with
  | slnil => simp
  | cons a h ih =>
    rename_i l₁ l₂
    have hnd' := List.nodup_cons.mp hnd
    have hn : a ∉ l₁ := fun hm => hnd'.1 (h.subset hm)
    simp [List.filter_cons, hn, ih hnd'.2]
  | cons_cons a h ih =>
    rename_i l₁ l₂
    have hnd' := List.nodup_cons.mp hnd
    simp only [List.filter_cons, List.mem_cons, true_or, decide_true, if_true]
    congr 1
    have := ih hnd'.2
    conv => rhs; rw [← this]
    apply List.filter_congr
    intro x hx
    have : x ≠ a := fun e => hnd'.1 (e ▸ hx)
    simp [this]

/-- every sub-list (in table order) of indices below `n` is recovered exactly. -/
theorem decompose_compose (n : Nat) (S : List Nat) (hsub : S.Sublist (List.range n)) :
    decompose n (compose S) = S := by
  unfold decompose
  simp only [implies_bit, testBit_compose]
  exact filter_mem_sublist List.nodup_range hsub
#print axioms decompose_compose
#eval decompose 18 (compose [0, 3, 7, 17])
