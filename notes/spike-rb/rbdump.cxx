#include <ipr/utility>
#include <iostream>
#include <string>
#include <vector>
using namespace ipr::util::rb_tree;
struct Probe : container<int> {
  using N = node<int>;
  std::string dump(N* n) const {
    if (!n) return ".";
    return "(" + std::string(n->color == Color::Red ? "R" : "B") + std::to_string(n->data) + " " + dump(n->left()) + " " + dump(n->right()) + ")";
  }
  std::string dump() const { return dump(this->root); }
};
int cmp(int a, int b) { return a < b ? -1 : (b < a ? 1 : 0); }
int main() {
  std::vector<std::vector<int>> seqs = {{1,2,3,4,5,6,7,8,9,10},{10,9,8,7,6,5,4,3,2,1},{5,3,8,1,4,7,9,2,6,10,5,3},{50,20,70,10,30,25,27,26,60,65,62,1,2,3}};
  for (auto& s : seqs) { Probe p; for (int x : s) p.insert(x, cmp); std::cout << p.dump() << " size=" << p.size() << "\n"; }
}
