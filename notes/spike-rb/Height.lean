inductive Color | red | black deriving DecidableEq
inductive Tree (α : Type) | nil | node (c : Color) (l : Tree α) (k : α) (r : Tree α)
namespace Tree
variable {α : Type}
def size : Tree α → Nat | nil => 0 | node _ l _ r => size l + size r + 1
def height : Tree α → Nat | nil => 0 | node _ l _ r => max (height l) (height r) + 1
inductive RB : Tree α → Color → Nat → Prop
  | nil : RB .nil .black 0
  | red {l r k n} : RB l .black n → RB r .black n → RB (.node .red l k r) .red n
  | black {l r k c1 c2 n} : RB l c1 n → RB r c2 n → RB (.node .black l k r) .black (n+1)

theorem rb_size {t : Tree α} {c n} (h : RB t c n) : 2 ^ n ≤ size t + 1 := by
  induction h with
  | nil => simp [size]
  | red _ _ ihl ihr => simp only [size]; omega
  | black _ _ ihl ihr => simp only [size, Nat.pow_succ]; omega

theorem rb_height {t : Tree α} {c n} (h : RB t c n) : height t ≤ 2 * n + (if c = .red then 1 else 0) := by
  induction h with
  | nil => simp [height]
  | red _ _ ihl ihr => simp only [height] at *; simp at *; omega
  | black hl hr ihl ihr =>
    rename_i l r k c1 c2 n
    simp only [height]
    have : height l ≤ 2 * n + 1 := by split at ihl <;> omega
    have : height r ≤ 2 * n + 1 := by split at ihr <;> omega
    simp; omega

/-- C08 height clause: a red-black tree with black root has height ≤ 2·log2(size+1). -/
theorem height_le_log {t : Tree α} {n} (h : RB t .black n) : height t ≤ 2 * Nat.log2 (size t + 1) := by
  have h1 := rb_size h
  have h2 := rb_height h
  simp at h2
  have : n ≤ Nat.log2 (size t + 1) := (Nat.le_log2 (by omega)).mpr h1
  omega
end Tree
#print axioms Tree.height_le_log
