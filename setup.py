#!/usr/bin/env python3
"""MANIFEST.setup_cmd: build the Lean project and warm the library cache, offline, from files on disk only.

The tables under lean/Generated are REWRITTEN BY EVERY CHECK from /repo's current tree before its theorems are re-checked, so the copies
in the repository only serve to warm the build cache here.  If a committed copy is stale with respect to the property files (the theorems
that range over it do not check), that is reported but is not a setup failure: the check of that property regenerates the table and
rebuilds.  Setup fails only if a model, a proof library or a model driver does not build."""
import os, sys
sys.path.insert(0, os.path.dirname(os.path.abspath(__file__)))
from concurrent.futures import ThreadPoolExecutor
from vlib import common as C

claimed = open(os.path.join(C.VERIF, 'vlib', 'claimed.txt')).read().split()
targets = [t for pid in claimed for t in C.property_targets(pid)]
with ThreadPoolExecutor(3) as ex:
    libs = ex.map(C.build_lib, ['plain', 'asan', 'tsan'])
    ok, out = C.lean_build(targets)
    list(libs)
if not ok:
    # build what can be built, one target at a time; only targets that do not range over a regenerated table are fatal
    fatal = []
    for t in targets:
        ok1, out1 = C.lean_build([t])
        if ok1:
            continue
        stale = t.startswith('IprProps.') and any(os.sep + 'Generated' + os.sep in f for f in C.lean_sources(roots=[t]))
        print('[setup] %s does not build%s' % (t, ' (it ranges over a regenerated table whose committed copy is stale; the check regenerates it)' if stale else ''))
        if not stale:
            fatal.append((t, out1))
    if fatal:
        for t, o in fatal:
            print('== ' + t + '\n' + o[-3000:])
        sys.exit(1)
print('setup ok')
