#!/usr/bin/env python3
"""MANIFEST.setup_cmd: build the Lean project and warm the library cache, offline, from files on disk only."""
import os, sys
sys.path.insert(0, os.path.dirname(os.path.abspath(__file__)))
from concurrent.futures import ThreadPoolExecutor
from vlib import common as C

claimed = open(os.path.join(C.VERIF, 'vlib', 'claimed.txt')).read().split()
targets = [t for pid in claimed for t in C.property_targets(pid)]
ok, out = C.lean_build(targets)
if not ok:
    print(out[-5000:])
    sys.exit(1)
with ThreadPoolExecutor(3) as ex:
    list(ex.map(C.build_lib, ['plain', 'asan', 'tsan']))
print('setup ok')
